import StrumModel
import Std.Data.HashMap
open Strum Strum.Protocol

def styleDebugName : CaseStyle → String
  | .camel => "CamelCase" | .kebab => "KebabCase" | .mixed => "MixedCase" | .shoutySnake => "ShoutySnakeCase"
  | .snake => "SnakeCase" | .title => "TitleCase" | .upper => "UpperCase" | .lower => "LowerCase"
  | .screamingKebab => "ScreamingKebabCase" | .pascal => "PascalCase" | .train => "TrainCase"

abbrev Env := Std.HashMap String EnumDef

def stepLine (env : Env) (line : String) : Env × Option String :=
  match line.trimAscii.toString.splitOn " " with
  | "enum" :: id :: toks =>
    match decodeEnum toks with
    | some d => (env.insert id d, none)
    | none => (env, some "bad-enum")
  | "variant" :: id :: toks =>
    match env[id]?, decodeVariant toks with
    | some d, some v => (env.insert id { d with variants := d.variants ++ [v] }, none)
    | _, _ => (env, some "bad-variant")
  | "op" :: id :: args =>
    match env[id]? with
    | some d => (env, some (runOp d args))
    | none => (env, some "bad-op")
  | ["case", style, id] =>
    match decodeStr id with
    | none => (env, some "bad-line")
    | some b =>
      match parseStyle style with
      | none => (env, some "ERR")
      | some cs => (env, some (encodeStr (convertCase (some cs) b)))
  | ["style", s] =>
    match decodeStr s with
    | none => (env, some "bad-line")
    | some b =>
      match parseStyle (String.ofList (b.map Char.ofNat)) with
      | none => (env, some "ERR")
      | some cs => (env, some (styleDebugName cs))
  | ["snakify", id] =>
    match decodeStr id with
    | none => (env, some "bad-line")
    | some b => (env, some (encodeStr (snakify b)))
  | [""] => (env, none)
  | _ => (env, some "bad-line")

partial def loop (h : IO.FS.Stream) (out : IO.FS.Stream) (env : Env) : IO Unit := do
  let line ← h.getLine
  if line.isEmpty then return ()
  let (env', o) := stepLine env line
  match o with
  | some s => out.putStrLn s
  | none => pure ()
  loop h out env'

def main : IO Unit := do
  let out ← IO.getStdout
  loop (← IO.getStdin) out {}
  out.flush
