import StrumModel
import Std.Data.HashMap
open Strum Strum.Protocol

abbrev Env := Std.HashMap String EnumDef

def stepLine (env : Env) (line : String) : Env × Option String :=
  match line.trimAscii.toString.splitOn " " with
  | "enum" :: id :: toks =>
    match decodeEnum toks with
    | some d => (env.insert id d, none)
    | none => (env, some "bad-enum")
  | "variant" :: id :: toks =>
    match env[id]?, decodeVariant toks with
    | some d, some v => (env.insert id { d with variants := d.variants ++ [v] }, none)
    | _, _ => (env, some "bad-variant")
  | "op" :: id :: args =>
    match env[id]? with
    | some d => (env, some (runOp d args))
    | none => (env, some "bad-op")
  | [""] => (env, none)
  | _ => (env, some "bad-line")

partial def loop (h : IO.FS.Stream) (out : IO.FS.Stream) (env : Env) : IO Unit := do
  let line ← h.getLine
  if line.isEmpty then return ()
  let (env', o) := stepLine env line
  match o with
  | some s => out.putStrLn s
  | none => pure ()
  loop h out env'

def main : IO Unit := do
  let out ← IO.getStdout
  loop (← IO.getStdin) out {}
  out.flush
