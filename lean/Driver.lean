import StrumModel
import Std.Data.HashMap
open Strum Strum.Protocol

def styleDebugName : CaseStyle → String
  | .camel => "CamelCase" | .kebab => "KebabCase" | .mixed => "MixedCase" | .shoutySnake => "ShoutySnakeCase"
  | .snake => "SnakeCase" | .title => "TitleCase" | .upper => "UpperCase" | .lower => "LowerCase"
  | .screamingKebab => "ScreamingKebabCase" | .pascal => "PascalCase" | .train => "TrainCase"

abbrev Env := Std.HashMap String EnumDef

structure RawInfo where
  kind : ItemKind := .enum
  lifetimes : Nat := 0
  enumAttrs : List EnumAttr := []
  discAttrs : List DiscAttr := []
  varAttrs : List (List VarAttr) := []
  fieldDw : List (List Nat) := []

abbrev RawEnv := Std.HashMap String RawInfo

def decodeEnumAttr (s : String) : Option EnumAttr :=
  match s with
  | "sa1" => some (.serializeAll true) | "sa0" => some (.serializeAll false) | "ci" => some .ci
  | "crate" => some .crate | "phf" => some .usePhf | "pfx" => some .pfx | "pty" => some .parseErrTy
  | "pfn" => some .parseErrFn | "cis" => some .constIntoStr
  | _ => none

def decodeDiscAttr (s : String) : Option DiscAttr :=
  match s with
  | "derive" => some .derive | "name" => some .name | "vis" => some .vis | "doc" => some .doc | "other" => some .other
  | _ => none

def decodeLit (s : String) : Option LitKind :=
  match s with
  | "s" => some .str | "i" => some .int | "b" => some .bool | "f" => some .float | "c" => some .char
  | "y" => some .byte | "Y" => some .byteStr
  | _ => none

def decodeVarAttr (s : String) : Option VarAttr :=
  match s.splitOn ":" with
  | ["msg"] => some .message | ["det"] => some .detailed | ["ser"] => some .serialize | ["ts"] => some .toString
  | ["tr"] => some .transparent | ["dis"] => some .disabled | ["def"] => some .default | ["dw"] => some .defaultWith
  | ["ci"] => some .ci
  | ["props", lits] => ((lits.splitOn ".").filter (· ≠ "")).mapM decodeLit |>.map .props
  | ["props"] => some (.props [])
  | _ => none

def listOf {α : Type} (f : String → Option α) (s : String) : Option (List α) :=
  if s = "-" then some [] else (s.splitOn ",").mapM f

def deriveOfName (s : String) : Option Derive :=
  match s with
  | "EnumString" => some .enumString | "Display" => some .display | "AsRefStr" => some .asRefStr
  | "IntoStaticStr" => some .intoStaticStr | "AsStaticStr" => some .asStaticStr | "ToString" => some .toString
  | "VariantNames" => some .variantNames | "VariantArray" => some .variantArray | "EnumIter" => some .enumIter
  | "EnumCount" => some .enumCount | "FromRepr" => some .fromRepr | "EnumIs" => some .enumIs
  | "EnumTryAs" => some .enumTryAs | "EnumTable" => some .enumTable | "EnumMessage" => some .enumMessage
  | "EnumProperty" => some .enumProperty | "EnumDiscriminants" => some .enumDiscriminants
  | _ => none

def showOutcome : Outcome → String
  | .accept => "accept" | .reject => "reject" | .panic => "panic"

def stepRaw (env : Env) (renv : RawEnv) (toks : List String) : RawEnv × Option String :=
  match toks with
  | "raw" :: id :: rest =>
    let kind := match kv rest "kind" with
      | some "struct" => ItemKind.struct
      | some "union" => ItemKind.union
      | _ => ItemKind.enum
    let lt := ((kv rest "lt").bind String.toNat?).getD 0
    match (kv rest "eattrs").bind (listOf decodeEnumAttr), (kv rest "dattrs").bind (listOf decodeDiscAttr) with
    | some ea, some da => (renv.insert id { kind := kind, lifetimes := lt, enumAttrs := ea, discAttrs := da }, none)
    | _, _ => (renv, some "bad-raw")
  | "rawv" :: id :: rest =>
    match renv[id]?, (kv rest "attrs").bind (listOf decodeVarAttr),
          (kv rest "fdw").map (fun s => if s = "-" then [] else (s.splitOn ".").filterMap String.toNat?) with
    | some r, some va, some fd =>
      (renv.insert id { r with varAttrs := r.varAttrs ++ [va], fieldDw := r.fieldDw ++ [fd] }, none)
    | _, _, _ => (renv, some "bad-rawv")
  | ["vop", id, "validate", dv] =>
    match env[id]?, renv[id]?, deriveOfName dv with
    | some d, some r, some dv =>
      (renv, some (showOutcome (validate dv ⟨r.kind, r.lifetimes, r.enumAttrs, r.discAttrs, r.varAttrs, r.fieldDw, d⟩)))
    | _, _, _ => (renv, some "bad-vop")
  | ["vop", id, "validatepinned", dv] =>
    match env[id]?, renv[id]?, deriveOfName dv with
    | some d, some r, some dv =>
      (renv, some (showOutcome (validatePinned dv ⟨r.kind, r.lifetimes, r.enumAttrs, r.discAttrs, r.varAttrs, r.fieldDw, d⟩)))
    | _, _, _ => (renv, some "bad-vop")
  | _ => (renv, some "bad-line")

def stepLine (env : Env) (line : String) : Env × Option String :=
  match line.trimAscii.toString.splitOn " " with
  | "enum" :: id :: toks =>
    match decodeEnum toks with
    | some d => (env.insert id d, none)
    | none => (env, some "bad-enum")
  | "variant" :: id :: toks =>
    match env[id]?, decodeVariant toks with
    | some d, some v => (env.insert id { d with variants := d.variants ++ [v] }, none)
    | _, _ => (env, some "bad-variant")
  | "rawenum" :: id :: toks =>
    match decodeRawEnum toks with
    | some r =>
      match collectEnum r [] with
      | .ok d => (env.insert id d, none)
      | .error _ => (env, some "collect-error")
    | none => (env, some "bad-enum")
  | "rawvariant" :: id :: toks =>
    -- the variant as written: attribute collection is part of the model (StrumModel/Collect.lean)
    match env[id]?, decodeRawVariant toks with
    | some d, some r =>
      match addVariantLine d r with
      | some d' => (env.insert id d', none)
      | none => (env, some "collect-error")
    | _, _ => (env, some "bad-variant")
  | "op" :: id :: args =>
    match env[id]? with
    | some d => (env, some (runOp d args))
    | none => (env, some "bad-op")
  | ["case", "-", id] =>
    match decodeStr id with
    | none => (env, some "bad-line")
    | some b => (env, some (encodeStr (convertCase none b)))
  | ["case", style, id] =>
    match decodeStr id with
    | none => (env, some "bad-line")
    | some b =>
      match parseStyle style with
      | none => (env, some "ERR")
      | some cs => (env, some (encodeStr (convertCase (some cs) b)))
  | ["style", s] =>
    match decodeStr s with
    | none => (env, some "bad-line")
    | some b =>
      match parseStyle (String.ofList (b.map Char.ofNat)) with
      | none => (env, some "ERR")
      | some cs => (env, some (styleDebugName cs))
  | ["refok", r] =>
    -- classify one extracted reference `kind:path` by the model's predicates
    let ref : Option Ref :=
      match r.splitOn ":" with
      | "absCore" :: rest => some (.absCore (String.intercalate ":" rest))
      | "absStd" :: rest => some (.absStd (String.intercalate ":" rest))
      | "strumItem" :: rest => some (.strumItem (String.intercalate ":" rest))
      | "hardStrum" :: rest => some (.hardStrum (String.intercalate ":" rest))
      | "bare" :: rest => some (.bare (String.intercalate ":" rest))
      | "macro" :: rest => some (.macroCall (String.intercalate ":" rest))
      | "rel" :: rest => some (.rel (String.intercalate ":" rest))
      | _ => none
    match ref with
    | none => (env, some "unknown-kind")
    | some x => (env, some (if x.noStdOk && x.cratePathOk && x.shadowSafe then "ok" else
        "bad:" ++ (if !x.noStdOk then "noStd " else "") ++ (if !x.cratePathOk then "cratePath " else "") ++ (if !x.shadowSafe then "shadow" else "")))
  | ["refs", dv] =>
    match deriveOfName dv with
    | none => (env, some "bad-line")
    | some dv => (env, some (String.intercalate "," ((allowedRefs dv).map Ref.show)))
  | "discheader" :: toks =>
    match runDiscHeader toks with
    | some s => (env, some s)
    | none => (env, some "bad-line")
  | ["snakify", id] =>
    match decodeStr id with
    | none => (env, some "bad-line")
    | some b => (env, some (encodeStr (snakify b)))
  | [""] => (env, none)
  | _ => (env, some "bad-line")

partial def loop (h : IO.FS.Stream) (out : IO.FS.Stream) (env : Env) (renv : RawEnv) : IO Unit := do
  let line ← h.getLine
  if line.isEmpty then return ()
  let toks := line.trimAscii.toString.splitOn " "
  match toks with
  | t :: _ =>
    if t = "raw" || t = "rawv" || t = "vop" then
      let (renv', o) := stepRaw env renv toks
      match o with
      | some s => out.putStrLn s
      | none => pure ()
      loop h out env renv'
    else
      let (env', o) := stepLine env line
      match o with
      | some s => out.putStrLn s
      | none => pure ()
      loop h out env' renv
  | [] => loop h out env renv

def main : IO Unit := do
  let out ← IO.getStdout
  loop (← IO.getStdin) out {} {}
  out.flush
