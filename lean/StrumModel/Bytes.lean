/-
Text is modelled as a list of byte values (`Nat`, each < 256 for real inputs; no lemma needs the bound).
Rust's `str::==`, `str::len`, `eq_ignore_ascii_case`, phf keys and `to_ascii_lowercase/uppercase`
are all byte-level operations, so this is exact for them.
-/
namespace Strum

abbrev Bytes := List Nat

def isUpper (b : Nat) : Bool := 65 ≤ b && b ≤ 90
def isLower (b : Nat) : Bool := 97 ≤ b && b ≤ 122
def isDigit (b : Nat) : Bool := 48 ≤ b && b ≤ 57
def isLetter (b : Nat) : Bool := isUpper b || isLower b
def isAlnum (b : Nat) : Bool := isLetter b || isDigit b

/-- `u8::to_ascii_lowercase` -/
def asciiLower (b : Nat) : Nat := if isUpper b then b + 32 else b
/-- `u8::to_ascii_uppercase` -/
def asciiUpper (b : Nat) : Nat := if isLower b then b - 32 else b

def lowerAll (s : Bytes) : Bytes := s.map asciiLower
def upperAll (s : Bytes) : Bytes := s.map asciiUpper

/-- `str::eq_ignore_ascii_case`: equal lengths and bytewise `to_ascii_lowercase(a) == to_ascii_lowercase(b)`. -/
def eqIgnoreAsciiCase : Bytes → Bytes → Bool
  | [], [] => true
  | a :: as, b :: bs => asciiLower a == asciiLower b && eqIgnoreAsciiCase as bs
  | _, _ => false

/-- a byte that starts a UTF-8 encoded char (not a continuation byte `10xxxxxx`) -/
def isCharStart (b : Nat) : Bool := !(128 ≤ b && b < 192)

/-- `str.chars().count()` on valid UTF-8 -/
def charCount (s : Bytes) : Nat := (s.filter isCharStart).length

/-- the bytes of the first `n` chars of `s` (valid UTF-8) -/
def takeChars : Nat → Bytes → Bytes
  | _, [] => []
  | n, b :: bs =>
    if isCharStart b then
      match n with
      | 0 => []
      | n + 1 => b :: takeChars n bs
    else b :: takeChars n bs

/-- Rust's `Iterator::max_by_key`: among maximal keys the **last** element wins. -/
def maxByKeyLast {α : Type} (key : α → Nat) : List α → Option α
  | [] => none
  | x :: xs => some (xs.foldl (fun best y => if key best ≤ key y then y else best) x)

end Strum
