import StrumModel.Display
import StrumModel.Table
import StrumModel.Repr
/-
Accept / reject / panic model of every derive on malformed input (C20).

A `RawItem` is the item as written: its kind (struct / union / enum), lifetime parameters, the *raw* lists
of attribute kinds (so repetition is expressible) and the definition the attributes would resolve to.
`validate` mirrors the checks of each `*_inner` function and of `get_type_properties` /
`get_variant_properties` / `get_variant_inner_properties`.
-/
namespace Strum

inductive ItemKind | struct | union | enum
  deriving DecidableEq, Repr

/-- enum-level `#[strum(..)]` items; `serializeAll ok` records whether the style string is accepted -/
inductive EnumAttr
  | serializeAll (ok : Bool) | ci | crate | usePhf | pfx | parseErrTy | parseErrFn | constIntoStr
  deriving DecidableEq, Repr

inductive DiscAttr | derive | name | vis | doc | other
  deriving DecidableEq, Repr

inductive LitKind | str | int | bool | float | char | byte | byteStr
  deriving DecidableEq, Repr

/-- variant-level `#[strum(..)]` items -/
inductive VarAttr
  | message | detailed | serialize | toString | transparent | disabled | default | defaultWith | ci
  | props (lits : List LitKind)
  deriving DecidableEq, Repr

inductive Derive
  | enumString | display | asRefStr | intoStaticStr | asStaticStr | toString | variantNames | variantArray
  | enumIter | enumCount | fromRepr | enumIs | enumTryAs | enumTable | enumMessage | enumProperty | enumDiscriminants
  deriving DecidableEq, Repr

structure RawItem where
  kind : ItemKind
  lifetimes : Nat
  enumAttrs : List EnumAttr
  discAttrs : List DiscAttr
  /-- raw attribute kinds per variant, aligned with `d.variants` -/
  varAttrs : List (List VarAttr)
  /-- number of `default_with` attributes on each field, per variant -/
  fieldDw : List (List Nat)
  /-- what the attributes resolve to -/
  d : EnumDef
  deriving Repr

inductive Outcome | accept | reject | panic
  deriving DecidableEq, Repr

def countP {α : Type} (p : α → Bool) (l : List α) : Nat := (l.filter p).length

def EnumAttr.sameKind : EnumAttr → EnumAttr → Bool
  | .serializeAll _, .serializeAll _ => true
  | .ci, .ci | .crate, .crate | .usePhf, .usePhf | .pfx, .pfx | .parseErrTy, .parseErrTy
  | .parseErrFn, .parseErrFn | .constIntoStr, .constIntoStr => true
  | _, _ => false

/-- `get_type_properties` fails: an unknown style string (parse error) or a repeated single-use kind -/
def typeErr (it : RawItem) : Bool :=
  it.enumAttrs.any (fun a => a == .serializeAll false) ||
  it.enumAttrs.any (fun a => 2 ≤ countP (EnumAttr.sameKind a) it.enumAttrs) ||
  2 ≤ countP (· == DiscAttr.name) it.discAttrs || 2 ≤ countP (· == DiscAttr.vis) it.discAttrs

def VarAttr.singleUse : VarAttr → Bool
  | .serialize | .props _ => false
  | _ => true

def VarAttr.sameKind : VarAttr → VarAttr → Bool
  | .message, .message | .detailed, .detailed | .serialize, .serialize | .toString, .toString
  | .transparent, .transparent | .disabled, .disabled | .default, .default | .defaultWith, .defaultWith
  | .ci, .ci => true
  | .props _, .props _ => true
  | _, _ => false

/-- `get_variant_properties` fails for this variant: a single-use kind occurs twice -/
def varAttrErr (attrs : List VarAttr) : Bool :=
  attrs.any (fun a => a.singleUse && 2 ≤ countP (VarAttr.sameKind a) attrs)

def anyVarAttrErr (it : RawItem) : Bool := it.varAttrs.any varAttrErr

def LitKind.supported : LitKind → Bool
  | .str | .int | .bool => true
  | _ => false

/-- an enabled variant carries a property literal that is not a string, integer or bool -/
def badPropLit (it : RawItem) : Bool :=
  (it.d.variants.zip it.varAttrs).any (fun p =>
    !p.1.disabled && p.2.any (fun a => match a with | .props lits => lits.any (fun l => !l.supported) | _ => false))

/-- a named field of a candidate variant has `default_with` twice -/
def fieldDwErr (it : RawItem) : Bool :=
  (it.d.variants.zip it.fieldDw).any (fun p =>
    !p.1.disabled && !p.1.isDefault && (match p.1.fields with | .named _ => true | _ => false) && p.2.any (2 ≤ ·))

def parseErrHalf (it : RawItem) : Bool :=
  (it.enumAttrs.any (· == .parseErrTy)) != (it.enumAttrs.any (· == .parseErrFn))

/-- does the derive call `get_type_properties()?` -/
def Derive.readsTypeProps : Derive → Bool
  | .fromRepr | .enumIs | .enumTryAs | .enumTable => false
  | _ => true

/-- does the derive call `get_variant_properties()?` on every variant -/
def Derive.readsVariantProps : Derive → Bool
  | .variantArray | .enumDiscriminants => false
  | _ => true

def isOkE {ε α : Type} : Except ε α → Bool
  | .ok _ => true
  | .error _ => false

/-- derive-specific shape checks, on the resolved definition -/
def shapeErr (dv : Derive) (it : RawItem) : Bool :=
  match dv with
  | .enumString => parseErrHalf it || !isOkE (genFromStr { it.d with usePhf := false }) || fieldDwErr it
  | .display => !isOkE (genNames it.d .display)
  | .asRefStr | .intoStaticStr | .asStaticStr => !isOkE (genNames it.d .asRef)
  | .toString => !isOkE (genNames it.d .toStringDeprecated)
  | .variantArray => (variantArray it.d).isNone
  | .enumIter | .fromRepr => 0 < it.lifetimes
  | .enumTable => 0 < it.lifetimes || !isOkE (genTable it.d)
  | .enumProperty => badPropLit it
  | _ => false

/-- the verdict of `#[derive(dv)]` on the item (after the F6 / F7 repairs no path panics) -/
def validate (dv : Derive) (it : RawItem) : Outcome :=
  if it.kind != .enum then .reject
  else if dv.readsTypeProps && typeErr it then .reject
  else if dv.readsVariantProps && anyVarAttrErr it then .reject
  else if shapeErr dv it then .reject
  else .accept

/-- the pinned EnumProperty / EnumIs / EnumTryAs behaviour, kept as regression witness -/
def validatePinned (dv : Derive) (it : RawItem) : Outcome :=
  if it.kind != .enum then .reject
  else match dv with
    | .enumIs | .enumTryAs => .accept                       -- `.ok()?`: attribute errors swallowed (F7)
    | .enumProperty =>
      if typeErr it then .reject else if anyVarAttrErr it then .reject
      else if badPropLit it then .panic else .accept        -- `todo!()` (F6)
    | _ => validate dv it

end Strum
