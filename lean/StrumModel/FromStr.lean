import StrumModel.Names
/-
`#[derive(EnumString)]`: strum_macros/src/macros/strings/from_string.rs.

gen  : `genFromStr`  — the arm lists, the phf key table and the fall-through the macro emits
eval : `FromStrImpl.eval` — what rustc makes of them (phf lookup, first-match `match`, `_ => return default`)
-/
namespace Strum

/-- how one payload field of a parsed variant is initialised -/
inductive FieldInit
  | dflt                      -- `Default::default()`
  | dfltWith (f : Bytes)      -- `f()` for `default_with = "f"`
  | captured (s : Bytes)      -- `s.into()` in the `default` variant
  deriving DecidableEq, Repr

inductive Pat
  | lit (s : Bytes)           -- `"lit" => ..`
  | guardCI (s : Bytes)       -- `s if s.eq_ignore_ascii_case("lit") => ..`
  deriving DecidableEq, Repr

def Pat.accepts : Pat → Bytes → Bool
  | .lit l, s => s == l
  | .guardCI l, s => eqIgnoreAsciiCase s l

structure Arm where
  pat : Pat
  ident : Bytes
  payload : List FieldInit
  deriving DecidableEq, Repr

inductive Fallthrough
  | errStd                    -- `Err(strum::ParseError::VariantNotFound)`
  | errCustom                 -- `Err(parse_err_fn(s))`
  | okCapture (ident : Bytes) -- `Ok(E::V(s.into()))`
  deriving DecidableEq, Repr

inductive ErrTy | strumParseError | custom
  deriving DecidableEq, Repr

structure FromStrImpl where
  /-- `phf_map!` entries in emission order -/
  phf : List Arm
  /-- arms of the ordinary `match s` -/
  arms : List Arm
  fall : Fallthrough
  errTy : ErrTy
  deriving Repr

inductive GenErr
  | twoDefaults | defaultShape | phfDupKey
  deriving DecidableEq, Repr

inductive ParseOut
  | ok (ident : Bytes) (payload : List FieldInit)
  | errStd
  /-- `Err(f(arg))`: the user's function was called once, with `arg` -/
  | errCustom (arg : Bytes)
  deriving DecidableEq, Repr

/-- the constructor arguments emitted for a matched variant (from_string.rs:82-114) -/
def payloadOf (v : Variant) : List FieldInit :=
  match v.fields with
  | .unit => []
  | .tuple n =>
    match v.defaultWith with
    | some f => [.dfltWith f]
    | none => List.replicate n .dflt
  | .named fs => fs.map (fun p => match p.2 with | some f => .dfltWith f | none => .dflt)

/-- ordinary match arms of one variant (from_string.rs:121-144) -/
def armsOfVariant (d : EnumDef) (v : Variant) : List Arm :=
  (serializations d.style v).filterMap (fun sp =>
    if d.ciOf v then some ⟨.guardCI sp, v.ident, payloadOf v⟩
    else if d.usePhf then none
    else some ⟨.lit sp, v.ident, payloadOf v⟩)

/-- append `k` unless this variant already inserted it (the F3 repair) -/
def pushKey (keys : List Bytes) (k : Bytes) : List Bytes := if keys.contains k then keys else keys ++ [k]

/-- phf keys of one variant: each spelling, and for a case-insensitive variant also its ASCII-lower
    and ASCII-upper forms; a key already inserted for this variant is not inserted again -/
def phfKeysOfVariant (d : EnumDef) (v : Variant) : List Bytes :=
  (serializations d.style v).foldl (fun keys sp =>
    let keys := pushKey keys sp
    if d.ciOf v then pushKey (pushKey keys (lowerAll sp)) (upperAll sp) else keys) []

def phfOfVariant (d : EnumDef) (v : Variant) : List Arm :=
  if d.usePhf then (phfKeysOfVariant d v).map (fun k => ⟨.lit k, v.ident, payloadOf v⟩) else []

def hasDupKey : List Bytes → Bool
  | [] => false
  | k :: ks => ks.contains k || hasDupKey ks

def armKey (a : Arm) : Bytes := match a.pat with | .lit k => k | .guardCI k => k

def genFromStr (d : EnumDef) : Except GenErr FromStrImpl :=
  let arms := d.candidates.flatMap (armsOfVariant d)
  let phf := d.candidates.flatMap (phfOfVariant d)
  let keys := phf.map armKey
  if hasDupKey keys then .error .phfDupKey else
  match d.defaults with
  | [] => .ok ⟨phf, arms, if d.customErr then .errCustom else .errStd,
               if d.customErr then .custom else .strumParseError⟩
  | [v] => if v.fields.arity = 1 then .ok ⟨phf, arms, .okCapture v.ident, .strumParseError⟩
           else .error .defaultShape
  | _ :: _ :: _ => .error .twoDefaults

def firstMatch : List Arm → Bytes → Option Arm
  | [], _ => none
  | a :: as, s => if a.pat.accepts s then some a else firstMatch as s

def Fallthrough.eval : Fallthrough → Bytes → ParseOut
  | .errStd, _ => .errStd
  | .errCustom, s => .errCustom s
  | .okCapture k, s => .ok k [.captured s]

/-- generated `from_str`: phf lookup, then the ordinary match, then the fall-through -/
def FromStrImpl.eval (p : FromStrImpl) (s : Bytes) : ParseOut :=
  match firstMatch p.phf s with
  | some a => .ok a.ident a.payload
  | none =>
    match firstMatch p.arms s with
    | some a => .ok a.ident a.payload
    | none => p.fall.eval s

/-- the model of `E::from_str` / `E::try_from` -/
def parse (d : EnumDef) (s : Bytes) : Except GenErr ParseOut :=
  (genFromStr d).map (·.eval s)

/-- calls made to the user's `parse_err_fn`, in order -/
def ParseOut.callLog : ParseOut → List Bytes
  | .errCustom a => [a]
  | _ => []

end Strum
