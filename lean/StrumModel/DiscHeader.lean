import StrumModel.Bytes
/-
The HEADER of the enum that `derive(EnumDiscriminants)` generates: which outer attributes it carries and in which order,
its visibility and its name - computed from the `#[strum_discriminants(..)]` attributes AS WRITTEN on the source enum
(helpers/type_props.rs:118-150 collects them, macros/enum_discriminants.rs:23-50 and 187-195 emit them), and the
attributes a variant of the generated enum inherits from the source variant (enum_discriminants.rs:52-98).

All token texts are CANONICAL: the token stream printed without any white space.
-/
namespace Strum

/-- one item of a `#[strum_discriminants(..)]` list on the enum -/
inductive DItem
  | derive (paths : List Bytes)
  | name (n : Bytes)
  | vis (v : Bytes)
  | doc (lit : Bytes)
  /-- anything else, `path(nested)`: passed through to the generated enum -/
  | other (tokens : Bytes)
  deriving DecidableEq, Repr

/-- the single-use kinds -/
inductive DKind | name | vis
  deriving DecidableEq, Repr

structure DiscProps where
  derives : List Bytes := []
  name : Option Bytes := none
  vis : Option Bytes := none
  docs : List Bytes := []
  others : List Bytes := []
  deriving DecidableEq, Repr

structure DState where
  p : DiscProps := {}
  seenName : Bool := false
  seenVis : Bool := false

/-- one iteration of `for meta in discriminants_meta` -/
def dStep (st : DState) : DItem → Except DKind DState
  | .derive ps => .ok { st with p := { st.p with derives := st.p.derives ++ ps } }
  | .doc l => .ok { st with p := { st.p with docs := st.p.docs ++ [l] } }
  | .other t => .ok { st with p := { st.p with others := st.p.others ++ [t] } }
  | .name n => if st.seenName then .error .name else .ok { st with p := { st.p with name := some n }, seenName := true }
  | .vis v => if st.seenVis then .error .vis else .ok { st with p := { st.p with vis := some v }, seenVis := true }

def dItems : DState → List DItem → Except DKind DState
  | st, [] => .ok st
  | st, it :: its =>
    match dStep st it with
    | .error k => .error k
    | .ok st' => dItems st' its

/-- the `strum_discriminants` half of `get_type_properties`: all lists flattened in source order -/
def collectDisc (attrs : List (List DItem)) : Except DKind DiscProps :=
  match dItems {} attrs.flatten with
  | .error k => .error k
  | .ok st => .ok st.p

/-! ### declarative reading -/

def DItem.derive? : DItem → Option (List Bytes) | .derive ps => some ps | _ => none
def DItem.doc? : DItem → Option Bytes | .doc l => some l | _ => none
def DItem.other? : DItem → Option Bytes | .other t => some t | _ => none
def DItem.name? : DItem → Option Bytes | .name n => some n | _ => none
def DItem.vis? : DItem → Option Bytes | .vis v => some v | _ => none

/-- all derive paths, all doc literals and all pass-through attributes, each in source order, wherever they stand
    relative to one another; the one name and the one visibility -/
def discDeclared (its : List DItem) : DiscProps :=
  { derives := (its.filterMap DItem.derive?).flatten, docs := its.filterMap DItem.doc?, others := its.filterMap DItem.other?,
    name := (its.filterMap DItem.name?).getLast?, vis := (its.filterMap DItem.vis?).getLast? }

def discCollectable (its : List DItem) : Bool :=
  (its.filterMap DItem.name?).length ≤ 1 && (its.filterMap DItem.vis?).length ≤ 1

/-! ### what is emitted -/

def commaSep : List Bytes → Bytes
  | [] => []
  | [x] => x
  | x :: xs => x ++ 44 :: commaSep xs

/-- `Clone,Copy,Debug,PartialEq,Eq,` -/
def stdDerives : Bytes :=
  [67,108,111,110,101,44,67,111,112,121,44,68,101,98,117,103,44,80,97,114,116,105,97,108,69,113,44,69,113,44]

/-- `derive(` -/
def kwDerive : Bytes := [100,101,114,105,118,101,40]
/-- `doc=` -/
def kwDoc : Bytes := [100,111,99,61]
/-- `repr(` -/
def kwRepr : Bytes := [114,101,112,114,40]
/-- `pub` -/
def kwPub : Bytes := [112,117,98]
/-- `Discriminants` -/
def sufDiscriminants : Bytes := [68,105,115,99,114,105,109,105,110,97,110,116,115]

structure DiscHeader where
  /-- the outer attributes of the generated enum, in order, each without its `#[` `]` -/
  attrs : List Bytes
  vis : Bytes
  name : Bytes
  /-- is `IntoDiscriminant` implemented for the source enum -/
  intoDisc : Bool
  deriving DecidableEq, Repr

/-- enum_discriminants.rs:187-195: docs, then the derive list (the five standard traits, then the requested ones), then the
    merged `repr`, then every pass-through attribute; the requested visibility or else the source enum's own; the requested
    name or else `<Enum>Discriminants`; `IntoDiscriminant` unless a visibility other than plain `pub` was requested -/
def discHeader (enumName enumVis : Bytes) (reprs : List Bytes) (p : DiscProps) : DiscHeader :=
  { attrs := p.docs.map (kwDoc ++ ·) ++ [kwDerive ++ stdDerives ++ commaSep p.derives ++ [41]] ++
             (if reprs.isEmpty then [] else [kwRepr ++ commaSep reprs ++ [41]]) ++ p.others,
    vis := p.vis.getD enumVis,
    name := p.name.getD (enumName ++ sufDiscriminants),
    intoDisc := match p.vis with | none => true | some v => v == kwPub }

/-! ### variant attributes -/

/-- an attribute on a variant of the source enum -/
structure VAttr where
  /-- the attribute's path when it is a single identifier (else empty) -/
  path : Bytes
  /-- the whole attribute without `#[` `]` -/
  text : Bytes
  /-- for `path(inner)`: the inner tokens -/
  inner : Option Bytes := none
  deriving DecidableEq, Repr

def idDoc : Bytes := [100,111,99]
def idCfg : Bytes := [99,102,103]
def idAllow : Bytes := [97,108,108,111,119]
def idDeny : Bytes := [100,101,110,121]
/-- `strum_discriminants` -/
def idSD : Bytes := [115,116,114,117,109,95,100,105,115,99,114,105,109,105,110,97,110,116,115]

def attributesToCopy : List Bytes := [idDoc, idCfg, idAllow, idDeny, idSD]

/-- `None`: the attribute is not copied; `some (.error ())`: compile error (a `strum_discriminants` attribute that is not a
    non-empty list); `some (.ok t)`: the generated variant carries `#[t]` -/
def variantAttrOut (a : VAttr) : Option (Except Unit Bytes) :=
  if attributesToCopy.contains a.path then
    if a.path == idSD then
      match a.inner with
      | none => some (.error ())
      | some i => if i.isEmpty then some (.error ()) else some (.ok i)
    else some (.ok a.text)
  else none

def variantAttrsOut : List VAttr → Except Unit (List Bytes)
  | [] => .ok []
  | a :: as =>
    match variantAttrOut a with
    | none => variantAttrsOut as
    | some (.error ()) => .error ()
    | some (.ok t) =>
      match variantAttrsOut as with
      | .error () => .error ()
      | .ok ts => .ok (t :: ts)

end Strum
