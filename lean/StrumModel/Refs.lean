import StrumModel.Validate
/-
C19: the external references each derive's templates can emit (union over all branches of the template),
as read off strum_macros/src/macros/**/*.rs.  The correspondence checks that the references extracted
from real expansions are a subset of these lists; the theorems check that every listed reference is
allowed under `#![no_std]` without alloc, goes through the configured strum path, and is not a path
relative to a `core` / `std` segment that a local module could shadow.
-/
namespace Strum

inductive Ref
  /-- `::core::<path>` -/
  | absCore (p : String)
  /-- `::std::<path>` or `::alloc::<path>` -/
  | absStd (p : String)
  /-- an item of strum, always spelled `#strum_module_path::<item>` -/
  | strumItem (p : String)
  /-- a literal `::strum::<item>` that ignores `#[strum(crate = ..)]` -/
  | hardStrum (p : String)
  /-- an unqualified identifier resolved through the prelude -/
  | bare (n : String)
  /-- `name!(..)` -/
  | macroCall (n : String)
  /-- a path starting with a plain `core` / `std` / `alloc` segment -/
  | rel (p : String)
  deriving DecidableEq, Repr

/-- names every edition-2021 crate has in scope, with or without std -/
def corePrelude : List String :=
  ["Default", "Option", "Some", "None", "Iterator", "ExactSizeIterator", "DoubleEndedIterator", "Clone", "Copy",
   "Debug", "PartialEq", "Eq", "Hash", "Fn", "Result", "Ok", "Err", "From", "Into", "AsRef", "Sized", "Send", "Sync",
   "PartialOrd", "Ord", "FnMut", "FnOnce", "Drop", "IntoIterator"]

/-- macros available without std / alloc (`phf_map` is reached through the strum re-export alias) -/
def coreMacros : List String := ["panic", "format_args", "concat", "phf_map"]

def Ref.noStdOk : Ref → Bool
  | .absCore _ => true
  | .absStd _ => false
  | .strumItem _ => true
  | .hardStrum _ => true
  | .bare n => corePrelude.contains n
  | .macroCall n => coreMacros.contains n
  | .rel _ => false

def Ref.cratePathOk : Ref → Bool
  | .hardStrum _ => false
  | _ => true

def Ref.shadowSafe : Ref → Bool
  | .rel _ => false
  | _ => true

def optionRefs : List Ref :=
  [.absCore "option::Option", .absCore "option::Option::Some", .absCore "option::Option::None"]

/-- everything the templates of one derive can emit -/
def allowedRefs : Derive → List Ref
  | .enumString =>
    [.absCore "convert::TryFrom", .absCore "result::Result", .absCore "result::Result::Err", .absCore "result::Result::Ok",
     .absCore "str::FromStr", .absCore "str::FromStr::from_str", .strumItem "ParseError", .strumItem "ParseError::VariantNotFound",
     .strumItem "_private_phf_reexport_for_macro_if_phf_feature", .bare "Default", .bare "Some", .macroCall "phf_map"]
  | .display =>
    [.absCore "fmt::Display", .absCore "fmt::Display::fmt", .absCore "fmt::Error", .absCore "fmt::Formatter",
     .absCore "result::Result", .macroCall "panic", .macroCall "format_args"]
  | .asRefStr => [.absCore "convert::AsRef", .macroCall "panic"]
  | .intoStaticStr => [.absCore "convert::From", .absCore "convert::From::from", .macroCall "panic"]
  | .asStaticStr => [.strumItem "AsStaticRef", .absCore "convert::From::from", .macroCall "panic"]
  | .toString => [.absStd "string::String", .absStd "string::String::from", .absStd "string::ToString", .macroCall "panic"]
  | .variantNames => [.strumItem "VariantNames"]
  | .variantArray => [.strumItem "VariantArray"]
  | .enumIter =>
    [.absCore "default::Default::default", .absCore "fmt::Debug", .absCore "fmt::Formatter", .absCore "fmt::Result",
     .absCore "iter::FusedIterator", .absCore "marker::PhantomData", .strumItem "IntoEnumIterator",
     .bare "Clone", .bare "DoubleEndedIterator", .bare "ExactSizeIterator", .bare "Iterator", .bare "Some"] ++ optionRefs
  | .enumCount => [.strumItem "EnumCount"]
  | .fromRepr => [.absCore "default::Default::default", .bare "Option"] ++ optionRefs
  | .enumIs => []
  | .enumTryAs => [.absCore "option::Option", .bare "Some", .bare "None"]
  | .enumTable =>
    [.absCore "ops::Index", .absCore "ops::IndexMut", .absCore "result::Result", .absCore "result::Result::Ok",
     .bare "Clone", .bare "Debug", .bare "Default", .bare "Eq", .bare "Fn", .bare "Hash", .bare "PartialEq",
     .macroCall "panic"] ++ optionRefs
  | .enumMessage => [.strumItem "EnumMessage", .macroCall "concat"] ++ optionRefs
  | .enumProperty => [.strumItem "EnumProperty"] ++ optionRefs
  | .enumDiscriminants =>
    [.absCore "convert::From", .strumItem "IntoDiscriminant", .bare "Clone", .bare "Copy", .bare "Debug",
     .bare "PartialEq", .bare "Eq"]

def Derive.deprecated : Derive → Bool
  | .toString | .asStaticStr => true
  | _ => false

def Ref.show : Ref → String
  | .absCore p => "absCore:" ++ p
  | .absStd p => "absStd:" ++ p
  | .strumItem p => "strumItem:" ++ p
  | .hardStrum p => "hardStrum:" ++ p
  | .bare n => "bare:" ++ n
  | .macroCall n => "macro:" ++ n
  | .rel p => "rel:" ++ p

/-- the pinned Display template used `format!` for interpolated tuple variants (F5) -/
def allowedRefsPinnedDisplay : List Ref := allowedRefs .display ++ [.macroCall "format"]

end Strum
