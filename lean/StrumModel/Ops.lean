import StrumModel.Protocol
import StrumModel.Overlap
import StrumModel.Display
import StrumModel.Iter
import StrumModel.Repr
import StrumModel.Message
import StrumModel.Table
/-
Dispatch of `op` lines to the model. One answer line per op.
-/
namespace Strum.Protocol
open Strum

def showNameErr : NameErr → String
  | .transparentShape => "CE:transparentShape"
  | .defaultShape => "CE:defaultShape"
  | .capture _ => "CE:capture"
  | .badIdent => "CE:badIdent"
  | .emptyPlaceholder => "CE:emptyPlaceholder"
  | .unitPlaceholder => "CE:unitPlaceholder"

def showShowOut : ShowOut → String
  | .text b => encodeStr b
  | .interp _ _ => "INTERP"
  | .panic => "PANIC"

def deriveOfKey (k : String) : Option NameDerive :=
  match k with
  | "display" => some .display
  | "to_string" => some .display
  | "tostring" => some .toStringDeprecated
  | "asref" => some .asRef
  | "asstatic" => some .asStatic
  | "intoref" => some .intoStaticRef
  | "intostr" => some .intoStr
  | "into" => some .intoStatic
  | _ => none

def decodeSpec (s : String) : Option FmtSpec :=
  match (s.splitOn ",").map String.toInt? with
  | [some f, some a, some w, some p, some z] =>
    let fill : Bytes := if f = 1 then [42] else if f = 2 then [195, 169] else [32]
    let align := if a = 1 then some Align.left else if a = 2 then some Align.center else if a = 3 then some Align.right else none
    some { fill := fill, align := align, width := if w < 0 then none else some w.toNat,
           prec := if p < 0 then none else some p.toNat, zero := z != 0 }
  | _ => none

def nameOut (d : EnumDef) (dv : NameDerive) (v : Variant) (inner : Bytes) : Except NameErr ShowOut :=
  match dv with
  | .display => displayOut d v (fun sp => pad sp inner) {}
  | _ => strOut d dv v inner

def findVariant (d : EnumDef) (k : String) : Option Variant :=
  match decodeStr k with
  | none => none
  | some k => d.variants.find? (fun v => v.ident == k)

def showParseBack (d : EnumDef) (o : Except NameErr ShowOut) : String :=
  match o with
  | .error e => showNameErr e
  | .ok (.text b) =>
    match parse d b with
    | .error e => showGenErr e
    | .ok (.ok k p) => String.intercalate ":" (["ok", encodeStr k] ++ p.map showFieldInit)
    | .ok _ => "err"
  | .ok .panic => "PANIC"
  | .ok (.interp _ _) => "INTERP"

def showItem (d : EnumDef) (i : Option Nat) : String :=
  match i with
  | none => "none"
  | some i =>
    match (iterTable d)[i]? with
    | none => "bad-index"
    | some (k, p) => String.intercalate ":" (encodeStr k :: p.map showFieldInit)

def parseIterTok (t : String) : Option (String × Nat × Nat) :=
  match t.splitOn ":" with
  | [name, slot] => slot.toNat?.map (fun s => (name, s, 0))
  | [name, slot, n] => do pure (name, (← slot.toNat?), (← n.toNat?))
  | _ => none

/-- run a history of iterator operations; clones are appended as new slots -/
def runIterHistory (d : EnumDef) (m : Mode) : List IterState → List String → Option (List String)
  | _, [] => some []
  | slots, t :: ts =>
    let N := (iterTable d).length
    match parseIterTok t with
    | none => some ["bad-tok"]
    | some (name, slot, n) =>
      let stepWith (op : IterOp) (render : IterOut → String) : Option (List String) :=
        match iterStep m N slots op with
        | none => none
        | some (slots', o) => (runIterHistory d m slots' ts).map (render o :: ·)
      let renderOut : IterOut → String := fun o =>
        match o with
        | .item i => showItem d i
        | .len k => "len=" ++ toString k
        | .cloned => "cloned"
      match name with
      | "next" => stepWith (.next slot) renderOut
      | "back" => stepWith (.nextBack slot) renderOut
      | "nth" => stepWith (.nth slot n) renderOut
      | "nthback" => stepWith (.nthBack slot n) renderOut
      | "len" => stepWith (.len slot) renderOut
      | "hint" => stepWith (.len slot) renderOut
      | "clone" => stepWith (.clone slot) renderOut
      | "skip" =>
        -- `it.clone().skip(n).next()` = `nth(n)` on a copy
        match slots[slot]? with
        | none => some ["bad-slot"]
        | some s => (runIterHistory d m slots ts).map (showItem d (nth N s n).2 :: ·)
      | "fold" | "count" | "last" =>
        -- consumers of a copy whose default bodies in core are repeated `next` (`fold`, and `count` / `last` through it)
        match slots[slot]? with
        | none => some ["bad-slot"]
        | some s =>
          let items := collectFuel N (N + 2) s
          let shown :=
            if name = "fold" then "fold=" ++ String.intercalate "+" (items.map (fun i => showItem d (some i)))
            else if name = "count" then "count=" ++ toString items.length
            else showItem d items.getLast?
          (runIterHistory d m slots ts).map (shown :: ·)
      | "rfold" =>
        -- `it.clone().rfold(..)`: repeated `next_back`
        match slots[slot]? with
        | none => some ["bad-slot"]
        | some s =>
          (runIterHistory d m slots ts).map
            (("rfold=" ++ String.intercalate "+" ((collectBackFuel m N (N + 2) s).map (fun i => showItem d (some i)))) :: ·)
      | "stepby" =>
        -- first three items of `it.clone().step_by(n)`: `next()`, then `nth(n - 1)` twice
        match slots[slot]? with
        | none => some ["bad-slot"]
        | some s =>
          let r1 := next N s
          let r2 := nth N r1.1 (n - 1)
          let r3 := nth N r2.1 (n - 1)
          (runIterHistory d m slots ts).map
            (String.intercalate "," [showItem d r1.2, showItem d r2.2, showItem d r3.2] :: ·)
      | _ => some ["bad-tok"]

def showMatchOut (o : MatchOut Bytes) : String :=
  match o with
  | .val (some b) => encodeStr b
  | .val none => "-"
  | .nonExhaustive => "CE:nonExhaustive"

def declIndex (d : EnumDef) (k : Bytes) : Int := ((d.variants.map (·.ident)).idxOf k : Nat)

/-- interpret a table history; `none` = panic -/
def runTableHistory (d : EnumDef) (t : TableImpl) : TableVal Int → List String → Option (List String)
  | _, [] => some []
  | tv, tok :: toks =>
    match tok.splitOn ":" with
    | ["new"] =>
      let tv' := t.new ((List.range t.keys.length).map (fun (i : Nat) => (1000 + (i : Int))))
      (runTableHistory d t tv' toks).map ("ok" :: ·)
    | ["filled", x] =>
      match x.toInt? with
      | none => some ["bad-tok"]
      | some x => (runTableHistory d t (t.filled x) toks).map ("ok" :: ·)
    | ["closure"] =>
      (runTableHistory d t (t.fromClosure (fun k => 100 + 7 * declIndex d k)) toks).map ("ok" :: ·)
    | ["transform"] =>
      (runTableHistory d t (t.transform tv (fun k old => old * 3 + declIndex d k)) toks).map ("ok" :: ·)
    | ["set", k, x] =>
      match decodeStr k, x.toInt? with
      | some k, some x =>
        match t.set tv k x with
        | none => none
        | some tv' => (runTableHistory d t tv' toks).map ("ok" :: ·)
      | _, _ => some ["bad-tok"]
    | ["get", k] =>
      match decodeStr k with
      | none => some ["bad-tok"]
      | some k =>
        match t.index tv k with
        | none => none
        | some x => (runTableHistory d t tv toks).map (toString x :: ·)
    | ["dump"] =>
      (runTableHistory d t tv toks).map (String.intercalate "/" ("dump" :: tv.map toString) :: ·)
    | ["all", mask] =>
      let opt : TableVal (Option Int) := (tv.zip mask.toList).map (fun p => if p.2 = '1' then some p.1 else none)
      let r := match tableAll opt with
        | none => "none"
        | some l => String.intercalate "/" ("some" :: l.map toString)
      (runTableHistory d t tv toks).map (r :: ·)
    | ["allok", mask] =>
      let res : TableVal (Except Int Int) :=
        ((tv.zip mask.toList).zipIdx).map (fun p => if p.1.2 = '1' then .ok p.1.1 else .error (p.2 : Int))
      let r := match tableAllOk res with
        | .error e => "err/" ++ toString e
        | .ok l => String.intercalate "/" ("ok" :: l.map toString)
      (runTableHistory d t tv toks).map (r :: ·)
    | _ => some ["bad-tok"]

def showTableErr : TableErr → String
  | .nonUnit => "CE:nonUnit"
  | .noVariants => "CE:noVariants"

def runOp (d : EnumDef) (args : List String) : String :=
  match args with
  | ["parse", s] =>
    match decodeStr s with
    | none => "bad-op"
    | some b =>
      match parse d b with
      | .error e => showGenErr e
      | .ok out =>
        if d.customErr then showParseOut out ++ " calls=" ++ toString out.callLog.length
        else showParseOut out
  | ["accepters", s] =>
    -- how many candidate variants accept this input (the pointwise domain of C01)
    match decodeStr s with
    | none => "bad-op"
    | some b => "n=" ++ toString (d.candidates.filter (fun v => accepts d v b)).length
  | ["names", k, _alt, inner, keys] =>
    match findVariant d k, decodeStr inner with
    | some v, some inner =>
      String.intercalate " " ((keys.splitOn ",").map (fun key =>
        match deriveOfKey key with
        | none => key ++ "=?"
        | some dv =>
          match nameOut d dv v inner with
          | .error e => key ++ "=" ++ showNameErr e
          | .ok o => key ++ "=" ++ showShowOut o))
    | _, _ => "bad-op"
  | ["show", k, _alt, inner, spec] =>
    match findVariant d k, decodeStr inner, decodeSpec spec with
    | some v, some inner, some sp =>
      match displayOut d v (fun sp => pad sp inner) sp with
      | .error e => showNameErr e
      | .ok o => showShowOut o
    | _, _, _ => "bad-op"
  | ["fwd", k, _alt, _inner, _spec] =>
    match findVariant d k with
    | some v =>
      match (genNames d .display).map (fun arms => lookupArm arms v.ident) with
      | .error e => showNameErr e
      | .ok (some .forward) => "fwd-ok"
      | .ok _ => "not-forwarding"
    | none => "bad-op"
  | ["reparse", s] =>
    match decodeStr s with
    | none => "bad-op"
    | some b =>
      match parse d b with
      | .error e => showGenErr e
      | .ok (.ok k p) =>
        match d.variants.find? (fun v => v.ident == k) with
        | none => "bad-model"
        | some v =>
          let inner : Bytes := match p with | [.captured c] => c | _ => []
          match displayOut d v (fun sp => pad sp inner) {} with
          | .error e => showNameErr e
          | .ok o => "ok " ++ encodeStr k ++ " " ++ showShowOut o
      | .ok _ => "err"
  | ["variants"] =>
    let vs := variantNames d
    String.intercalate " " (("n=" ++ toString vs.length) :: vs.map encodeStr)
  | ["roundtrip", k, keys] =>
    match findVariant d k with
    | some v =>
      String.intercalate " " ((keys.splitOn ",").map (fun key =>
        if key.startsWith "ser" then
          match (key.drop 3).toString.toNat? with
          | some i =>
            match (serializations d.style v)[i]? with
            | some sp => key ++ "=" ++ showParseBack d (.ok (.text sp))
            | none => key ++ "=?"
          | none => key ++ "=?"
        else
          match deriveOfKey key with
          | none => key ++ "=?"
          | some dv => key ++ "=" ++ showParseBack d (nameOut d dv v [])))
    | none => "bad-op"
  | ["canonical", k] =>
    match findVariant d k with
    | some v => encodeStr (preferredName d.style d.pfx v)
    | none => "bad-op"
  | "iter" :: mode :: toks =>
    let m := if mode = "release" then Mode.release else Mode.debug
    match runIterHistory d m [iterInit] toks with
    | none => "PANIC"
    | some outs => String.intercalate " " outs
  | ["collect"] =>
    let N := (iterTable d).length
    let l := collectFuel N (N + 2) iterInit
    String.intercalate " " (("n=" ++ toString l.length) :: l.map (fun i => showItem d (some i)))
  | ["rev"] =>
    let N := (iterTable d).length
    let l := collectBackFuel .debug N (N + 2) iterInit
    String.intercalate " " (("n=" ++ toString l.length) :: l.map (fun i => showItem d (some i)))
  | ["count"] => "count=" ++ toString (enumCount d)
  | ["varray"] =>
    match variantArray d with
    | none => "CE:nonUnit"
    | some l => String.intercalate " " (("n=" ++ toString l.length) :: l.map encodeStr)
  | ["repr", x] =>
    match x.toInt? with
    | none => "bad-op"
    | some x =>
      match fromRepr d x with
      | none => "none"
      | some (k, p) => "some " ++ String.intercalate ":" (encodeStr k :: p.map showFieldInit)
  | ["reprall"] =>
    let t := reprType d
    let n := (t.max - t.min + 1).toNat
    let hits := (List.range n).filterMap (fun (i : Nat) =>
      let x : Int := t.min + (i : Int)
      match fromRepr d x with
      | none => none
      | some (k, p) => some (toString x ++ "=" ++ String.intercalate ":" (encodeStr k :: p.map showFieldInit)))
    String.intercalate " " (("tried=" ++ toString n) :: hits)
  | ["discrs"] =>
    let l := rustcDiscr d
    String.intercalate " " (("n=" ++ toString l.length) :: l.map toString)
  | ["constfn"] => if isConstFn d then "const=1" else "const=0"
  | ["disc", k, _alt, evalflag] =>
    match findVariant d k with
    | none => "bad-op"
    | some v =>
      let vis := if d.discVis = 0 then DiscVis.inherit else if d.discVis = 1 then DiscVis.pub else DiscVis.restricted
      let e := genDiscriminants d d.discName vis
      let target := (discOf d v.ident).getD []
      let idx := (e.variants.map (·.1)).idxOf target
      let val := (rustcDiscr e.asEnum)[idx]?
      "name=" ++ encodeStr e.name ++ " from=" ++ encodeStr target ++ " from_ref=" ++ encodeStr target ++
        " into=" ++ (if e.hasIntoDiscriminant then encodeStr target else "-") ++
        " val=" ++ (match val with | some x => toString x | none => "?") ++
        " eval=" ++ (if evalflag = "0" then "?" else
          match (rustcDiscr d)[(d.variants.map (·.ident)).idxOf v.ident]? with
          | some x => toString x
          | none => "?") ++ " pt=ok size_ok=true"
  | ["msg", k] =>
    match findVariant d k with
    | none => "bad-op"
    | some v =>
      "message=" ++ showMatchOut (getMessage d v.ident) ++ " detailed=" ++ showMatchOut (getDetailed d v.ident) ++
      " doc=" ++ showMatchOut (getDocumentation d v.ident) ++ " ser=" ++
      (match getSerializationsOf d v.ident with
       | .val (some l) => String.intercalate "," (l.map encodeStr)
       | _ => "?")
  | ["prop", k, key] =>
    match findVariant d k, decodeStr key with
    | some v, some key =>
      "str=" ++ (match getProp .str d v.ident key with | some (.str s) => encodeStr s | _ => "-") ++
      " int=" ++ (match getProp .int d v.ident key with | some (.int i) => toString i | _ => "-") ++
      " bool=" ++ (match getProp .bool d v.ident key with | some (.bool b) => (if b then "1" else "0") | _ => "-")
    | _, _ => "bad-op"
  | "table" :: toks =>
    match genTable d with
    | .error e => showTableErr e
    | .ok t =>
      if hasDupKey t.fields then "CE:dupField" else   -- rustc: duplicate struct field (E0124)
      match runTableHistory d t (t.filled 0) toks with
      | none => "PANIC"
      | some outs => String.intercalate " " outs
  | ["tablefields"] =>
    match genTable d with
    | .error e => showTableErr e
    | .ok t => if hasDupKey t.fields then "CE:dupField" else String.intercalate " " (t.fields.map encodeStr)
  | ["is", k] =>
    match findVariant d k with
    | none => "bad-op"
    | some v =>
      let e : EnumVal Nat := ⟨v.ident, []⟩
      let names := ((isMethods d).filter (fun m => isEval m e)).map (fun m => encodeStr m.1)
      "true=" ++ (if names.isEmpty then "-" else String.intercalate "," names)
  | ["absent"] =>
    -- methods that must not exist: is_* of disabled variants, try_as_* of disabled or non-tuple variants
    let isAbs := (d.variants.filter (·.disabled)).map (fun v => [105, 115, 95] ++ snakify v.ident)
    let taAbs := (d.variants.filter (fun v => v.disabled || (match v.fields with | .tuple _ => false | _ => true))).flatMap
      (fun v => let b := [116, 114, 121, 95, 97, 115, 95] ++ snakify v.ident
                [b, b ++ [95, 114, 101, 102], b ++ [95, 109, 117, 116]])
    -- a name that another (enabled) variant generates is of course present; every name is listed once
    let present := (isMethods d).map (·.1) ++ (tryAsMethods d).flatMap (fun m => [m.1, m.1 ++ [95, 114, 101, 102], m.1 ++ [95, 109, 117, 116]])
    let names := ((isAbs ++ taAbs).filter (fun n => !present.contains n)).eraseDups
    String.intercalate " " (names.map (fun n => encodeStr n ++ "=absent"))
  | ["ismethods"] => String.intercalate " " ((isMethods d).map (fun m => encodeStr m.1 ++ ":" ++ encodeStr m.2))
  | ["tryasmethods"] =>
    String.intercalate " " ((tryAsMethods d).map (fun m => encodeStr m.1 ++ ":" ++ encodeStr m.2.1 ++ ":" ++ toString m.2.2))
  | ["tryas", k, alt] =>
    match findVariant d k, alt.toNat? with
    | some v, some alt =>
      let e : EnumVal Nat := ⟨v.ident, List.replicate v.fields.arity alt⟩
      let showFields (tag : String) (l : List Nat) : String := String.intercalate "/" (tag :: l.map toString)
      String.intercalate " " ((tryAsMethods d).map (fun m =>
        let r := match tryAsEval m e with
          | none => "none"
          | some fs => showFields "some" fs
        let e2 := tryAsMutWrite m e (List.replicate m.2.2 2)
        let w := match tryAsEval m e with
          | none => "none"
          | some _ => showFields "wrote" e2.fields
        encodeStr m.1 ++ ":val=" ++ r ++ ":ref=" ++ r ++ ":mut=" ++ w))
    | _, _ => "bad-op"
  | ["nooverlap"] => if noOverlapB d then "1" else "0"
  | ["spellings", k] =>
    match decodeStr k with
    | none => "bad-op"
    | some k =>
      match d.variants.find? (fun v => v.ident == k) with
      | none => "bad-op"
      | some v => String.intercalate " " ((serializations d.style v).map encodeStr)
  | _ => "bad-op"

end Strum.Protocol
