import StrumModel.Protocol
import StrumModel.Overlap
/-
Dispatch of `op` lines to the model. One answer line per op.
-/
namespace Strum.Protocol
open Strum

def runOp (d : EnumDef) (args : List String) : String :=
  match args with
  | ["parse", s] =>
    match decodeStr s with
    | none => "bad-op"
    | some b =>
      match parse d b with
      | .error e => showGenErr e
      | .ok out =>
        if d.customErr then showParseOut out ++ " calls=" ++ toString out.callLog.length
        else showParseOut out
  | ["nooverlap"] => if noOverlapB d then "1" else "0"
  | ["spellings", k] =>
    match decodeStr k with
    | none => "bad-op"
    | some k =>
      match d.variants.find? (fun v => v.ident == k) with
      | none => "bad-op"
      | some v => String.intercalate " " ((serializations d.style v).map encodeStr)
  | _ => "bad-op"

end Strum.Protocol
