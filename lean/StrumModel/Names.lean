import StrumModel.EnumDef
/-
strum_macros/src/helpers/variant_props.rs:29-65
-/
namespace Strum

/-- `ident_as_str` -/
def identAsStr (cs : Option CaseStyle) (v : Variant) : Bytes := convertCase cs v.ident

/-- `get_preferred_name(case_style, prefix)` -/
def preferredName (cs : Option CaseStyle) (pfx : Option Bytes) (v : Variant) : Bytes :=
  let base :=
    match v.toStr with
    | some t => t
    | none =>
      match maxByKeyLast List.length v.serialize with
      | some s => s
      | none => identAsStr cs v
  match pfx with
  | some p => p ++ base
  | none => base

/-- `get_serializations(case_style)` -/
def serializations (cs : Option CaseStyle) (v : Variant) : List Bytes :=
  let attrs := v.serialize ++ v.toStr.toList
  if attrs.isEmpty then [identAsStr cs v] else attrs

end Strum
