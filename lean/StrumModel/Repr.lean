import StrumModel.Iter
/-
`#[derive(FromRepr)]` (strum_macros/src/macros/from_repr.rs) and `#[derive(EnumDiscriminants)]`
(enum_discriminants.rs).
-/
namespace Strum

def ReprTy.min : ReprTy → Int
  | .u8 | .u16 | .u32 | .u64 | .usize => 0
  | .i8 => -128 | .i16 => -32768 | .i32 => -2147483648
  | .i64 | .isize => -9223372036854775808

def ReprTy.max : ReprTy → Int
  | .u8 => 255 | .u16 => 65535 | .u32 => 4294967295
  | .u64 | .usize => 18446744073709551615
  | .i8 => 127 | .i16 => 32767 | .i32 => 2147483647
  | .i64 | .isize => 9223372036854775807

def ReprTy.inRange (t : ReprTy) (x : Int) : Bool := t.min ≤ x && x ≤ t.max

/-- `StrumTypeProperties::enum_repr` (type_props.rs:151-165 after the F9 repair): the hints of EVERY `#[repr(..)]`
    attribute, joined with commas in source order; `None` when the item has no such attribute -/
def enumRepr (d : EnumDef) : Option (List ReprHint) :=
  if d.reprAttrs.isEmpty then none else some d.reprAttrs.flatten

/-- the pinned revision recorded only the LAST `#[repr(..)]` attribute -/
def enumReprPinned (d : EnumDef) : Option (List ReprHint) := d.reprAttrs.getLast?

/-- from_repr.rs:13-37 after the F8 repair: walk the hints, an integer type sets the discriminant type -/
def scanIntHint : List ReprHint → ReprTy → ReprTy
  | [], acc => acc
  | .int t :: hs, _ => scanIntHint hs t
  | _ :: hs, acc => scanIntHint hs acc

/-- the parameter type of `from_repr` in the generated code -/
def reprType (d : EnumDef) : ReprTy :=
  match enumRepr d with
  | none => .usize
  | some hs => scanIntHint hs .usize

/-- the pinned revision parsed the whole (last) hint list as ONE type: only a list that is exactly one integer type
    was recognised; `C, u8`, `u8, align(4)`, .. fell back to `usize` -/
def reprTypePinned (d : EnumDef) : ReprTy :=
  match enumReprPinned d with
  | some [.int t] => t
  | _ => .usize

/-- **The compiler's rule**, over ALL declared variants: explicit value, else previous + 1, first 0. -/
def discrFrom : Option Int → List Variant → List Int
  | _, [] => []
  | prev, v :: vs =>
    let x := match v.discr with
      | some e => e
      | none => match prev with
        | some p => p + 1
        | none => 0
    x :: discrFrom (some x) vs

def rustcDiscr (d : EnumDef) : List Int := discrFrom none d.variants

/-- the `const V_DISCRIMINANT: R = ..;` items, one per declared variant, each defined from the previous
    one (from_repr.rs:75-89 after the F2 repair: constants are emitted for disabled variants too) -/
def reprConstsFrom : Option Int → List Variant → List (Variant × Int)
  | _, [] => []
  | prev, v :: vs =>
    let k := match v.discr with
      | some e => e
      | none => match prev with
        | some p => p + 1
        | none => 0
    (v, k) :: reprConstsFrom (some k) vs

/-- the pinned (pre-repair) generator: a disabled variant is skipped *before* its constant is defined -/
def reprConstsPinned : Option Int → List Variant → List (Variant × Int)
  | _, [] => []
  | prev, v :: vs =>
    if v.disabled then reprConstsPinned prev vs
    else
      let k := match v.discr with
        | some e => e
        | none => match prev with
          | some p => p + 1
          | none => 0
      (v, k) :: reprConstsPinned (some k) vs

/-- `v if v == K_i => Some(E::V_i(defaults))` for enabled variants, in order -/
def reprArms (d : EnumDef) : List (Variant × Int) :=
  (reprConstsFrom none d.variants).filter (fun p => !p.1.disabled)

/-- `E::from_repr(x)`: first arm whose guard `x == K` holds -/
def fromRepr (d : EnumDef) (x : Int) : Option (Bytes × List FieldInit) :=
  ((reprArms d).find? (fun p => p.2 == x)).map (fun p => (p.1.ident, List.replicate p.1.fields.arity .dflt))

def fromReprPinned (d : EnumDef) (x : Int) : Option (Bytes × List FieldInit) :=
  ((reprConstsPinned none d.variants).find? (fun p => p.2 == x)).map
    (fun p => (p.1.ident, List.replicate p.1.fields.arity .dflt))

/-- `from_repr` is a `const fn` iff no enabled variant carries data -/
def isConstFn (d : EnumDef) : Bool := d.enabled.all (fun v => v.fields == .unit)

/-! ### EnumDiscriminants -/

inductive DiscVis | inherit | pub | restricted
  deriving DecidableEq, Repr

structure DiscEnum where
  name : Bytes
  /-- (identifier, explicit discriminant) for every declared variant, in order -/
  variants : List (Bytes × Option Int)
  /-- the hints of the single `#[repr(..)]` attribute emitted on the generated enum (`None`: no attribute) -/
  repr : Option (List ReprHint)
  hasIntoDiscriminant : Bool
  deriving Repr

/-- enum_discriminants.rs:52-188 -/
def genDiscriminants (d : EnumDef) (nameOverride : Option Bytes) (vis : DiscVis) : DiscEnum :=
  { name := nameOverride.getD (d.name ++ [68, 105, 115, 99, 114, 105, 109, 105, 110, 97, 110, 116, 115]),
    variants := d.variants.map (fun v => (v.ident, v.discr)),
    repr := enumRepr d,
    hasIntoDiscriminant := vis != .restricted }

/-- the discriminant enum seen as an enum definition (all variants field-less) -/
def DiscEnum.asEnum (e : DiscEnum) : EnumDef :=
  { name := e.name, reprAttrs := (match e.repr with | none => [] | some hs => [hs]), variants := e.variants.map (fun p => { ident := p.1, discr := p.2 }) }

/-- `From<E>` / `From<&E>` match: one arm `E::V{..} => Disc::V` per declared variant (shared body) -/
def discFromArms (d : EnumDef) : List (Bytes × Bytes) := d.variants.map (fun v => (v.ident, v.ident))

def discOf (d : EnumDef) (k : Bytes) : Option Bytes :=
  ((discFromArms d).find? (fun p => p.1 == k)).map (·.2)

end Strum
