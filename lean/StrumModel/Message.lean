import StrumModel.Names
/-
`#[derive(EnumMessage)]` (strum_macros/src/macros/enum_messages.rs) and `#[derive(EnumProperty)]`
(enum_properties.rs).
-/
namespace Strum

/-- "Strip a single leading space from each documentation line" -/
def stripOneSpace : Bytes → Bytes
  | 32 :: t => t
  | l => l

/-- one line as is; several lines each terminated by `\n` (`concat!(concat!(line, "\n"), ..)`) -/
def docText : List Bytes → Bytes
  | [x] => x
  | ls => (ls.map (fun l => l ++ [10])).flatten

structure MsgImpl where
  /-- `&E::V{..} => Some(msg)` arms, in emission order -/
  msgArms : List (Bytes × Bytes)
  detArms : List (Bytes × Bytes)
  docArms : List (Bytes × Bytes)
  serArms : List (Bytes × List Bytes)
  /-- `_ => None` appended (the macro decides by counting arms) -/
  msgWild : Bool
  detWild : Bool
  docWild : Bool
  deriving Repr

def msgArmOf (v : Variant) : List (Bytes × Bytes) :=
  if v.disabled then [] else
    match v.message with
    | some m => [(v.ident, m)]
    | none => []

def detArmOf (v : Variant) : List (Bytes × Bytes) :=
  if v.disabled then [] else
    (match v.message, v.detailed with
     | some m, none => [(v.ident, m)]
     | _, _ => []) ++
    (match v.detailed with
     | some dm => [(v.ident, dm)]
     | none => [])

def docArmOf (v : Variant) : List (Bytes × Bytes) :=
  if v.disabled then [] else
    if v.docs.isEmpty then [] else [(v.ident, docText (v.docs.map stripOneSpace))]

def genMessage (d : EnumDef) : MsgImpl :=
  let m := d.variants.flatMap msgArmOf
  let dt := d.variants.flatMap detArmOf
  let dc := d.variants.flatMap docArmOf
  { msgArms := m, detArms := dt, docArms := dc,
    serArms := d.variants.map (fun v => (v.ident, serializations d.style v)),
    msgWild := decide (m.length < d.variants.length),
    detWild := decide (dt.length < d.variants.length),
    docWild := decide (dc.length < d.variants.length) }

inductive MatchOut (α : Type)
  | val (a : Option α)
  /-- no arm and no wildcard: rustc rejects the `match` as non-exhaustive -/
  | nonExhaustive
  deriving Repr

/-- a `match self` over `Some(..)` arms with an optional trailing `_ => None` -/
def evalArms {α : Type} (arms : List (Bytes × α)) (wild : Bool) (k : Bytes) : MatchOut α :=
  match arms.find? (fun p => p.1 == k) with
  | some p => .val (some p.2)
  | none => if wild then .val none else .nonExhaustive

def getMessage (d : EnumDef) (k : Bytes) : MatchOut Bytes := evalArms (genMessage d).msgArms (genMessage d).msgWild k
def getDetailed (d : EnumDef) (k : Bytes) : MatchOut Bytes := evalArms (genMessage d).detArms (genMessage d).detWild k
def getDocumentation (d : EnumDef) (k : Bytes) : MatchOut Bytes := evalArms (genMessage d).docArms (genMessage d).docWild k
def getSerializationsOf (d : EnumDef) (k : Bytes) : MatchOut (List Bytes) := evalArms (genMessage d).serArms false k

/-! ### EnumProperty -/

inductive PropTy | str | int | bool
  deriving DecidableEq, Repr

def PropVal.ty : PropVal → PropTy
  | .str _ => .str | .int _ => .int | .bool _ => .bool

/-- the inner `match prop { "key" => Some(value), .., _ => None }` of one variant and one type -/
def propInner (t : PropTy) (v : Variant) : List (Bytes × PropVal) := v.props.filter (fun p => p.2.ty == t)

/-- outer arms: one per enabled variant; `_ => None` when some variant is disabled -/
def getProp (t : PropTy) (d : EnumDef) (k : Bytes) (key : Bytes) : Option PropVal :=
  match d.enabled.find? (fun v => v.ident == k) with
  | none => none
  | some v => ((propInner t v).find? (fun p => p.1 == key)).map (·.2)

end Strum
