import StrumModel.Collect
/-
The enum AS WRITTEN: a header (`RawEnum`) plus its variants (`RawVariant`) in declaration order, and the pass every derive
starts with: `get_type_properties` on the enum, then `get_variant_properties` on each variant in turn (the first failure is
the compile error).  `collectAll` is what the driver does with a `rawenum` line followed by `rawvariant` lines.
-/
namespace Strum

structure RawSource where
  hdr : RawEnum
  variants : List RawVariant := []
  deriving Repr

inductive SourceErr
  | enum (e : ECollectErr)
  /-- the first variant (in declaration order) whose attributes do not collect, with the repeated kind -/
  | variant (i : Nat) (k : VKind)
  deriving DecidableEq, Repr

/-- `for variant in variants { variant.get_variant_properties()? }`: declaration order, first error wins -/
def collectVariants : Nat → List RawVariant → Except SourceErr (List Variant)
  | _, [] => .ok []
  | i, r :: rs =>
    match collectVariant r with
    | .error k => .error (.variant i k)
    | .ok v =>
      match collectVariants (i + 1) rs with
      | .error e => .error e
      | .ok vs => .ok (v :: vs)

def collectAll (s : RawSource) : Except SourceErr EnumDef :=
  match collectEnum s.hdr [] with
  | .error e => .error (.enum e)
  | .ok d =>
    match collectVariants 0 s.variants with
    | .error e => .error e
    | .ok vs => .ok { d with variants := vs }

/-- what the driver does with one `rawvariant` line: collect the variant and append it to the enum read so far -/
def addVariantLine (d : EnumDef) (r : RawVariant) : Option EnumDef :=
  match collectVariant r with
  | .ok v => some { d with variants := d.variants ++ [v] }
  | .error _ => none

/-- the driver's line-by-line reading of a source: the `rawenum` line, then each `rawvariant` line in turn -/
def readLines (s : RawSource) : Option EnumDef :=
  s.variants.foldl (fun acc r => acc.bind (addVariantLine · r)) (collectEnum s.hdr []).toOption

/-! ### the declarative reading: what the attributes of a variant / an enum MEAN, with no loop and no state -/

/-- the value of the last item of a kind (a second one of a single-use kind is an error anyway) -/
def lastOf {α β : Type} (g : α → Option β) (its : List α) : Option β := (its.filterMap g).getLast?

def VItem.toStr? : VItem → Option Bytes | .toStr s => some s | _ => none
def VItem.ci? : VItem → Option Bool | .ci b => some b | _ => none
def VItem.message? : VItem → Option Bytes | .message s => some s | _ => none
def VItem.detailed? : VItem → Option Bytes | .detailed s => some s | _ => none
def VItem.defaultWith? : VItem → Option Bytes | .defaultWith s => some s | _ => none

/-- the variant a derive works on, read off the source: identifier, fields, discriminant and doc lines as written; ALL
    `serialize` literals and ALL `props` entries in source order; each single-use value where it is written; each flag
    iff it is written anywhere -/
def RawVariant.declared (r : RawVariant) : Variant :=
  let its := r.attrs.flatten
  { ident := r.ident, fields := r.fields, discr := r.discr, docs := r.docs,
    serialize := serializesOf its, props := propsOf its,
    toStr := lastOf VItem.toStr? its, ci := lastOf VItem.ci? its,
    message := lastOf VItem.message? its, detailed := lastOf VItem.detailed? its,
    defaultWith := lastOf VItem.defaultWith? its,
    disabled := its.any (· == .disabled), isDefault := its.any (· == .default), transparent := its.any (· == .transparent) }

def EItem.style? : EItem → Option String | .serializeAll s => some s | _ => none
def EItem.pfx? : EItem → Option Bytes | .pfx p => some p | _ => none

/-- the enum properties read off the header -/
def RawEnum.declared (r : RawEnum) (vs : List Variant) : EnumDef :=
  let its := r.attrs.flatten
  { name := r.name, reprAttrs := r.reprAttrs, discName := r.discName, discVis := r.discVis, variants := vs,
    style := (lastOf EItem.style? its).bind parseStyle, pfx := lastOf EItem.pfx? its,
    ci := its.any (· == .ci), usePhf := its.any (· == .usePhf), constIntoStr := its.any (· == .constIntoStr),
    customErr := its.any (· == .parseErrTy) && its.any (· == .parseErrFn) }

/-- is the variant written with a `disabled` item anywhere -/
def RawVariant.isDisabled (r : RawVariant) : Bool := r.attrs.flatten.any (· == .disabled)

/-- the enum a derive works on, read off the source -/
def RawSource.declared (s : RawSource) : EnumDef := s.hdr.declared (s.variants.map RawVariant.declared)

/-- the source is well-formed for attribute collection: known style strings, no enum-level item twice, no single-use
    variant-level item twice on one variant -/
def RawSource.collectable (s : RawSource) : Bool :=
  s.hdr.attrs.flatten.all styleOk && decide (s.hdr.attrs.flatten.map EItem.kind).Nodup &&
  s.variants.all (fun r => decide (r.attrs.flatten.filterMap VItem.kind?).Nodup)

end Strum
