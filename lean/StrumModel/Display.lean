import StrumModel.Names
import StrumModel.Fmt
/-
String-producing derives: Display (strings/display.rs), AsRefStr / AsStaticStr / IntoStaticStr
(strings/as_ref_str.rs), ToString (strings/to_string.rs), VariantNames (enum_variant_names.rs).
-/
namespace Strum

inductive NameErr
  | transparentShape      -- `transparent` on a variant without exactly one field
  | defaultShape          -- `default` (without to_string) on a variant without exactly one field
  | capture (e : CaptureErr)
  | badIdent              -- placeholder of a named variant that is not an identifier
  | emptyPlaceholder      -- `{}` on a tuple variant
  | unitPlaceholder       -- placeholders on a unit variant
  deriving DecidableEq, Repr

/-- one `match` arm of a generated string-producing impl -/
inductive NameArm
  /-- the inner field's own impl is called with the same formatter / returns its own value -/
  | forward
  /-- a fixed string literal (`Display::fmt("lit", f)`, or the literal itself for the `&str` derives) -/
  | fixed (name : Bytes)
  /-- `Display::fmt(&format_args!(lit, args..), f)`; `args` = field names / positions bound -/
  | interp (lit : Bytes) (args : List Bytes)
  deriving DecidableEq, Repr

def isIdentStart (b : Nat) : Bool := isLetter b || b = 95
def isIdentCont (b : Nat) : Bool := isAlnum b || b = 95

/-- ASCII approximation of "parses as a `syn::Ident`" (keywords not modelled) -/
def isIdentLike : Bytes → Bool
  | [] => false
  | [95] => false
  | c :: cs => isIdentStart c && cs.all isIdentCont

def fieldNames : Fields → List Bytes
  | .named fs => fs.map (·.1)
  | _ => []

/-- decimal digits of a natural number, as ASCII bytes -/
def natDigits (n : Nat) : Bytes :=
  if h : n < 10 then [48 + n] else natDigits (n / 10) ++ [48 + n % 10]
termination_by n
decreasing_by omega

def positional (n : Nat) : List Bytes := (List.range n).map natDigits

/-- the Display arm of one enabled variant (display.rs:22-156) -/
def displayArm (d : EnumDef) (v : Variant) : Except NameErr NameArm :=
  if v.transparent then
    if v.fields.arity = 1 then .ok .forward else .error .transparentShape
  else if v.toStr.isNone && v.isDefault then
    if v.fields.arity = 1 then .ok .forward else .error .defaultShape
  else
    let name := preferredName d.style d.pfx v
    match captureFormatStrings name with
    | .error e => .error (.capture e)
    | .ok used =>
      match v.fields with
      | .named fs =>
        -- each captured name is re-parsed with `syn::parse_str::<Ident>`, which skips leading whitespace
        let idents := used.map (fun u => u.dropWhile isAsciiWs)
        if idents.all isIdentLike then
          if used.isEmpty then .ok (.fixed name)
          else .ok (.interp name ((fs.map (·.1)).filter (fun f => idents.contains f)))
        else .error .badIdent
      | .tuple n =>
        if used.any (·.isEmpty) then .error .emptyPlaceholder
        else if used.isEmpty then .ok (.fixed name)
        else .ok (.interp name (positional n))
      | .unit =>
        if used.isEmpty then .ok (.fixed name) else .error .unitPlaceholder

/-- AsRefStr / AsStaticStr / IntoStaticStr arm (as_ref_str.rs:9-65) -/
def asRefArm (d : EnumDef) (v : Variant) : Except NameErr NameArm :=
  if v.transparent then
    if v.fields.arity = 1 then .ok .forward else .error .transparentShape
  else .ok (.fixed (preferredName d.style d.pfx v))

/-- deprecated ToString arm (to_string.rs:19-50) -/
def toStringArm (d : EnumDef) (v : Variant) : Except NameErr NameArm :=
  if v.toStr.isNone && v.isDefault then
    match v.fields with
    | .tuple 1 => .ok .forward
    | _ => .error .defaultShape
  else .ok (.fixed (preferredName d.style d.pfx v))

inductive NameDerive | display | asRef | asStatic | intoStatic | intoStaticRef | intoStr | toStringDeprecated
  deriving DecidableEq, Repr

def armOf (d : EnumDef) (dv : NameDerive) (v : Variant) : Except NameErr NameArm :=
  match dv with
  | .display => displayArm d v
  | .toStringDeprecated => toStringArm d v
  | _ => asRefArm d v

/-- `collect::<Result<Vec<_>, _>>()` / early `?` return: first error wins -/
def mapExcept {α β ε : Type} (f : α → Except ε β) : List α → Except ε (List β)
  | [] => .ok []
  | a :: as =>
    match f a with
    | .error e => .error e
    | .ok b =>
      match mapExcept f as with
      | .error e => .error e
      | .ok bs => .ok (b :: bs)

/-- the generator fails when any enabled variant's arm fails -/
def genNames (d : EnumDef) (dv : NameDerive) : Except NameErr (List (Bytes × NameArm)) :=
  mapExcept (fun v => (armOf d dv v).map (fun a => (v.ident, a))) d.enabled

inductive ShowOut
  | text (b : Bytes)
  /-- rendered by `format_args!` with the listed arguments; the rendering itself is Rust's -/
  | interp (lit : Bytes) (args : List Bytes)
  /-- `panic!("... called on disabled variant")` -/
  | panic
  deriving DecidableEq, Repr

/-- what the generated impl returns for a value of variant `v` whose single inner field (if it is
    forwarded to) renders as `inner spec` -/
def showWith (arm : Option NameArm) (inner : FmtSpec → Bytes) (padded : Bool) (sp : FmtSpec) : ShowOut :=
  match arm with
  | none => .panic
  | some .forward => .text (inner sp)
  | some (.fixed n) => .text (if padded then pad sp n else n)
  | some (.interp l a) => .interp l a

def lookupArm (arms : List (Bytes × NameArm)) (k : Bytes) : Option NameArm :=
  (arms.find? (fun p => p.1 == k)).map (·.2)

/-- `format!(spec, v)` for the Display derive -/
def displayOut (d : EnumDef) (v : Variant) (inner : FmtSpec → Bytes) (sp : FmtSpec) : Except NameErr ShowOut :=
  (genNames d .display).map (fun arms => showWith (lookupArm arms v.ident) inner true sp)

/-- the `&str` returned by AsRefStr / AsStaticStr / IntoStaticStr / into_str (`inner` = the inner field's own `&str`) -/
def strOut (d : EnumDef) (dv : NameDerive) (v : Variant) (inner : Bytes) : Except NameErr ShowOut :=
  (genNames d dv).map (fun arms => showWith (lookupArm arms v.ident) (fun _ => inner) false {})

/-- `VariantNames::VARIANTS` (enum_variant_names.rs:21-34): every declared variant -/
def variantNames (d : EnumDef) : List Bytes := d.variants.map (preferredName d.style d.pfx)

end Strum
