import StrumModel.FromStr
/-
`#[derive(EnumIter)]` (strum_macros/src/macros/enum_iter.rs), `EnumCount` (enum_count.rs),
`VariantArray` (enum_variant_array.rs).

`usize` is `Nat` with the explicit word size `W = 2^64`; every `+` the generated code performs goes
through `addU`, which panics in debug builds and wraps in release builds when the result leaves `[0, W)`.
-/
namespace Strum

def W : Nat := 2 ^ 64

inductive Mode | debug | release
  deriving DecidableEq, Repr

/-- `a + b` on `usize` -/
def addU (m : Mode) (a b : Nat) : Option Nat :=
  if a + b < W then some (a + b) else
    match m with
    | .debug => none
    | .release => some ((a + b) % W)

/-- `a - b` on `usize` -/
def subU (m : Mode) (a b : Nat) : Option Nat :=
  if b ≤ a then some (a - b) else
    match m with
    | .debug => none
    | .release => some ((a + W - b) % W)

/-- `a.saturating_add(b)` -/
def satAdd (a b : Nat) : Nat := if a + b < W then a + b else W - 1

/-- the dense `idx => Some(E::V(defaults..))` table: enabled variants in declaration order (enum_iter.rs:36-65) -/
def iterTable (d : EnumDef) : List (Bytes × List FieldInit) :=
  d.enabled.map (fun v => (v.ident, List.replicate v.fields.arity .dflt))

/-- `EnumCount::COUNT` (enum_count.rs:9-18) -/
def enumCount (d : EnumDef) : Nat :=
  d.variants.foldl (fun acc v => if !v.disabled then acc + 1 else acc) 0

/-- `VariantArray::VARIANTS` (enum_variant_array.rs): every declared variant, which must be a unit variant -/
def variantArray (d : EnumDef) : Option (List Bytes) :=
  if d.variants.all (fun v => v.fields == .unit) then some (d.variants.map (·.ident)) else none

structure IterState where
  idx : Nat
  back : Nat
  deriving DecidableEq, Repr

def iterInit : IterState := ⟨0, 0⟩

/-- `get(idx)`: `Some` of the `idx`-th enabled variant -/
def getIdx (N : Nat) (i : Nat) : Option Nat := if i < N then some i else none

/-- `Iterator::nth` as generated after the F1 repair (saturating arithmetic); cannot panic -/
def nth (N : Nat) (s : IterState) (n : Nat) : IterState × Option Nat :=
  let idx := satAdd (satAdd s.idx n) 1
  if N < satAdd idx s.back then ({ s with idx := N }, none)
  else ({ s with idx := idx }, getIdx N (idx - 1))

/-- the pinned (pre-repair) arithmetic `self.idx + n + 1`, kept to document the regression -/
def nthPinned (m : Mode) (N : Nat) (s : IterState) (n : Nat) : Option (IterState × Option Nat) :=
  match addU m s.idx n with
  | none => none
  | some a =>
    match addU m a 1 with
    | none => none
    | some idx =>
      match addU m idx s.back with
      | none => none
      | some t =>
        if N < t then some ({ s with idx := N }, none)
        else
          match subU m idx 1 with
          | none => none
          | some i => some ({ s with idx := idx }, getIdx N i)

def next (N : Nat) (s : IterState) : IterState × Option Nat := nth N s 0

/-- `DoubleEndedIterator::next_back` (plain `+`, so it goes through `addU`) -/
def nextBack (m : Mode) (N : Nat) (s : IterState) : Option (IterState × Option Nat) :=
  match addU m s.back 1 with
  | none => none
  | some b =>
    match addU m s.idx b with
    | none => none
    | some t =>
      if N < t then some ({ s with back := N }, none)
      else
        match subU m N b with
        | none => none
        | some i => some ({ s with back := b }, getIdx N i)

/-- `size_hint().0` = `len()` -/
def sizeHint (m : Mode) (N : Nat) (s : IterState) : Option Nat :=
  match addU m s.idx s.back with
  | none => none
  | some t =>
    if N ≤ t then some 0
    else
      match subU m N s.idx with
      | none => none
      | some a => subU m a s.back

/-- core's default `nth_back`: `n` times `next_back` with early exit, then `next_back` -/
def nthBack (m : Mode) (N : Nat) : Nat → IterState → Option (IterState × Option Nat)
  | 0, s => nextBack m N s
  | n + 1, s =>
    match nextBack m N s with
    | none => none
    | some (s', none) => some (s', none)
    | some (s', some _) => nthBack m N n s'

inductive IterOp
  | next (slot : Nat) | nextBack (slot : Nat) | nth (slot : Nat) (n : Nat) | nthBack (slot : Nat) (n : Nat)
  | len (slot : Nat) | clone (slot : Nat)
  deriving DecidableEq, Repr

inductive IterOut
  | item (i : Option Nat) | len (n : Nat) | cloned
  deriving DecidableEq, Repr

def setSlot (slots : List IterState) (i : Nat) (s : IterState) : List IterState := slots.set i s

/-- one operation on a family of iterators (slot 0 is `E::iter()`, clones are appended); `none` = panic -/
def iterStep (m : Mode) (N : Nat) (slots : List IterState) (op : IterOp) : Option (List IterState × IterOut) :=
  match op with
  | .next i =>
    match slots[i]? with
    | none => some (slots, .item none)
    | some s => let r := next N s; some (setSlot slots i r.1, .item r.2)
  | .nth i n =>
    match slots[i]? with
    | none => some (slots, .item none)
    | some s => let r := nth N s n; some (setSlot slots i r.1, .item r.2)
  | .nextBack i =>
    match slots[i]? with
    | none => some (slots, .item none)
    | some s => (nextBack m N s).map (fun r => (setSlot slots i r.1, .item r.2))
  | .nthBack i n =>
    match slots[i]? with
    | none => some (slots, .item none)
    | some s => (nthBack m N n s).map (fun r => (setSlot slots i r.1, .item r.2))
  | .len i =>
    match slots[i]? with
    | none => some (slots, .len 0)
    | some s => (sizeHint m N s).map (fun n => (slots, .len n))
  | .clone i =>
    match slots[i]? with
    | none => some (slots, .cloned)
    | some s => some (slots ++ [s], .cloned)

def iterRun (m : Mode) (N : Nat) : List IterState → List IterOp → Option (List IterOut)
  | _, [] => some []
  | slots, op :: ops =>
    match iterStep m N slots op with
    | none => none
    | some (slots', o) => (iterRun m N slots' ops).map (o :: ·)

/-- `iter().collect()` by repeated `next` with fuel (the iterator is fused, `N + 1` steps always suffice) -/
def collectFuel (N : Nat) : Nat → IterState → List Nat
  | 0, _ => []
  | f + 1, s =>
    match next N s with
    | (_, none) => []
    | (s', some i) => i :: collectFuel N f s'

def collectBackFuel (m : Mode) (N : Nat) : Nat → IterState → List Nat
  | 0, _ => []
  | f + 1, s =>
    match nextBack m N s with
    | none => []
    | some (_, none) => []
    | some (s', some i) => i :: collectBackFuel m N f s'

end Strum
