import StrumModel.Bytes
/-
`core::fmt::Formatter::pad` (what `<str as Display>::fmt` does with the caller's format spec) and the
macro's placeholder scanner `capture_format_strings` (strum_macros/src/macros/strings/display.rs:187-219).
-/
namespace Strum

inductive Align | left | center | right
  deriving DecidableEq, Repr

structure FmtSpec where
  /-- UTF-8 bytes of the fill character -/
  fill : Bytes := [32]
  align : Option Align := none
  width : Option Nat := none
  prec : Option Nat := none
  /-- the `0` flag: ignored by `pad` -/
  zero : Bool := false
  deriving DecidableEq, Repr

def repeatBytes : Nat → Bytes → Bytes
  | 0, _ => []
  | n + 1, b => b ++ repeatBytes n b

/-- `Formatter::pad(s)`: truncate to `precision` chars, then fill up to `width` chars by alignment
    (default left; centre puts the smaller half on the left). -/
def truncTo (p : Option Nat) (s : Bytes) : Bytes :=
  match p with
  | some p => takeChars p s
  | none => s

def pad (sp : FmtSpec) (s : Bytes) : Bytes :=
  let s := truncTo sp.prec s
  match sp.width with
  | none => s
  | some w =>
    let n := charCount s
    if w ≤ n then s
    else
      let k := w - n
      match sp.align with
      | none | some .left => s ++ repeatBytes k sp.fill
      | some .right => repeatBytes k sp.fill ++ s
      | some .center => repeatBytes (k / 2) sp.fill ++ s ++ repeatBytes ((k + 1) / 2) sp.fill

/-- `str::replace(pat, "")` for a two-byte pattern `[a, b]`: leftmost, non-overlapping -/
def removePair (a b : Nat) : Bytes → Bytes
  | x :: y :: rest => if x = a ∧ y = b then removePair a b rest else x :: removePair a b (y :: rest)
  | l => l

def isAsciiWs (b : Nat) : Bool := b = 32 || (9 ≤ b && b ≤ 13)

def trimEnd (s : Bytes) : Bytes := (s.reverse.dropWhile isAsciiWs).reverse

/-- text before the first `:` with trailing whitespace trimmed -/
def argName (inside : Bytes) : Bytes := trimEnd (inside.takeWhile (· ≠ 58))

inductive CaptureErr | openInsideOpen | closeWithoutOpen
  deriving DecidableEq, Repr

/-- the scan loop: `cur = some acc` while inside a bracket (`acc` = bytes since the `{`) -/
def captureGo : Option Bytes → Bytes → Except CaptureErr (List Bytes)
  | _, [] => .ok []
  | cur, c :: cs =>
    if c = 123 then
      match cur with
      | some _ => .error .openInsideOpen
      | none => captureGo (some []) cs
    else if c = 125 then
      match cur with
      | none => .error .closeWithoutOpen
      | some acc => (captureGo none cs).map (argName acc :: ·)
    else
      match cur with
      | some acc => captureGo (some (acc ++ [c])) cs
      | none => captureGo none cs

/-- `capture_format_strings`: remove `{{` then `}}`, then collect the argument names -/
def captureFormatStrings (lit : Bytes) : Except CaptureErr (List Bytes) :=
  captureGo none (removePair 125 125 (removePair 123 123 lit))

end Strum
