import StrumModel.Iter
/-
`#[derive(EnumTable)]` (strum_macros/src/macros/enum_table.rs), `#[derive(EnumIs)]` (enum_is.rs),
`#[derive(EnumTryAs)]` (enum_try_as.rs).
-/
namespace Strum

inductive TableErr | nonUnit | noVariants
  deriving DecidableEq, Repr

/-- the generated struct: one field `_<snake name>` per enabled variant, in declaration order -/
structure TableImpl where
  /-- identifiers of the enabled variants (the keys with a slot), in field order -/
  keys : List Bytes
  /-- struct field names -/
  fields : List Bytes
  /-- identifiers of disabled variants: indexing with them panics -/
  disabledKeys : List Bytes
  deriving Repr

def tableFieldName (v : Variant) : Bytes := 95 :: snakify v.ident

/-- enum_table.rs:50-95: disabled variants are set aside first; an enabled non-unit variant is an error;
    no enabled variant at all is an error -/
def genTable (d : EnumDef) : Except TableErr TableImpl :=
  if d.enabled.any (fun v => v.fields != .unit) then .error .nonUnit
  else if d.enabled.isEmpty then .error .noVariants
  else .ok { keys := d.enabled.map (·.ident), fields := d.enabled.map tableFieldName,
             disabledKeys := (d.variants.filter (·.disabled)).map (·.ident) }

/-- position of a key among the enabled variants -/
def keyIndex : List Bytes → Bytes → Option Nat
  | [], _ => none
  | k :: ks, x => if k == x then some 0 else (keyIndex ks x).map (· + 1)

/-- a table value: one slot per key, positionally -/
abbrev TableVal (α : Type) := List α

/-- `Index` / `IndexMut`: `E::V => &self._v`; a disabled variant panics (`none`) -/
def TableImpl.index {α : Type} (t : TableImpl) (tv : TableVal α) (k : Bytes) : Option α :=
  match keyIndex t.keys k with
  | some i => tv[i]?
  | none => none

/-- `table[k] = x` -/
def TableImpl.set {α : Type} (t : TableImpl) (tv : TableVal α) (k : Bytes) (x : α) : Option (TableVal α) :=
  match keyIndex t.keys k with
  | some i => if i < tv.length then some (tv.set i x) else none
  | none => none

/-- `new(a, b, ..)`: slots in declaration order -/
def TableImpl.new {α : Type} (_t : TableImpl) (xs : List α) : TableVal α := xs
/-- `filled(x)` -/
def TableImpl.filled {α : Type} (t : TableImpl) (x : α) : TableVal α := t.keys.map (fun _ => x)
/-- `from_closure(f)` -/
def TableImpl.fromClosure {α : Type} (t : TableImpl) (f : Bytes → α) : TableVal α := t.keys.map f
/-- `transform(f)`: `f(k, &old[k])` -/
def TableImpl.transform {α β : Type} (t : TableImpl) (tv : TableVal α) (f : Bytes → α → β) : TableVal β :=
  (t.keys.zip tv).map (fun p => f p.1 p.2)
/-- `all()`: `Some` iff every slot is `Some` -/
def tableAll {α : Type} : TableVal (Option α) → Option (TableVal α)
  | [] => some []
  | none :: _ => none
  | some x :: rest => (tableAll rest).map (x :: ·)
/-- `all_ok()`: field by field with `?`: the first `Err` in declaration order -/
def tableAllOk {α ε : Type} : TableVal (Except ε α) → Except ε (TableVal α)
  | [] => .ok []
  | .error e :: _ => .error e
  | .ok x :: rest =>
    match tableAllOk rest with
    | .error e => .error e
    | .ok xs => .ok (x :: xs)

/-! ### EnumIs / EnumTryAs -/

/-- `is_<snake name>()` for every enabled variant: (method name, variant it matches) -/
def isMethods (d : EnumDef) : List (Bytes × Bytes) :=
  d.enabled.map (fun v => ([105, 115, 95] ++ snakify v.ident, v.ident))

/-- `try_as_<snake name>` (+ `_ref`, `_mut`) for every enabled *tuple* variant: (base name, variant, arity) -/
def tryAsMethods (d : EnumDef) : List (Bytes × Bytes × Nat) :=
  d.enabled.filterMap (fun v =>
    match v.fields with
    | .tuple n => some ([116, 114, 121, 95, 97, 115, 95] ++ snakify v.ident, v.ident, n)
    | _ => none)

/-- a value of the enum: its variant and its payload fields (abstract values) -/
structure EnumVal (α : Type) where
  ident : Bytes
  fields : List α

/-- `match self { &E::V{..} => true, _ => false }` -/
def isEval {α : Type} (m : Bytes × Bytes) (e : EnumVal α) : Bool := m.2 == e.ident

/-- `match self { E::V(x, xx, ..) => Some((x, xx, ..)), _ => None }`: all fields, in order -/
def tryAsEval {α : Type} (m : Bytes × Bytes × Nat) (e : EnumVal α) : Option (List α) :=
  if m.2.1 == e.ident then some e.fields else none

/-- writing `new` through the references returned by `try_as_x_mut()` -/
def tryAsMutWrite {α : Type} (m : Bytes × Bytes × Nat) (e : EnumVal α) (new : List α) : EnumVal α :=
  if m.2.1 == e.ident && new.length == e.fields.length then { e with fields := new } else e

end Strum
