import StrumModel.FromStr
/-
The decidable "spellings do not overlap between variants" criterion that delimits the domain of
C01/C02/C12/C16/C18.  Its equivalence with the semantic statement is proved in StrumProofs.
-/
namespace Strum

/-- does variant `v` accept input `s` (spec level; no arms, no order) -/
def accepts (d : EnumDef) (v : Variant) (s : Bytes) : Bool :=
  (serializations d.style v).any (fun sp => if d.ciOf v then eqIgnoreAsciiCase s sp else s == sp)

/-- two spellings can be hit by one input -/
def spellingsClash (ci1 : Bool) (s1 : Bytes) (ci2 : Bool) (s2 : Bytes) : Bool :=
  if ci1 || ci2 then eqIgnoreAsciiCase s1 s2 else s1 == s2

def variantsClash (d : EnumDef) (v w : Variant) : Bool :=
  (serializations d.style v).any (fun s1 =>
    (serializations d.style w).any (fun s2 => spellingsClash (d.ciOf v) s1 (d.ciOf w) s2))

def noClashWithAll (d : EnumDef) (v : Variant) (ws : List Variant) : Bool :=
  ws.all (fun w => !variantsClash d v w)

def pairwiseNoClash (d : EnumDef) : List Variant → Bool
  | [] => true
  | v :: vs => noClashWithAll d v vs && pairwiseNoClash d vs

/-- decidable non-overlap of the candidates' spellings -/
def noOverlapB (d : EnumDef) : Bool := pairwiseNoClash d d.candidates

end Strum
