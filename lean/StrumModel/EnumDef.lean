import StrumModel.Heck
/-
Abstract enum definitions: what `syn` + `get_type_properties` / `get_variant_properties` /
`get_variant_inner_properties` hand to the generators (helpers/type_props.rs, variant_props.rs,
inner_variant_props.rs), after the occurrence checks. The raw attribute layer (repetitions,
malformed items) is `StrumModel/Validate.lean`.

A variant is identified by its identifier (rustc rejects duplicate variant names).
-/
namespace Strum

inductive PropVal
  | str (s : Bytes) | int (i : Int) | bool (b : Bool)
  deriving DecidableEq, Repr

inductive Fields
  | unit
  /-- tuple variant with `n` fields -/
  | tuple (n : Nat)
  /-- named fields: (field name, field-level `default_with` function) -/
  | named (fs : List (Bytes × Option Bytes))
  deriving DecidableEq, Repr

def Fields.arity : Fields → Nat
  | .unit => 0
  | .tuple n => n
  | .named fs => fs.length

structure Variant where
  ident : Bytes
  fields : Fields := .unit
  /-- explicit discriminant (`= expr`, already evaluated) -/
  discr : Option Int := none
  serialize : List Bytes := []
  toStr : Option Bytes := none
  disabled : Bool := false
  isDefault : Bool := false
  transparent : Bool := false
  ci : Option Bool := none
  /-- variant-level `default_with` (used for tuple variants only) -/
  defaultWith : Option Bytes := none
  message : Option Bytes := none
  detailed : Option Bytes := none
  docs : List Bytes := []
  props : List (Bytes × PropVal) := []
  deriving DecidableEq, Repr

inductive ReprTy
  | u8 | u16 | u32 | u64 | usize | i8 | i16 | i32 | i64 | isize
  deriving DecidableEq, Repr

/-- one hint inside `#[repr(..)]` -/
inductive ReprHint
  | int (t : ReprTy)
  | c
  | align (n : Nat)
  | packed
  | other
  deriving DecidableEq, Repr

structure EnumDef where
  name : Bytes := []
  style : Option CaseStyle := none
  ci : Bool := false
  pfx : Option Bytes := none
  usePhf : Bool := false
  /-- both `parse_err_ty` and `parse_err_fn` given -/
  customErr : Bool := false
  /-- the `#[repr(..)]` attributes as written: one list of hints per attribute, in source order -/
  reprAttrs : List (List ReprHint) := []
  constIntoStr : Bool := false
  variants : List Variant := []
  /-- `#[strum_discriminants(name(..))]` -/
  discName : Option Bytes := none
  /-- `#[strum_discriminants(vis(..))]`: 0 = not given, 1 = `pub`, 2 = anything else -/
  discVis : Nat := 0
  deriving Repr

/-- the integer hint in a list of hints, if any (rustc rejects two different ones: E0566) -/
def intHint : List ReprHint → Option ReprTy
  | [] => none
  | .int t :: _ => some t
  | _ :: hs => intHint hs

/-- all hints of all `#[repr]` attributes: what rustc acts on -/
def EnumDef.reprHints (d : EnumDef) : List ReprHint := d.reprAttrs.flatten

/-- **rustc**: the discriminant type named by the enum's repr hints, if any -/
def EnumDef.repr (d : EnumDef) : Option ReprTy := intHint d.reprHints

/-- effective case-insensitivity of a variant: `variant.unwrap_or(enum)` (from_string.rs:116-118) -/
def EnumDef.ciOf (d : EnumDef) (v : Variant) : Bool :=
  match v.ci with
  | some b => b
  | none => d.ci

def EnumDef.enabled (d : EnumDef) : List Variant := d.variants.filter (fun v => !v.disabled)

/-- the variants that get match arms in `FromStr`: enabled and not `default` -/
def EnumDef.candidates (d : EnumDef) : List Variant :=
  d.variants.filter (fun v => !v.disabled && !v.isDefault)

def EnumDef.defaults (d : EnumDef) : List Variant :=
  d.variants.filter (fun v => !v.disabled && v.isDefault)

end Strum
