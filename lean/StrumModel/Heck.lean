import StrumModel.Bytes
/-
heck 0.5.0 `transform` (lib.rs:69-159), transcribed for ASCII identifiers, and strum's
`CaseStyle` / `convert_case` / `snakify` (strum_macros/src/helpers/case_style.rs).

heck is a dependency of strum, not part of it: this file is a *model* of heck, validated by the
mode-A correspondence on exhaustive identifier sets.
-/
namespace Strum

inductive WordMode | boundary | lower | upper
  deriving DecidableEq, Repr

/-- heck's scan of one alphanumeric segment. `acc` is `word[init..i]`, `mode` the tri-state. -/
def segGo : WordMode → Bytes → Bytes → List Bytes
  | _, _, [] => []
  | _, acc, [c] => [acc ++ [c]]
  | mode, acc, c :: n :: rest =>
    let nextMode := if isLower c then WordMode.lower else if isUpper c then WordMode.upper else mode
    if nextMode = WordMode.lower && isUpper n then
      (acc ++ [c]) :: segGo WordMode.boundary [] (n :: rest)
    else if mode = WordMode.upper && isUpper c && isLower n then
      acc :: segGo WordMode.boundary [c] (n :: rest)
    else
      segGo nextMode (acc ++ [c]) (n :: rest)

/-- `s.split(|c| !c.is_alphanumeric())` (ASCII) -/
def splitNonAlnum : Bytes → Bytes → List Bytes
  | cur, [] => [cur]
  | cur, c :: cs => if isAlnum c then splitNonAlnum (cur ++ [c]) cs else cur :: splitNonAlnum [] cs

/-- all words heck hands to `with_word`, in order -/
def heckWords (s : Bytes) : List Bytes :=
  (splitNonAlnum [] s).flatMap (segGo WordMode.boundary [])

def capitalize : Bytes → Bytes
  | [] => []
  | c :: cs => asciiUpper c :: lowerAll cs

def intercalateBytes (sep : Bytes) : List Bytes → Bytes
  | [] => []
  | [w] => w
  | w :: ws => w ++ sep ++ intercalateBytes sep ws

def toSnake (s : Bytes) : Bytes := intercalateBytes [95] ((heckWords s).map lowerAll)
def toKebab (s : Bytes) : Bytes := intercalateBytes [45] ((heckWords s).map lowerAll)
def toShoutySnake (s : Bytes) : Bytes := intercalateBytes [95] ((heckWords s).map upperAll)
def toTitle (s : Bytes) : Bytes := intercalateBytes [32] ((heckWords s).map capitalize)
def toTrain (s : Bytes) : Bytes := intercalateBytes [45] ((heckWords s).map capitalize)
def toUpperCamel (s : Bytes) : Bytes := ((heckWords s).map capitalize).flatten
def toLowerCamel (s : Bytes) : Bytes :=
  match heckWords s with
  | [] => []
  | w :: ws => lowerAll w ++ (ws.map capitalize).flatten

inductive CaseStyle
  | camel | kebab | mixed | shoutySnake | snake | title | upper | lower | screamingKebab | pascal | train
  deriving DecidableEq, Repr

/-- `CaseStyle::from_str` (case_style.rs:58-81); strings as ASCII `String`s -/
def parseStyle (s : String) : Option CaseStyle :=
  if s = "PascalCase" || s = "camel_case" then some .pascal
  else if s = "camelCase" then some .camel
  else if s = "snake_case" || s = "snek_case" then some .snake
  else if s = "kebab-case" || s = "kebab_case" then some .kebab
  else if s = "SCREAMING-KEBAB-CASE" then some .screamingKebab
  else if s = "SCREAMING_SNAKE_CASE" || s = "shouty_snake_case" || s = "shouty_snek_case" then some .shoutySnake
  else if s = "title_case" then some .title
  else if s = "mixed_case" then some .mixed
  else if s = "lowercase" then some .lower
  else if s = "UPPERCASE" then some .upper
  else if s = "Train-Case" then some .train
  else none

/-- `Ident::convert_case` (case_style.rs:87-117) -/
def convertCase (cs : Option CaseStyle) (ident : Bytes) : Bytes :=
  match cs with
  | none => ident
  | some .pascal => toUpperCamel ident
  | some .kebab => toKebab ident
  | some .mixed => toLowerCamel ident
  | some .shoutySnake => toShoutySnake ident
  | some .snake => toSnake ident
  | some .title => toTitle ident
  | some .upper => upperAll ident
  | some .lower => lowerAll ident
  | some .screamingKebab => upperAll (toKebab ident)
  | some .train => toTrain ident
  | some .camel =>
    match toUpperCamel ident with
    | [] => []
    | c :: cs => asciiLower c :: cs

/-- insert `_` before every digit that is not at position 0 and whose predecessor is not a digit -/
def splitDigitsGo : Option Nat → Bytes → Bytes
  | _, [] => []
  | prev, c :: cs =>
    let ins := isDigit c && (match prev with | none => false | some p => !isDigit p)
    (if ins then [95, c] else [c]) ++ splitDigitsGo (some c) cs

/-- `snakify` (case_style.rs:163-178) -/
def snakify (s : Bytes) : Bytes := splitDigitsGo none (toSnake s)

end Strum
