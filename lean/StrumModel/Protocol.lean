import StrumModel.Collect
import StrumModel.DiscHeader
import StrumModel.FromStr
/-
Line protocol shared by the Rust harness and the Lean driver (see DESIGN.md §4.2).
Strings are written `x<hex of UTF-8 bytes>` (so the empty string is `x`), absent values `-`.
-/
namespace Strum.Protocol
open Strum

def hexDigit (c : Char) : Option Nat :=
  if '0' ≤ c ∧ c ≤ '9' then some (c.toNat - '0'.toNat)
  else if 'a' ≤ c ∧ c ≤ 'f' then some (c.toNat - 'a'.toNat + 10)
  else none

def decodeHexChars : List Char → Option Bytes
  | [] => some []
  | [_] => none
  | a :: b :: rest => do
    let x ← hexDigit a
    let y ← hexDigit b
    let r ← decodeHexChars rest
    pure ((x * 16 + y) :: r)

/-- `x<hex>` → bytes -/
def decodeStr (s : String) : Option Bytes :=
  match s.toList with
  | 'x' :: rest => decodeHexChars rest
  | _ => none

def hexChar (n : Nat) : Char :=
  if n < 10 then Char.ofNat (n + '0'.toNat) else Char.ofNat (n - 10 + 'a'.toNat)

def encodeStr (b : Bytes) : String :=
  String.ofList ('x' :: b.flatMap (fun n => [hexChar (n / 16), hexChar (n % 16)]))

def decodeOptStr (s : String) : Option (Option Bytes) :=
  if s = "-" then some none else (decodeStr s).map some

def decodeList (s : String) : Option (List Bytes) :=
  if s = "-" then some [] else (s.splitOn ",").mapM decodeStr

def decodeBool (s : String) : Option Bool :=
  if s = "1" then some true else if s = "0" then some false else none

def decodeOptBool (s : String) : Option (Option Bool) :=
  if s = "-" then some none else (decodeBool s).map some

/-- key=value lookup in a token list -/
def kv (toks : List String) (key : String) : Option String :=
  toks.findSome? (fun t =>
    match t.splitOn "=" with
    | [k, v] => if k = key then some v else none
    | _ => none)

def styleOfName (s : String) : Option (Option CaseStyle) :=
  if s = "-" then some none else (parseStyle s).map some

def reprOfName (s : String) : Option (Option ReprTy) :=
  match s with
  | "-" => some none
  | "u8" => some (some .u8) | "u16" => some (some .u16) | "u32" => some (some .u32)
  | "u64" => some (some .u64) | "usize" => some (some .usize)
  | "i8" => some (some .i8) | "i16" => some (some .i16) | "i32" => some (some .i32)
  | "i64" => some (some .i64) | "isize" => some (some .isize)
  | _ => none

def hintOfName (s : String) : ReprHint :=
  match reprOfName s with
  | some (some t) => .int t
  | _ =>
    if s = "C" then .c
    else if s = "packed" then .packed
    else if s.startsWith "align" then .align ((s.drop 5).toString.toNat?.getD 0)
    else .other

/-- `reprattrs=C+u8/align4`: attributes separated by `/`, hints by `+`; `-` = none -/
def decodeReprAttrs (s : String) : List (List ReprHint) :=
  if s = "-" then [] else (s.splitOn "/").map (fun a => (a.splitOn "+").map hintOfName)

def decodeInt (s : String) : Option Int := s.toInt?

def decodeOptInt (s : String) : Option (Option Int) :=
  if s = "-" then some none else (decodeInt s).map some

def decodeField (s : String) : Option (Bytes × Option Bytes) :=
  match s.splitOn "/" with
  | [n] => do pure ((← decodeStr n), none)
  | [n, f] => do pure ((← decodeStr n), some (← decodeStr f))
  | _ => none

def decodeFields (s : String) : Option Fields :=
  match s.splitOn ":" with
  | ["unit"] => some .unit
  | ["tuple", n] => n.toNat?.map .tuple
  | ["named", ""] => some (.named [])   -- `V {}`
  | ["named", fs] => ((fs.splitOn ",").mapM decodeField).map .named
  | _ => none

def decodeProp (s : String) : Option (Bytes × PropVal) :=
  match s.splitOn ":" with
  | [k, "s", v] => do pure ((← decodeStr k), .str (← decodeStr v))
  | [k, "i", v] => do pure ((← decodeStr k), .int (← decodeInt v))
  | [k, "b", v] => do pure ((← decodeStr k), .bool (← decodeBool v))
  | _ => none

def decodeProps (s : String) : Option (List (Bytes × PropVal)) :=
  if s = "-" then some [] else (s.splitOn ",").mapM decodeProp

/-- `enum <id> name=.. style=.. ci=.. prefix=.. phf=.. err=.. repr=.. cis=..` -/
def decodeEnum (toks : List String) : Option EnumDef := do
  let name ← decodeStr (← kv toks "name")
  let style ← styleOfName (← kv toks "style")
  let ci ← decodeBool (← kv toks "ci")
  let pfx ← decodeOptStr (← kv toks "prefix")
  let phf ← decodeBool (← kv toks "phf")
  let err ← decodeBool (← kv toks "err")
  let repr ← reprOfName (← kv toks "repr")
  let cis ← decodeBool (← kv toks "cis")
  let dname := match kv toks "dname" with
    | some s => (decodeOptStr s).getD none
    | none => none
  let dvis := match kv toks "dvis" with
    | some s => s.toNat?.getD 0
    | none => 0
  pure { name := name, style := style, ci := ci, pfx := pfx, usePhf := phf, customErr := err,
         reprAttrs := (match kv toks "reprattrs" with
           | some s => if s = "-" then (match repr with | none => [] | some t => [[.int t]]) else decodeReprAttrs s
           | none => match repr with | none => [] | some t => [[.int t]]),
         constIntoStr := cis, variants := [], discName := dname, discVis := dvis }

def decodeVariant (toks : List String) : Option Variant := do
  let ident ← decodeStr (← kv toks "ident")
  let fields ← decodeFields (← kv toks "kind")
  let discr ← decodeOptInt (← kv toks "discr")
  let ser ← decodeList (← kv toks "ser")
  let ts ← decodeOptStr (← kv toks "ts")
  let dis ← decodeBool (← kv toks "dis")
  let dflt ← decodeBool (← kv toks "def")
  let tr ← decodeBool (← kv toks "tr")
  let ci ← decodeOptBool (← kv toks "ci")
  let dw ← decodeOptStr (← kv toks "dw")
  let msg ← decodeOptStr (← kv toks "msg")
  let det ← decodeOptStr (← kv toks "det")
  let docs ← decodeList (← kv toks "doc")
  let props ← decodeProps (← kv toks "props")
  pure { ident := ident, fields := fields, discr := discr, serialize := ser, toStr := ts,
         disabled := dis, isDefault := dflt, transparent := tr, ci := ci, defaultWith := dw,
         message := msg, detailed := det, docs := docs, props := props }

/-- one item of a `#[strum(..)]` list as written: `ser~x..`, `ts~x..`, `msg~x..`, `det~x..`, `dw~x..`, `ci~0|1`, `dis`, `def`,
    `tr`, `props~k:t:v,..` -/
def decodeVItem (s : String) : Option VItem :=
  match s.splitOn "~" with
  | ["dis"] => some .disabled
  | ["def"] => some .default
  | ["tr"] => some .transparent
  | ["ser", v] => (decodeStr v).map .serialize
  | ["ts", v] => (decodeStr v).map .toStr
  | ["msg", v] => (decodeStr v).map .message
  | ["det", v] => (decodeStr v).map .detailed
  | ["dw", v] => (decodeStr v).map .defaultWith
  | ["ci", v] => (decodeBool v).map .ci
  | ["props", v] => (decodeProps v).map .props
  | _ => none

/-- `rawvariant <id> ident=.. kind=.. discr=.. doc=.. attrs=g1|g2|..` (items of a group separated by `;`) -/
def decodeRawVariant (toks : List String) : Option RawVariant := do
  let ident ← decodeStr (← kv toks "ident")
  let fields ← decodeFields (← kv toks "kind")
  let discr ← decodeOptInt (← kv toks "discr")
  let docs ← decodeList (← kv toks "doc")
  let a ← kv toks "attrs"
  let attrs ← if a = "-" then some [] else (a.splitOn "|").mapM (fun g => (g.splitOn ";").mapM decodeVItem)
  pure { ident := ident, fields := fields, discr := discr, docs := docs, attrs := attrs }

def decodeEItem (s : String) : Option EItem :=
  match s.splitOn "~" with
  | ["sa", v] => (decodeStr v).map (fun b => .serializeAll (String.ofList (b.map Char.ofNat)))
  | ["ci"] => some .ci
  | ["pfx", v] => (decodeStr v).map .pfx
  | ["phf"] => some .usePhf
  | ["pty"] => some .parseErrTy
  | ["pfn"] => some .parseErrFn
  | ["cis"] => some .constIntoStr
  | ["crate"] => some .cratePath
  | _ => none

def decodeDItem (s : String) : Option DItem :=
  match s.splitOn "~" with
  | ["der", v] => (decodeList v).map .derive
  | ["nam", v] => (decodeStr v).map .name
  | ["vis", v] => (decodeStr v).map .vis
  | ["doc", v] => (decodeStr v).map .doc
  | ["oth", v] => (decodeStr v).map .other
  | _ => none

/-- `path~text~inner` with `inner` = `-` when the attribute is not of the form `path(..)` -/
def decodeVAttr (s : String) : Option VAttr :=
  match s.splitOn "~" with
  | [p, t, i] => do
    let p ← decodeStr p
    let t ← decodeStr t
    let i ← decodeOptStr i
    pure { path := p, text := t, inner := i }
  | _ => none

/-- `discheader name=.. vis=.. reprs=a,b attrs=g1|g2 vattrs=v1a;v1b/v2a` (a variant without attributes is a single dash): the header of the generated discriminants
    enum and the attributes of its variants; answer `ok name=.. vis=.. into=0|1 attrs=a;b vattrs=../..` or `err` -/
def runDiscHeader (toks : List String) : Option String := do
  let name ← decodeStr (← kv toks "name")
  let vis ← decodeStr (← kv toks "vis")
  let reprs ← decodeList (← kv toks "reprs")
  let a ← kv toks "attrs"
  let attrs ← if a = "-" then some [] else (a.splitOn "|").mapM (fun g => (g.splitOn ";").mapM decodeDItem)
  let va ← kv toks "vattrs"
  let vattrs ← (va.splitOn "/").mapM (fun v => if v = "-" then some [] else (v.splitOn ";").mapM decodeVAttr)
  let joinHex (l : List Bytes) : String := if l.isEmpty then "-" else String.intercalate ";" (l.map encodeStr)
  match collectDisc attrs with
  | .error _ => pure "err"
  | .ok p =>
    let h := discHeader name vis reprs p
    let outs := vattrs.map variantAttrsOut
    if outs.any (fun o => match o with | .error _ => true | .ok _ => false) then pure "err"
    else
      let vs := outs.map (fun o => match o with | .ok l => joinHex l | .error _ => "-")
      pure ("ok name=" ++ encodeStr h.name ++ " vis=" ++ encodeStr h.vis ++ " into=" ++ (if h.intoDisc then "1" else "0") ++
            " attrs=" ++ joinHex h.attrs ++ " vattrs=" ++ String.intercalate "/" vs)

/-- `rawenum <id> name=.. attrs=g1|g2 reprattrs=.. dname=.. dvis=..` (items of a group separated by `;`) -/
def decodeRawEnum (toks : List String) : Option RawEnum := do
  let name ← decodeStr (← kv toks "name")
  let a ← kv toks "attrs"
  let attrs ← if a = "-" then some [] else (a.splitOn "|").mapM (fun g => (g.splitOn ";").mapM decodeEItem)
  let ra := match kv toks "reprattrs" with
    | some s => decodeReprAttrs s
    | none => []
  let dname := match kv toks "dname" with
    | some s => (decodeOptStr s).getD none
    | none => none
  let dvis := match kv toks "dvis" with
    | some s => s.toNat?.getD 0
    | none => 0
  pure { name := name, attrs := attrs, reprAttrs := ra, discName := dname, discVis := dvis }

def showFieldInit : FieldInit → String
  | .dflt => "D"
  | .dfltWith f => "W" ++ encodeStr f
  | .captured s => "C" ++ encodeStr s

def showGenErr : GenErr → String
  | .twoDefaults => "CE:twoDefaults"
  | .defaultShape => "CE:defaultShape"
  | .phfDupKey => "CE:phfDupKey"

def showParseOut : ParseOut → String
  | .ok k p => String.intercalate " " (["ok", encodeStr k] ++ p.map showFieldInit)
  | .errStd => "err std"
  | .errCustom a => "err custom " ++ encodeStr a

end Strum.Protocol
