import StrumModel.EnumDef
/-
The attribute-collection layer: from a variant / enum *as written* (a list of `#[strum(..)]` attributes, each a list of
items, in source order) to the abstract `Variant` / `EnumDef` every generator works on.

`collectVariant` mirrors `HasStrumVariantProperties::get_variant_properties` (helpers/variant_props.rs:68-163) on top of
`VariantExt::get_metadata` (helpers/metadata.rs:296-325), `collectEnum` mirrors `HasTypeProperties::get_type_properties`
(helpers/type_props.rs:37-165).  Item *values* are carried along (the C20 model in `Validate.lean` only looks at kinds).
-/
namespace Strum

/-- one item of a `#[strum(..)]` list on a variant -/
inductive VItem
  | message (s : Bytes)
  | detailed (s : Bytes)
  | serialize (s : Bytes)
  | toStr (s : Bytes)
  | transparent
  | disabled
  | default
  | defaultWith (f : Bytes)
  | ci (b : Bool)
  | props (ps : List (Bytes × PropVal))
  deriving DecidableEq, Repr

/-- the kinds that may occur once per variant (`occurrence_error` otherwise); `serialize` and `props` repeat freely -/
inductive VKind
  | message | detailed | toStr | transparent | disabled | default | defaultWith | ci
  deriving DecidableEq, Repr

def VItem.kind? : VItem → Option VKind
  | .message _ => some .message
  | .detailed _ => some .detailed
  | .toStr _ => some .toStr
  | .transparent => some .transparent
  | .disabled => some .disabled
  | .default => some .default
  | .defaultWith _ => some .defaultWith
  | .ci _ => some .ci
  | .serialize _ | .props _ => none

/-- a variant as written -/
structure RawVariant where
  ident : Bytes
  fields : Fields := .unit
  discr : Option Int := none
  /-- the string values of the `#[doc = ".."]` attributes, in order -/
  docs : List Bytes := []
  /-- one list of items per `#[strum(..)]` attribute, in source order -/
  attrs : List (List VItem) := []
  deriving Repr

/-- collection state: the properties so far and the single-use kinds already seen (the `*_kw` locals) -/
structure CollectState where
  v : Variant
  seen : List VKind := []

/-- one iteration of the `for meta in self.get_metadata()?` loop -/
def collectStep (st : CollectState) (it : VItem) : Except VKind CollectState :=
  match it with
  | .serialize s => .ok { st with v := { st.v with serialize := st.v.serialize ++ [s] } }
  | .props ps => .ok { st with v := { st.v with props := st.v.props ++ ps } }
  | .message s =>
    if st.seen.contains .message then .error .message
    else .ok { v := { st.v with message := some s }, seen := .message :: st.seen }
  | .detailed s =>
    if st.seen.contains .detailed then .error .detailed
    else .ok { v := { st.v with detailed := some s }, seen := .detailed :: st.seen }
  | .toStr s =>
    if st.seen.contains .toStr then .error .toStr
    else .ok { v := { st.v with toStr := some s }, seen := .toStr :: st.seen }
  | .transparent =>
    if st.seen.contains .transparent then .error .transparent
    else .ok { v := { st.v with transparent := true }, seen := .transparent :: st.seen }
  | .disabled =>
    if st.seen.contains .disabled then .error .disabled
    else .ok { v := { st.v with disabled := true }, seen := .disabled :: st.seen }
  | .default =>
    if st.seen.contains .default then .error .default
    else .ok { v := { st.v with isDefault := true }, seen := .default :: st.seen }
  | .defaultWith f =>
    if st.seen.contains .defaultWith then .error .defaultWith
    else .ok { v := { st.v with defaultWith := some f }, seen := .defaultWith :: st.seen }
  | .ci b =>
    if st.seen.contains .ci then .error .ci
    else .ok { v := { st.v with ci := some b }, seen := .ci :: st.seen }

def collectItems : CollectState → List VItem → Except VKind CollectState
  | st, [] => .ok st
  | st, it :: its =>
    match collectStep st it with
    | .error k => .error k
    | .ok st' => collectItems st' its

/-- `get_variant_properties`: the items of all `#[strum(..)]` attributes, flattened in source order -/
def collectVariant (r : RawVariant) : Except VKind Variant :=
  match collectItems { v := { ident := r.ident, fields := r.fields, discr := r.discr, docs := r.docs } } r.attrs.flatten with
  | .error k => .error k
  | .ok st => .ok st.v

/-! ### declarative reading of the result -/

def serializesOf (its : List VItem) : List Bytes :=
  its.filterMap (fun | .serialize s => some s | _ => none)

def propsOf (its : List VItem) : List (Bytes × PropVal) :=
  (its.filterMap (fun | .props ps => some ps | _ => none)).flatten

def countKind (k : VKind) (its : List VItem) : Nat := (its.filter (fun it => it.kind? == some k)).length

/-- the first (= only) item of a single-use kind -/
def firstOfKind (k : VKind) (its : List VItem) : Option VItem := its.find? (fun it => it.kind? == some k)

end Strum
