import StrumModel.EnumDef
/-
The attribute-collection layer: from a variant / enum *as written* (a list of `#[strum(..)]` attributes, each a list of
items, in source order) to the abstract `Variant` / `EnumDef` every generator works on.

`collectVariant` mirrors `HasStrumVariantProperties::get_variant_properties` (helpers/variant_props.rs:68-163) on top of
`VariantExt::get_metadata` (helpers/metadata.rs:296-325), `collectEnum` mirrors `HasTypeProperties::get_type_properties`
(helpers/type_props.rs:37-165).  Item *values* are carried along (the C20 model in `Validate.lean` only looks at kinds).
-/
namespace Strum

/-- one item of a `#[strum(..)]` list on a variant -/
inductive VItem
  | message (s : Bytes)
  | detailed (s : Bytes)
  | serialize (s : Bytes)
  | toStr (s : Bytes)
  | transparent
  | disabled
  | default
  | defaultWith (f : Bytes)
  | ci (b : Bool)
  | props (ps : List (Bytes × PropVal))
  deriving DecidableEq, Repr

/-- the kinds that may occur once per variant (`occurrence_error` otherwise); `serialize` and `props` repeat freely -/
inductive VKind
  | message | detailed | toStr | transparent | disabled | default | defaultWith | ci
  deriving DecidableEq, Repr

def VItem.kind? : VItem → Option VKind
  | .message _ => some .message
  | .detailed _ => some .detailed
  | .toStr _ => some .toStr
  | .transparent => some .transparent
  | .disabled => some .disabled
  | .default => some .default
  | .defaultWith _ => some .defaultWith
  | .ci _ => some .ci
  | .serialize _ | .props _ => none

/-- a variant as written -/
structure RawVariant where
  ident : Bytes
  fields : Fields := .unit
  discr : Option Int := none
  /-- the string values of the `#[doc = ".."]` attributes, in order -/
  docs : List Bytes := []
  /-- one list of items per `#[strum(..)]` attribute, in source order -/
  attrs : List (List VItem) := []
  deriving Repr

/-- collection state: the properties so far and the single-use kinds already seen (the `*_kw` locals) -/
structure CollectState where
  v : Variant
  seen : List VKind := []

/-- one iteration of the `for meta in self.get_metadata()?` loop -/
def collectStep (st : CollectState) (it : VItem) : Except VKind CollectState :=
  match it with
  | .serialize s => .ok { st with v := { st.v with serialize := st.v.serialize ++ [s] } }
  | .props ps => .ok { st with v := { st.v with props := st.v.props ++ ps } }
  | .message s =>
    if st.seen.contains .message then .error .message
    else .ok { v := { st.v with message := some s }, seen := .message :: st.seen }
  | .detailed s =>
    if st.seen.contains .detailed then .error .detailed
    else .ok { v := { st.v with detailed := some s }, seen := .detailed :: st.seen }
  | .toStr s =>
    if st.seen.contains .toStr then .error .toStr
    else .ok { v := { st.v with toStr := some s }, seen := .toStr :: st.seen }
  | .transparent =>
    if st.seen.contains .transparent then .error .transparent
    else .ok { v := { st.v with transparent := true }, seen := .transparent :: st.seen }
  | .disabled =>
    if st.seen.contains .disabled then .error .disabled
    else .ok { v := { st.v with disabled := true }, seen := .disabled :: st.seen }
  | .default =>
    if st.seen.contains .default then .error .default
    else .ok { v := { st.v with isDefault := true }, seen := .default :: st.seen }
  | .defaultWith f =>
    if st.seen.contains .defaultWith then .error .defaultWith
    else .ok { v := { st.v with defaultWith := some f }, seen := .defaultWith :: st.seen }
  | .ci b =>
    if st.seen.contains .ci then .error .ci
    else .ok { v := { st.v with ci := some b }, seen := .ci :: st.seen }

def collectItems : CollectState → List VItem → Except VKind CollectState
  | st, [] => .ok st
  | st, it :: its =>
    match collectStep st it with
    | .error k => .error k
    | .ok st' => collectItems st' its

/-- `get_variant_properties`: the items of all `#[strum(..)]` attributes, flattened in source order -/
def collectVariant (r : RawVariant) : Except VKind Variant :=
  match collectItems { v := { ident := r.ident, fields := r.fields, discr := r.discr, docs := r.docs } } r.attrs.flatten with
  | .error k => .error k
  | .ok st => .ok st.v

/-! ### declarative reading of the result -/

def serializesOf (its : List VItem) : List Bytes :=
  its.filterMap (fun | .serialize s => some s | _ => none)

def propsOf (its : List VItem) : List (Bytes × PropVal) :=
  (its.filterMap (fun | .props ps => some ps | _ => none)).flatten

def countKind (k : VKind) (its : List VItem) : Nat := (its.filter (fun it => it.kind? == some k)).length

/-- the first (= only) item of a single-use kind -/
def firstOfKind (k : VKind) (its : List VItem) : Option VItem := its.find? (fun it => it.kind? == some k)

end Strum

namespace Strum

/-! ### enum level: `get_type_properties` (helpers/type_props.rs:37-150) -/

/-- one item of a `#[strum(..)]` list on the enum -/
inductive EItem
  | serializeAll (s : String)
  | ci
  | pfx (p : Bytes)
  | usePhf
  | parseErrTy
  | parseErrFn
  | constIntoStr
  | cratePath
  deriving DecidableEq, Repr

inductive EKind
  | serializeAll | ci | pfx | usePhf | parseErrTy | parseErrFn | constIntoStr | cratePath
  deriving DecidableEq, Repr

def EItem.kind : EItem → EKind
  | .serializeAll _ => .serializeAll
  | .ci => .ci
  | .pfx _ => .pfx
  | .usePhf => .usePhf
  | .parseErrTy => .parseErrTy
  | .parseErrFn => .parseErrFn
  | .constIntoStr => .constIntoStr
  | .cratePath => .cratePath

/-- an enum header as written -/
structure RawEnum where
  name : Bytes := []
  /-- one list of items per `#[strum(..)]` attribute on the enum, in source order -/
  attrs : List (List EItem) := []
  reprAttrs : List (List ReprHint) := []
  discName : Option Bytes := none
  discVis : Nat := 0
  deriving Repr

inductive ECollectErr
  /-- `serialize_all = ".."` names no known style: the attribute fails to PARSE (metadata.rs), before any other check -/
  | badStyle
  | dup (k : EKind)
  deriving DecidableEq, Repr

structure ECollectState where
  d : EnumDef
  seen : List EKind := []
  hasTy : Bool := false
  hasFn : Bool := false

def applyEItem (st : ECollectState) : EItem → ECollectState
  | .serializeAll s => { st with d := { st.d with style := parseStyle s } }
  | .ci => { st with d := { st.d with ci := true } }
  | .pfx p => { st with d := { st.d with pfx := some p } }
  | .usePhf => { st with d := { st.d with usePhf := true } }
  | .parseErrTy => { st with hasTy := true }
  | .parseErrFn => { st with hasFn := true }
  | .constIntoStr => { st with d := { st.d with constIntoStr := true } }
  | .cratePath => st

def collectEStep (st : ECollectState) (it : EItem) : Except ECollectErr ECollectState :=
  if st.seen.contains it.kind then .error (.dup it.kind)
  else .ok { applyEItem st it with seen := it.kind :: st.seen }

def collectEItems : ECollectState → List EItem → Except ECollectErr ECollectState
  | st, [] => .ok st
  | st, it :: its =>
    match collectEStep st it with
    | .error e => .error e
    | .ok st' => collectEItems st' its

def styleOk : EItem → Bool
  | .serializeAll s => (parseStyle s).isSome
  | _ => true

/-- `get_type_properties`: every attribute is parsed first (an unknown style string is a parse error), then one pass with the
    occurrence checks; `customErr` holds when both halves of the custom error are given -/
def collectEnum (r : RawEnum) (variants : List Variant) : Except ECollectErr EnumDef :=
  let its := r.attrs.flatten
  if !its.all styleOk then .error .badStyle
  else
    match collectEItems { d := { name := r.name, reprAttrs := r.reprAttrs, discName := r.discName, discVis := r.discVis,
                                  variants := variants } } its with
    | .error e => .error e
    | .ok st => .ok { st.d with customErr := st.hasTy && st.hasFn }

end Strum
