import StrumModel.Bytes
import StrumModel.Heck
import StrumModel.EnumDef
import StrumModel.Names
import StrumModel.FromStr
import StrumModel.Overlap
import StrumModel.Protocol
import StrumModel.Ops
