import StrumProofs.C03
import StrumProofs.Lemmas.Capture
/-
C17 — Display renders fixed names like a `str` and placeholders like `format!`.

`pad` (StrumModel/Fmt.lean) is the model of `Formatter::pad`; the rendering of placeholders is
`format_args!`'s and is compared against `format!` inside the Rust driver (DESIGN.md §6 C17).
-/
namespace Strum

/-- **A fixed name is formatted exactly as that `&str` would be**, whatever the variant's kind
    (unit, tuple or named): `format!(spec, v) = pad(spec, canonical name)` for every spec. -/
theorem fixed_name_padded (d : EnumDef) (hid : (d.variants.map (·.ident)).Nodup)
    (v : Variant) (hv : v ∈ d.variants) (hen : v.disabled = false)
    (ht : v.transparent = false) (hd : v.isDefault = false) (hb : NoPlaceholder (canonical d v))
    (inner : FmtSpec → Bytes) (sp : FmtSpec) (o : ShowOut) (h : displayOut d v inner sp = .ok o) :
    o = .text (pad sp (canonical d v)) := by
  unfold displayOut at h
  cases hg : genNames d .display with
  | error e => simp [hg, Except.map] at h
  | ok arms =>
    simp only [hg, Except.map, Except.ok.injEq] at h
    obtain ⟨a, ha, hl⟩ := genNames_lookup d .display arms hg hid v hv hen
    simp only [armOf] at ha
    rw [displayArm_fixed d v ht hd hb] at ha
    cases ha
    rw [← h, hl]; rfl

/-- a default variant *with* `to_string` is a fixed name as well -/
theorem displayArm_fixed_default (d : EnumDef) (v : Variant) (ht : v.transparent = false)
    (hts : v.toStr.isSome = true) (hb : NoPlaceholder (canonical d v)) :
    displayArm d v = .ok (.fixed (canonical d v)) := by
  unfold displayArm
  unfold NoPlaceholder at hb
  rw [preferredName_eq_canonical]
  have : v.toStr.isNone = false := by cases h : v.toStr <;> simp_all
  simp only [ht, Bool.false_eq_true, ↓reduceIte, this, Bool.false_and, hb]
  cases v.fields <;> simp

/-! ### what `pad` does -/

theorem pad_plain (s : Bytes) (fill : Bytes) (al : Option Align) (z : Bool) :
    pad { fill := fill, align := al, width := none, prec := none, zero := z } s = s := rfl

/-- the `0` flag and the fill never matter when no width is given -/
theorem pad_no_width (sp : FmtSpec) (h : sp.width = none) (s : Bytes) :
    pad sp s = truncTo sp.prec s := by
  simp [pad, h]

/-- the `0` flag is ignored for strings -/
theorem pad_zero_irrelevant (sp : FmtSpec) (s : Bytes) : pad { sp with zero := true } s = pad { sp with zero := false } s := rfl

theorem charCount_append (a b : Bytes) : charCount (a ++ b) = charCount a + charCount b := by
  simp [charCount, List.filter_append]

theorem charCount_repeat (k : Nat) (f : Bytes) : charCount (repeatBytes k f) = k * charCount f := by
  induction k with
  | zero => simp [repeatBytes, charCount]
  | succ n ih => simp [repeatBytes, charCount_append, ih, Nat.succ_mul, Nat.add_comm]

/-- truncation keeps at most `n` chars and is a prefix -/
theorem takeChars_prefix (n : Nat) (s : Bytes) : ∃ t, s = takeChars n s ++ t := by
  induction s generalizing n with
  | nil => exact ⟨[], by simp [takeChars]⟩
  | cons b bs ih =>
    unfold takeChars
    split
    · cases n with
      | zero => exact ⟨b :: bs, by simp⟩
      | succ m => obtain ⟨t, ht⟩ := ih m; exact ⟨t, by simp [← ht]⟩
    · obtain ⟨t, ht⟩ := ih n; exact ⟨t, by simp [← ht]⟩

theorem charCount_cons (b : Nat) (bs : Bytes) :
    charCount (b :: bs) = (if isCharStart b then 1 else 0) + charCount bs := by
  unfold charCount
  simp only [List.filter_cons]
  split <;> simp <;> omega

/-- truncation to `n` chars keeps exactly `min n (chars of s)` chars -/
theorem takeChars_count (n : Nat) (s : Bytes) : charCount (takeChars n s) = min n (charCount s) := by
  induction s generalizing n with
  | nil => simp [takeChars, charCount]
  | cons b bs ih =>
    unfold takeChars
    by_cases hb : isCharStart b = true
    · simp only [hb, ↓reduceIte]
      cases n with
      | zero => simp [charCount]
      | succ m => simp only [charCount_cons, hb, ↓reduceIte, ih]; omega
    · simp only [hb, Bool.false_eq_true, ↓reduceIte, charCount_cons, ih]; omega

/-- **Width.**  With a one-char fill the result has exactly `max width (chars after truncation)` chars. -/
theorem pad_charCount (fill : Bytes) (al : Option Align) (w : Nat) (p : Option Nat) (z : Bool) (s : Bytes)
    (hf : charCount fill = 1) :
    charCount (pad ⟨fill, al, some w, p, z⟩ s) = max w (charCount (pad ⟨fill, al, none, p, z⟩ s)) := by
  simp only [pad]
  generalize truncTo p s = t
  by_cases h : w ≤ charCount t
  · simp only [h, ↓reduceIte]; omega
  · simp only [h, ↓reduceIte]
    cases al with
    | none => simp only [charCount_append, charCount_repeat, hf]; omega
    | some a =>
      cases a <;> simp only [charCount_append, charCount_repeat, hf] <;> omega

/-- the (truncated) name appears unchanged inside the padding: left / right / centre split of the fill -/
theorem pad_contains (fill : Bytes) (al : Option Align) (w : Nat) (p : Option Nat) (z : Bool) (s : Bytes) :
    ∃ l r, pad ⟨fill, al, some w, p, z⟩ s = repeatBytes l fill ++ pad ⟨fill, al, none, p, z⟩ s ++ repeatBytes r fill ∧
      l + r = w - charCount (pad ⟨fill, al, none, p, z⟩ s) ∧
      (al = none ∨ al = some .left → l = 0) ∧ (al = some .right → r = 0) ∧ (al = some .center → l = (l + r) / 2) := by
  simp only [pad]
  generalize truncTo p s = t
  by_cases h : w ≤ charCount t
  · refine ⟨0, 0, by simp [h, repeatBytes], by omega, by simp, by simp, by simp⟩
  · simp only [h, ↓reduceIte]
    cases al with
    | none => exact ⟨0, w - charCount t, by simp [repeatBytes], by omega, by simp, by simp, by simp⟩
    | some a =>
      cases a with
      | left => exact ⟨0, w - charCount t, by simp [repeatBytes], by omega, by simp, by simp, by simp⟩
      | right => exact ⟨w - charCount t, 0, by simp [repeatBytes], by omega, by simp, by simp, by simp⟩
      | center =>
        refine ⟨(w - charCount t) / 2, (w - charCount t + 1) / 2, by simp, by omega, by simp, by simp, ?_⟩
        intro _; omega

/-! ### placeholders -/

/-- named variant: the emitted `format_args!` binds exactly the declared fields that the literal uses,
    in declaration order -/
theorem named_args_cover (d : EnumDef) (v : Variant) (fs : List (Bytes × Option Bytes))
    (hf : v.fields = .named fs) (lit : Bytes) (args : List Bytes)
    (h : displayArm d v = .ok (.interp lit args)) :
    ∃ used, captureFormatStrings (canonical d v) = .ok used ∧ lit = canonical d v ∧
      args = (fs.map (·.1)).filter (fun f => (used.map (fun u => u.dropWhile isAsciiWs)).contains f) := by
  unfold displayArm at h
  rw [preferredName_eq_canonical] at h
  split at h
  · split at h <;> cases h
  · split at h
    · split at h <;> cases h
    · cases hc : captureFormatStrings (canonical d v) with
      | error e => simp [hc] at h
      | ok used =>
        simp only [hc, hf] at h
        refine ⟨used, rfl, ?_⟩
        split at h
        · split at h
          · cases h
          · cases h; exact ⟨rfl, rfl⟩
        · cases h

/-- tuple variant: the emitted call binds `field0 .. field(n-1)` positionally (all of them) -/
theorem tuple_args_cover (d : EnumDef) (v : Variant) (n : Nat) (hf : v.fields = .tuple n)
    (lit : Bytes) (args : List Bytes) (h : displayArm d v = .ok (.interp lit args)) :
    lit = canonical d v ∧ args = positional n := by
  unfold displayArm at h
  rw [preferredName_eq_canonical] at h
  split at h
  · split at h <;> cases h
  · split at h
    · split at h <;> cases h
    · cases hc : captureFormatStrings (canonical d v) with
      | error e => simp [hc] at h
      | ok used =>
        simp only [hc, hf] at h
        split at h
        · cases h
        · split at h
          · cases h
          · cases h; exact ⟨rfl, rfl⟩

/-- placeholders on a unit variant are rejected (shared with C20) -/
theorem unit_placeholder_rejected (d : EnumDef) (v : Variant) (hf : v.fields = .unit)
    (ht : v.transparent = false) (hd : v.isDefault = false) (used : List Bytes)
    (hc : captureFormatStrings (canonical d v) = .ok used) (hne : used ≠ []) :
    displayArm d v = .error .unitPlaceholder := by
  unfold displayArm
  rw [preferredName_eq_canonical]
  have : used.isEmpty = false := by cases used <;> simp_all
  simp [ht, hd, hc, hf, this]

/-- `{}` on a tuple variant is rejected -/
theorem empty_brace_rejected (d : EnumDef) (v : Variant) (n : Nat) (hf : v.fields = .tuple n)
    (ht : v.transparent = false) (hd : v.isDefault = false) (used : List Bytes)
    (hc : captureFormatStrings (canonical d v) = .ok used) (he : [] ∈ used) :
    displayArm d v = .error .emptyPlaceholder := by
  unfold displayArm
  rw [preferredName_eq_canonical]
  have : used.any (·.isEmpty) = true := by
    simp only [List.any_eq_true]; exact ⟨[], he, rfl⟩
  simp [ht, hd, hc, hf, this]

/-- **The macro's placeholder scanner agrees with the format-string grammar**: for a name that is a well-formed
    format literal (tokens `{{`, `}}`, `{body}`, other characters) the scanner returns exactly the placeholders'
    argument names, in order (`capture_eq_parse`, Lemmas/Capture.lean).  Consequences for the Display arm: -/
theorem fixed_iff_no_placeholder_tokens (d : EnumDef) (v : Variant) (ts : List FmtTok) (hwf : ∀ t ∈ ts, t.wf)
    (hn : canonical d v = renderToks ts) : NoPlaceholder (canonical d v) ↔ tokArgs ts = [] := by
  unfold NoPlaceholder
  rw [hn, capture_eq_parse ts hwf]
  simp

/-- a tuple variant whose name is a well-formed literal with at least one (non-empty) placeholder is rendered by
    `format_args!(name, field0, .., field(n-1))` -/
theorem tuple_interp_of_wf (d : EnumDef) (v : Variant) (n : Nat) (hf : v.fields = .tuple n)
    (ht : v.transparent = false) (hd : (v.toStr.isNone && v.isDefault) = false)
    (ts : List FmtTok) (hwf : ∀ t ∈ ts, t.wf) (hn : canonical d v = renderToks ts)
    (hne : tokArgs ts ≠ []) (hnoempty : ∀ a ∈ tokArgs ts, a ≠ []) :
    displayArm d v = .ok (.interp (canonical d v) (positional n)) := by
  unfold displayArm
  rw [preferredName_eq_canonical]
  have hc : captureFormatStrings (canonical d v) = .ok (tokArgs ts) := by rw [hn]; exact capture_eq_parse ts hwf
  have h1 : (tokArgs ts).any (·.isEmpty) = false := by
    cases h : (tokArgs ts).any (·.isEmpty)
    · rfl
    · simp only [List.any_eq_true] at h
      obtain ⟨a, ha, hae⟩ := h
      exact absurd (by simpa using hae) (hnoempty a ha)
  have h2 : (tokArgs ts).isEmpty = false := by cases h : tokArgs ts <;> simp_all
  simp [ht, hd, hc, hf, h1, h2]

/-- a named variant: the bound arguments are the declared fields the literal mentions -/
theorem named_interp_of_wf (d : EnumDef) (v : Variant) (fs : List (Bytes × Option Bytes)) (hf : v.fields = .named fs)
    (ht : v.transparent = false) (hd : (v.toStr.isNone && v.isDefault) = false)
    (ts : List FmtTok) (hwf : ∀ t ∈ ts, t.wf) (hn : canonical d v = renderToks ts)
    (hne : tokArgs ts ≠ []) (hid : ((tokArgs ts).map (fun u => u.dropWhile isAsciiWs)).all isIdentLike = true) :
    displayArm d v = .ok (.interp (canonical d v)
      ((fs.map (·.1)).filter (fun f => ((tokArgs ts).map (fun u => u.dropWhile isAsciiWs)).contains f))) := by
  unfold displayArm
  rw [preferredName_eq_canonical]
  have hc : captureFormatStrings (canonical d v) = .ok (tokArgs ts) := by rw [hn]; exact capture_eq_parse ts hwf
  have h2 : (tokArgs ts).isEmpty = false := by cases h : tokArgs ts <;> simp_all
  simp [ht, hd, hc, hf, hid, h2]

/-! non-vacuity / regression examples -/
example : pad { width := some 5, align := some .center, fill := [42] } [97, 98] = [42, 97, 98, 42, 42] := by decide
example : pad { width := some 4, prec := some 1 } [195, 169, 98] = [195, 169, 32, 32, 32] := by decide
example : captureFormatStrings [120, 123, 48, 58, 62, 52, 125, 123, 123, 125, 125] = .ok [[48]] := by rfl
example : NoPlaceholder [123, 123, 97, 125, 125] := by unfold NoPlaceholder; rfl

end Strum
