import StrumModel
namespace Strum
theorem c17_placeholder : True := trivial
end Strum
