import StrumProofs.Lemmas.Overlap
import StrumProofs.Source
/-
C01 — EnumString returns variant V iff the input is one of V's declared spellings.

Model: `parse d s = (genFromStr d).map (·.eval s)` (StrumModel/FromStr.lean), mirroring
strum_macros/src/macros/strings/from_string.rs.  Spec: `accepts d v s` (StrumModel/Overlap.lean):
`s` equals one of `v`'s spellings, exactly or ignoring ASCII case when `v` is case-insensitive.
All statements quantify over every definition `d` and every byte string `s`.
The `use_phf` code path is related to this one by C16 (`phf_same_result`).
-/
namespace Strum

theorem phf_nil_of_nophf (d : EnumDef) (h : d.usePhf = false) (vs : List Variant) :
    vs.flatMap (phfOfVariant d) = [] := by
  induction vs with
  | nil => rfl
  | cons v vs ih => simp [List.flatMap_cons, phfOfVariant, h, ih]

/-- what the generator produces without `use_phf` -/
theorem genFromStr_nophf (d : EnumDef) (h : d.usePhf = false) :
    genFromStr d =
      match d.defaults with
      | [] => .ok ⟨[], d.candidates.flatMap (armsOfVariant d),
                   if d.customErr then .errCustom else .errStd,
                   if d.customErr then .custom else .strumParseError⟩
      | [v] => if v.fields.arity = 1
               then .ok ⟨[], d.candidates.flatMap (armsOfVariant d), .okCapture v.ident, .strumParseError⟩
               else .error .defaultShape
      | _ :: _ :: _ => .error .twoDefaults := by
  unfold genFromStr
  simp only [phf_nil_of_nophf d h, List.map_nil, hasDupKey]
  rfl

theorem gen_arms_nophf (d : EnumDef) (h : d.usePhf = false) (p : FromStrImpl) (hg : genFromStr d = .ok p) :
    p.phf = [] ∧ p.arms = d.candidates.flatMap (armsOfVariant d) := by
  rw [genFromStr_nophf d h] at hg
  split at hg
  · cases hg; exact ⟨rfl, rfl⟩
  · split at hg
    · cases hg; exact ⟨rfl, rfl⟩
    · cases hg
  · cases hg

/-- **First-match characterisation (no non-overlap hypothesis).**  The parser returns the first
    candidate variant, in declaration order, that accepts the input; otherwise the fall-through. -/
theorem parse_first_match (d : EnumDef) (hphf : d.usePhf = false) (p : FromStrImpl)
    (hg : genFromStr d = .ok p) (s : Bytes) :
    parse d s = .ok (match d.candidates.find? (fun v => accepts d v s) with
                     | some v => .ok v.ident (payloadOf v)
                     | none => p.fall.eval s) := by
  obtain ⟨hp, ha⟩ := gen_arms_nophf d hphf p hg
  have hfm := firstMatch_flatMap d hphf d.candidates s
  unfold parse
  rw [hg]
  simp only [Except.map, FromStrImpl.eval, hp, firstMatch, ha]
  cases hf : firstMatch (d.candidates.flatMap (armsOfVariant d)) s with
  | some a =>
    rw [hf] at hfm
    cases hc : d.candidates.find? (fun v => accepts d v s) with
    | some v => rw [hc] at hfm; simp [Arm.result] at hfm; simp [hfm]
    | none => rw [hc] at hfm; simp at hfm
  | none =>
    rw [hf] at hfm
    cases hc : d.candidates.find? (fun v => accepts d v s) with
    | some v => rw [hc] at hfm; simp at hfm
    | none => rfl

/-- **Accepting direction.**  Under non-overlap, an input that is one of `v`'s spellings yields `v`
    with payload fields from `Default` / `default_with`. -/
theorem parse_accepting (d : EnumDef) (hphf : d.usePhf = false) (p : FromStrImpl)
    (hg : genFromStr d = .ok p) (hno : NoOverlap d) (s : Bytes) (v : Variant)
    (hv : v ∈ d.candidates) (ha : accepts d v s = true) :
    parse d s = .ok (.ok v.ident (payloadOf v)) := by
  rw [parse_first_match d hphf p hg s]
  cases hc : d.candidates.find? (fun v => accepts d v s) with
  | none =>
    have := List.find?_eq_none.1 hc v hv
    simp [ha] at this
  | some w =>
    have hw := List.mem_of_find?_eq_some hc
    have haw : accepts d w s = true := by simpa using List.find?_some hc
    have := hno s v hv w hw ha haw
    subst this; rfl

/-- **Accepting direction, pointwise.**  No global non-overlap is needed: if `v` is the ONLY candidate that accepts this
    particular input, the parser yields `v` (enums in which two variants share a spelling are still decided on every
    input that only one of them accepts). -/
theorem parse_accepting_at (d : EnumDef) (hphf : d.usePhf = false) (p : FromStrImpl)
    (hg : genFromStr d = .ok p) (s : Bytes) (v : Variant)
    (hv : v ∈ d.candidates) (ha : accepts d v s = true)
    (hu : ∀ w ∈ d.candidates, accepts d w s = true → w = v) :
    parse d s = .ok (.ok v.ident (payloadOf v)) := by
  rw [parse_first_match d hphf p hg s]
  cases hc : d.candidates.find? (fun v => accepts d v s) with
  | none =>
    have := List.find?_eq_none.1 hc v hv
    simp [ha] at this
  | some w =>
    have hw := List.mem_of_find?_eq_some hc
    have haw : accepts d w s = true := by simpa using List.find?_some hc
    have := hu w hw haw
    subst this; rfl

/-- **Rejecting direction.**  An input that is no candidate's spelling goes to the fall-through:
    the `default` variant capturing the input, or the error. -/
theorem parse_other (d : EnumDef) (hphf : d.usePhf = false) (p : FromStrImpl)
    (hg : genFromStr d = .ok p) (s : Bytes)
    (h : ∀ v ∈ d.candidates, accepts d v s = false) :
    parse d s = .ok (p.fall.eval s) := by
  rw [parse_first_match d hphf p hg s]
  have : d.candidates.find? (fun v => accepts d v s) = none := by
    apply List.find?_eq_none.2
    intro v hv; simp [h v hv]
  rw [this]

/-- the fall-through is the (single) enabled `default` variant when there is one, else the error
    selected by `parse_err_ty`/`parse_err_fn` -/
theorem fall_spec (d : EnumDef) (hphf : d.usePhf = false) (p : FromStrImpl) (hg : genFromStr d = .ok p) :
    (d.defaults = [] ∧ p.fall = (if d.customErr then .errCustom else .errStd)) ∨
    (∃ v, d.defaults = [v] ∧ v.fields.arity = 1 ∧ p.fall = .okCapture v.ident) := by
  rw [genFromStr_nophf d hphf] at hg
  split at hg
  · next h0 => cases hg; exact Or.inl ⟨h0, rfl⟩
  · next v h1 =>
    split at hg
    · next har => cases hg; exact Or.inr ⟨v, h1, har, rfl⟩
    · cases hg
  · cases hg

/-- **iff (the property statement).**  Under non-overlap the parser yields `Ok` of a candidate
    variant exactly when the input is one of that variant's spellings; any other `Ok` is the
    default variant holding the input itself; everything else is an error. -/
theorem parse_iff (d : EnumDef) (hphf : d.usePhf = false) (p : FromStrImpl)
    (hg : genFromStr d = .ok p) (hno : NoOverlap d) (s : Bytes) (k : Bytes) (pl : List FieldInit) :
    parse d s = .ok (.ok k pl) ↔
      (∃ v ∈ d.candidates, accepts d v s = true ∧ k = v.ident ∧ pl = payloadOf v) ∨
      ((∀ v ∈ d.candidates, accepts d v s = false) ∧
        ∃ v, d.defaults = [v] ∧ k = v.ident ∧ pl = [.captured s]) := by
  constructor
  · intro h
    rw [parse_first_match d hphf p hg s] at h
    cases hc : d.candidates.find? (fun v => accepts d v s) with
    | some w =>
      rw [hc] at h
      simp only [Except.ok.injEq, ParseOut.ok.injEq] at h
      have hw := List.mem_of_find?_eq_some hc
      have haw : accepts d w s = true := by simpa using List.find?_some hc
      exact Or.inl ⟨w, hw, haw, h.1.symm, h.2.symm⟩
    | none =>
      rw [hc] at h
      simp only [Except.ok.injEq] at h
      have hnone : ∀ v ∈ d.candidates, accepts d v s = false := by
        intro v hv; simpa using List.find?_eq_none.1 hc v hv
      rcases fall_spec d hphf p hg with ⟨_, hf⟩ | ⟨v, hd, _, hf⟩
      · rw [hf] at h; split at h <;> simp [Fallthrough.eval] at h
      · rw [hf] at h
        simp only [Fallthrough.eval, ParseOut.ok.injEq] at h
        exact Or.inr ⟨hnone, v, hd, h.1.symm, h.2.symm⟩
  · rintro (⟨v, hv, ha, rfl, rfl⟩ | ⟨hnone, v, hd, rfl, rfl⟩)
    · exact parse_accepting d hphf p hg hno s v hv ha
    · rw [parse_other d hphf p hg s hnone]
      rcases fall_spec d hphf p hg with ⟨h0, _⟩ | ⟨w, hw, _, hf⟩
      · rw [h0] at hd; cases hd
      · rw [hw] at hd; cases hd; rw [hf]; rfl

/-- **Error iff.**  The result is an error exactly when no candidate accepts the input and the enum
    has no default variant; the error is the standard one or the user's function applied to the input. -/
theorem parse_err_iff (d : EnumDef) (hphf : d.usePhf = false) (p : FromStrImpl)
    (hg : genFromStr d = .ok p) (s : Bytes) :
    (parse d s = .ok .errStd ↔ (∀ v ∈ d.candidates, accepts d v s = false) ∧ d.defaults = [] ∧ d.customErr = false) ∧
    (∀ a, parse d s = .ok (.errCustom a) ↔
      (∀ v ∈ d.candidates, accepts d v s = false) ∧ d.defaults = [] ∧ d.customErr = true ∧ a = s) := by
  rw [parse_first_match d hphf p hg s]
  cases hc : d.candidates.find? (fun v => accepts d v s) with
  | some w =>
    have hw := List.mem_of_find?_eq_some hc
    have haw : accepts d w s = true := by simpa using List.find?_some hc
    constructor
    · constructor
      · intro h; simp at h
      · rintro ⟨h, _⟩; rw [h w hw] at haw; cases haw
    · intro a; constructor
      · intro h; simp at h
      · rintro ⟨h, _⟩; rw [h w hw] at haw; cases haw
  | none =>
    have hnone : ∀ v ∈ d.candidates, accepts d v s = false := by
      intro v hv; simpa using List.find?_eq_none.1 hc v hv
    rcases fall_spec d hphf p hg with ⟨h0, hf⟩ | ⟨v, hd, _, hf⟩
    · rw [hf]
      cases hce : d.customErr
      · simp only [Fallthrough.eval, h0]
        simp
        exact hnone
      · simp only [Fallthrough.eval, h0]
        simp
        intro a
        exact ⟨fun h => ⟨hnone, h.symm⟩, fun h => h.2.symm⟩
    · rw [hf]; simp [Fallthrough.eval, hd]

/-- **A disabled variant is never produced** (variant identifiers are unique, as rustc demands). -/
theorem parse_never_disabled (d : EnumDef) (hphf : d.usePhf = false) (p : FromStrImpl)
    (hg : genFromStr d = .ok p) (hid : (d.variants.map (·.ident)).Nodup)
    (s : Bytes) (k : Bytes) (pl : List FieldInit)
    (h : parse d s = .ok (.ok k pl)) : ∀ v ∈ d.variants, v.ident = k → v.disabled = false := by
  -- the produced identifier belongs to an enabled variant
  have hen : ∃ w ∈ d.variants, w.ident = k ∧ w.disabled = false := by
    rw [parse_first_match d hphf p hg s] at h
    cases hc : d.candidates.find? (fun v => accepts d v s) with
    | some w =>
      rw [hc] at h
      simp only [Except.ok.injEq, ParseOut.ok.injEq] at h
      have hw := List.mem_of_find?_eq_some hc
      unfold EnumDef.candidates at hw
      simp only [List.mem_filter, Bool.and_eq_true, Bool.not_eq_eq_eq_not, Bool.not_true] at hw
      exact ⟨w, hw.1, h.1, hw.2.1⟩
    | none =>
      rw [hc] at h
      simp only [Except.ok.injEq] at h
      rcases fall_spec d hphf p hg with ⟨_, hf⟩ | ⟨v, hd, _, hf⟩
      · rw [hf] at h; split at h <;> simp [Fallthrough.eval] at h
      · rw [hf] at h
        simp only [Fallthrough.eval, ParseOut.ok.injEq] at h
        have hv : v ∈ d.defaults := by rw [hd]; simp
        unfold EnumDef.defaults at hv
        simp only [List.mem_filter, Bool.and_eq_true, Bool.not_eq_eq_eq_not, Bool.not_true] at hv
        exact ⟨v, hv.1, h.1, hv.2.1⟩
  obtain ⟨w, hw, hwk, hwd⟩ := hen
  intro v hv hvk
  have : v = w := by
    exact inj_of_nodup_map (·.ident) d.variants hid v hv w hw (hvk.trans hwk.symm)
  rw [this]; exact hwd

/-- `TryFrom<&str>` is generated as a call to `FromStr::from_str` (from_string.rs:214-227); the model
    has a single `parse`, and the correspondence compares both entry points on every input. -/
theorem ci_flag (d : EnumDef) (v : Variant) :
    d.ciOf v = (match v.ci with | some b => b | none => d.ci) := rfl

/-! ### at source level (StrumProofs/Source.lean) -/

/-- the spellings of a written variant: every `serialize` literal in source order, then the `to_string` literal; the
    re-cased identifier only when neither is written -/
theorem source_spellings (s : RawSource) (r : RawVariant) :
    serializations s.declared.style r.declared =
      (let a := serializesOf r.attrs.flatten ++ (lastOf VItem.toStr? r.attrs.flatten).toList
       if a.isEmpty then [convertCase s.declared.style r.ident] else a) := rfl

/-- **C01 at source level** (first-match form, no overlap hypothesis): on a collectable source without `use_phf`, parsing
    returns the first written variant - enabled, not `default` - one of whose spellings the input is -/
theorem source_parse (s : RawSource) (hphf : s.declared.usePhf = false) (p : FromStrImpl)
    (hg : genFromStr s.declared = .ok p) (inp : Bytes) :
    parse s.declared inp = .ok (match s.declared.candidates.find? (fun v => accepts s.declared v inp) with
                                | some v => .ok v.ident (payloadOf v)
                                | none => p.fall.eval inp) :=
  parse_first_match s.declared hphf p hg inp

/-! ### Non-vacuity: a concrete definition satisfying the hypotheses -/

def exampleEnum : EnumDef :=
  { name := [69], style := some .snake, ci := true,
    variants := [
      { ident := [82, 101, 100] },                                            -- Red (ci via enum)
      { ident := [66, 108], ci := some false, serialize := [[98], [66, 66]] }, -- Bl, serialize "b","BB"
      { ident := [79], isDefault := true, fields := .tuple 1 },               -- O(String) default
      { ident := [88], disabled := true } ] }

example : noOverlapB exampleEnum = true := by decide
example : (exampleEnum.variants.map (·.ident)).Nodup := by decide
example : ∃ p, genFromStr exampleEnum = .ok p := ⟨_, rfl⟩
example : parse exampleEnum [82, 69, 68] = .ok (.ok [82, 101, 100] []) := by rfl
example : parse exampleEnum [120] = .ok (.ok [79] [.captured [120]]) := by rfl

end Strum
