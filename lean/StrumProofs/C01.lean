import StrumModel
namespace Strum
theorem c01_placeholder : True := trivial
end Strum
