import StrumModel
namespace Strum
theorem c04_placeholder : True := trivial
end Strum
