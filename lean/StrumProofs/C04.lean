import StrumProofs.C05
import StrumProofs.Lemmas.NamesGen
import StrumProofs.Source
/-
C04 — EnumIter yields every enabled variant exactly once, in declaration order.
-/
namespace Strum

theorem foldl_count (l : List Variant) (acc : Nat) :
    l.foldl (fun acc v => if !v.disabled then acc + 1 else acc) acc =
      acc + (l.filter (fun v => !v.disabled)).length := by
  induction l generalizing acc with
  | nil => simp
  | cons v vs ih =>
    simp only [List.foldl_cons, List.filter_cons, ih]
    cases v.disabled <;> simp <;> omega

/-- `COUNT` is the number of enabled variants -/
theorem enumCount_eq (d : EnumDef) : enumCount d = d.enabled.length := by
  unfold enumCount EnumDef.enabled
  rw [foldl_count]; simp

/-- **The item table is the enabled variants, in declaration order, each with every payload field
    `Default::default()`; disabled variants do not occur wherever they are declared.** -/
theorem iter_table (d : EnumDef) :
    iterTable d = (d.variants.filter (fun v => !v.disabled)).map
      (fun v => (v.ident, List.replicate v.fields.arity FieldInit.dflt)) := rfl

theorem iter_table_no_disabled (d : EnumDef) (hid : (d.variants.map (·.ident)).Nodup)
    (v : Variant) (hv : v ∈ d.variants) (hdis : v.disabled = true) :
    ∀ x ∈ iterTable d, x.1 ≠ v.ident := by
  intro x hx hxv
  rw [iter_table] at hx
  simp only [List.mem_map, List.mem_filter, Bool.not_eq_eq_eq_not, Bool.not_true] at hx
  obtain ⟨w, ⟨hw, hwd⟩, rfl⟩ := hx
  have := inj_of_nodup_map (·.ident) d.variants hid w hw v hv hxv
  rw [this, hdis] at hwd; cases hwd

theorem bound_of_small (N : Nat) (h : N < 2 ^ 32) : 2 * N + 1 < W := by
  rw [W_eq]; omega

/-- **`iter().collect()` visits positions `0, 1, .., N-1` of the table exactly once, in order.** -/
theorem iter_collect (N : Nat) (hN : 2 * N + 1 < W) : collectFuel N (N + 2) iterInit = List.range N := by
  rw [collectFuel_eq N hN (N + 2) iterInit (iterInv_init N) (by simp [iterAbs_init]), iterAbs_init]

/-- **Iterating from the back yields the exact reverse.** -/
theorem iter_rev (m : Mode) (N : Nat) (hN : 2 * N + 1 < W) :
    collectBackFuel m N (N + 2) iterInit = (List.range N).reverse := by
  rw [collectBackFuel_eq m N hN (N + 2) iterInit (iterInv_init N) (by simp [iterAbs_init]), iterAbs_init]

/-- **The number of items equals `EnumCount::COUNT`.** -/
theorem iter_count (d : EnumDef) (hN : 2 * (iterTable d).length + 1 < W) :
    (collectFuel (iterTable d).length ((iterTable d).length + 2) iterInit).length = enumCount d := by
  rw [iter_collect _ hN, enumCount_eq]
  simp [iterTable]

/-- each enabled variant occurs exactly once among the yielded items (identifiers are unique) -/
theorem iter_table_nodup (d : EnumDef) (hid : (d.variants.map (·.ident)).Nodup) :
    ((iterTable d).map (·.1)).Nodup := by
  have : (iterTable d).map (·.1) = d.enabled.map (·.ident) := by
    simp [iterTable, Function.comp_def]
  rw [this]
  exact enabled_idents_nodup d hid

/-! non-vacuity -/
example : iterTable { variants := [{ ident := [65] }, { ident := [66], disabled := true }, { ident := [67], fields := .tuple 2 }] }
    = [([65], []), ([67], [.dflt, .dflt])] := by decide
example : collectFuel 3 5 iterInit = [0, 1, 2] := by decide

/-! ### at source level (StrumProofs/Source.lean: `collectAll s = .ok d ↔ s.collectable ∧ d = s.declared`) -/

/-- **C04 at source level**: the iterator's item table lists the identifiers of exactly the variants written without a
    `disabled` item, in declaration order -/
theorem source_iter (s : RawSource) :
    (iterTable s.declared).map (·.1) = (s.variants.filter (fun r => !r.isDisabled)).map (·.ident) := by
  rw [iter_table, ← EnumDef.enabled, source_enabled]
  simp [RawVariant.declared, Function.comp_def]

end Strum
