import StrumModel
namespace Strum
theorem c03_placeholder : True := trivial
end Strum
