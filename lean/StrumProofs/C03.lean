import StrumProofs.Lemmas.NamesGen
import StrumProofs.Source
/-
C03 — all string-producing derives agree on one canonical name per variant.
-/
namespace Strum

/-- the longest serialize literal (bytes); `none` when there is none.  Characterised, not computed:
    see `longest_spec`. -/
def longestSerialize (v : Variant) : Option Bytes := maxByKeyLast List.length v.serialize

/-- **Spec.** to_string literal, else longest serialize literal, else styled identifier; prefix prepended. -/
def canonical (d : EnumDef) (v : Variant) : Bytes :=
  (d.pfx.getD []) ++ (v.toStr.getD ((longestSerialize v).getD (convertCase d.style v.ident)))

/-- the chosen serialize literal is one of them and none is longer; with distinct lengths it is the
    unique longest (ties go to the last one, as in Rust's `max_by_key`) -/
theorem longest_spec (v : Variant) (x : Bytes) (h : longestSerialize v = some x) :
    x ∈ v.serialize ∧ ∀ y ∈ v.serialize, y.length ≤ x.length :=
  maxByKeyLast_spec List.length v.serialize x h

theorem longest_unique (v : Variant) (x : Bytes) (h : longestSerialize v = some x)
    (y : Bytes) (hy : y ∈ v.serialize) (hl : x.length ≤ y.length)
    (hd : ∀ a ∈ v.serialize, ∀ b ∈ v.serialize, a.length = b.length → a = b) : y = x := by
  obtain ⟨hx, hmax⟩ := longest_spec v x h
  exact hd y hy x hx (Nat.le_antisymm (hmax y hy) hl)

theorem longest_none_iff (v : Variant) : longestSerialize v = none ↔ v.serialize = [] :=
  maxByKeyLast_none _ _

/-- `get_preferred_name(case_style, prefix)` computes the canonical name -/
theorem preferredName_eq_canonical (d : EnumDef) (v : Variant) :
    preferredName d.style d.pfx v = canonical d v := by
  unfold preferredName canonical longestSerialize identAsStr
  cases d.pfx <;> cases v.toStr <;> cases maxByKeyLast List.length v.serialize <;> simp

/-- a name without placeholders: the macro's scanner finds no `{..}` -/
def NoPlaceholder (name : Bytes) : Prop := captureFormatStrings name = .ok []

theorem displayArm_fixed (d : EnumDef) (v : Variant) (ht : v.transparent = false)
    (hd : v.isDefault = false) (hb : NoPlaceholder (canonical d v)) :
    displayArm d v = .ok (.fixed (canonical d v)) := by
  unfold displayArm
  unfold NoPlaceholder at hb
  rw [preferredName_eq_canonical]
  simp only [ht, hd, Bool.false_eq_true, ↓reduceIte, Bool.and_false, hb]
  cases v.fields <;> simp

theorem asRefArm_fixed (d : EnumDef) (v : Variant) (ht : v.transparent = false) :
    asRefArm d v = .ok (.fixed (canonical d v)) := by
  unfold asRefArm
  simp [ht, preferredName_eq_canonical]

theorem toStringArm_fixed (d : EnumDef) (v : Variant) (hd : v.isDefault = false) :
    toStringArm d v = .ok (.fixed (canonical d v)) := by
  unfold toStringArm
  simp [hd, preferredName_eq_canonical]

/-- **All derives agree.**  For every enabled variant that is neither default nor transparent and
    whose name has no placeholder, each string-producing derive that compiles returns exactly the
    canonical name (Display with an empty format spec; C17 covers non-empty specs). -/
theorem all_derives_agree (d : EnumDef) (hid : (d.variants.map (·.ident)).Nodup)
    (v : Variant) (hv : v ∈ d.variants) (hen : v.disabled = false)
    (ht : v.transparent = false) (hd : v.isDefault = false) (hb : NoPlaceholder (canonical d v))
    (dv : NameDerive) (arms : List (Bytes × NameArm)) (hg : genNames d dv = .ok arms)
    (inner : FmtSpec → Bytes) :
    showWith (lookupArm arms v.ident) inner false {} = .text (canonical d v) ∧
    (dv = .display → showWith (lookupArm arms v.ident) inner true {} = .text (canonical d v)) := by
  obtain ⟨a, ha, hl⟩ := genNames_lookup d dv arms hg hid v hv hen
  have hfix : a = .fixed (canonical d v) := by
    cases dv <;> simp only [armOf] at ha
    · rw [displayArm_fixed d v ht hd hb] at ha; cases ha; rfl
    all_goals first
      | (rw [asRefArm_fixed d v ht] at ha; cases ha; rfl)
      | (rw [toStringArm_fixed d v hd] at ha; cases ha; rfl)
  subst hfix
  rw [hl]
  refine ⟨rfl, fun _ => ?_⟩
  simp [showWith, pad, truncTo]

/-- each derive's output function, as the driver computes it -/
theorem strOut_canonical (d : EnumDef) (hid : (d.variants.map (·.ident)).Nodup)
    (v : Variant) (hv : v ∈ d.variants) (hen : v.disabled = false)
    (ht : v.transparent = false) (hd : v.isDefault = false) (hb : NoPlaceholder (canonical d v))
    (dv : NameDerive) (inner : Bytes) (o : ShowOut) (h : strOut d dv v inner = .ok o) :
    o = .text (canonical d v) := by
  unfold strOut at h
  cases hg : genNames d dv with
  | error e => simp [hg, Except.map] at h
  | ok arms =>
    simp only [hg, Except.map, Except.ok.injEq] at h
    rw [← h]
    exact (all_derives_agree d hid v hv hen ht hd hb dv arms hg _).1

theorem displayOut_canonical (d : EnumDef) (hid : (d.variants.map (·.ident)).Nodup)
    (v : Variant) (hv : v ∈ d.variants) (hen : v.disabled = false)
    (ht : v.transparent = false) (hd : v.isDefault = false) (hb : NoPlaceholder (canonical d v))
    (inner : FmtSpec → Bytes) (o : ShowOut) (h : displayOut d v inner {} = .ok o) :
    o = .text (canonical d v) := by
  unfold displayOut at h
  cases hg : genNames d .display with
  | error e => simp [hg, Except.map] at h
  | ok arms =>
    simp only [hg, Except.map, Except.ok.injEq] at h
    rw [← h]
    exact (all_derives_agree d hid v hv hen ht hd hb .display arms hg _).2 rfl

/-- **`VariantNames::VARIANTS[i]` is the canonical name of the i-th declared variant** (enabled or not). -/
theorem variant_names_at (d : EnumDef) (i : Nat) (h : i < d.variants.length) :
    (variantNames d)[i]'(by simpa [variantNames] using h) = canonical d d.variants[i] := by
  simp [variantNames, preferredName_eq_canonical]

theorem variant_names_length (d : EnumDef) : (variantNames d).length = d.variants.length := by
  simp [variantNames]

/-! non-vacuity -/
example : NoPlaceholder [82, 101, 100] := by unfold NoPlaceholder; rfl
example : canonical { pfx := some [112], style := some .snake }
    { ident := [82, 101, 100], serialize := [[97], [98, 98, 98], [99, 99]] } = [112, 98, 98, 98] := by decide
example : longestSerialize { ident := [], serialize := [[97, 97], [98, 98]] } = some [98, 98] := by decide

/-- **at source level**: the canonical name of a written variant is the enum's prefix (the LAST `prefix` item of the header,
    if any) followed by the variant's own `to_string` literal, else the longest of its own `serialize` literals, else its
    identifier in the header's style - nothing written on another variant enters -/
theorem source_canonical (s : RawSource) (r : RawVariant) :
    canonical s.declared r.declared =
      ((lastOf EItem.pfx? s.hdr.attrs.flatten).getD []) ++
        ((lastOf VItem.toStr? r.attrs.flatten).getD
          ((maxByKeyLast List.length (serializesOf r.attrs.flatten)).getD
            (convertCase ((lastOf EItem.style? s.hdr.attrs.flatten).bind parseStyle) r.ident))) := rfl

end Strum
