import StrumProofs.C01
import StrumProofs.C17
/-
C20 — unsupported input gets a compile error, never a macro panic or silent acceptance.
Model: `validate` (StrumModel/Validate.lean).  Each rejection rule of the property is a predicate on the
raw item; `rejects_*` shows that every derive the rule applies to rejects the item; `never_panics` and
`accepts_domain` close the other two sides.
-/
namespace Strum

theorem validate_reject_iff (dv : Derive) (it : RawItem) :
    validate dv it = .reject ↔
      (it.kind ≠ .enum ∨ (dv.readsTypeProps = true ∧ typeErr it = true) ∨
       (dv.readsVariantProps = true ∧ anyVarAttrErr it = true) ∨ shapeErr dv it = true) := by
  unfold validate
  by_cases h1 : it.kind = .enum
  · by_cases h2 : (dv.readsTypeProps && typeErr it) = true
    · simp only [h1, bne_self_eq_false, Bool.false_eq_true, ↓reduceIte, h2]
      simp only [Bool.and_eq_true] at h2
      simp [h2]
    · by_cases h3 : (dv.readsVariantProps && anyVarAttrErr it) = true
      · simp only [h1, bne_self_eq_false, Bool.false_eq_true, ↓reduceIte, h2, h3]
        simp only [Bool.and_eq_true] at h3
        simp [h3]
      · by_cases h4 : shapeErr dv it = true
        · simp [h1, h2, h3, h4]
        · simp only [Bool.and_eq_true] at h2 h3
          simp [h1, h2, h3, h4]
  · have : (it.kind != ItemKind.enum) = true := by simpa using h1
    simp [this, h1]

/-- **The macro never panics** (after the F6 repair no code path of any derive can). -/
theorem never_panics (dv : Derive) (it : RawItem) : validate dv it ≠ .panic := by
  unfold validate
  split
  · simp
  · split
    · simp
    · split
      · simp
      · split <;> simp

/-- **In-domain input is accepted**: an enum with well-formed attributes in the derive's shape. -/
theorem accepts_domain (dv : Derive) (it : RawItem) (hk : it.kind = .enum)
    (ht : dv.readsTypeProps = true → typeErr it = false)
    (hv : dv.readsVariantProps = true → anyVarAttrErr it = false) (hs : shapeErr dv it = false) :
    validate dv it = .accept := by
  unfold validate
  have h2 : (dv.readsTypeProps && typeErr it) = false := by
    cases h : dv.readsTypeProps <;> simp [ht, h]
  have h3 : (dv.readsVariantProps && anyVarAttrErr it) = false := by
    cases h : dv.readsVariantProps <;> simp [hv, h]
  simp [hk, h2, h3, hs]

/-! ### the rejection rules -/

/-- R1: a struct or a union -/
theorem rejects_non_enum (dv : Derive) (it : RawItem) (h : it.kind ≠ .enum) : validate dv it = .reject :=
  (validate_reject_iff dv it).2 (Or.inl h)

/-- R4 (enum level) and R8: a repeated single-use enum attribute, or an unknown `serialize_all` style -/
theorem rejects_enum_attr (dv : Derive) (hdv : dv.readsTypeProps = true) (it : RawItem)
    (h : (∃ a ∈ it.enumAttrs, 2 ≤ countP (EnumAttr.sameKind a) it.enumAttrs) ∨ EnumAttr.serializeAll false ∈ it.enumAttrs ∨
         2 ≤ countP (· == DiscAttr.name) it.discAttrs ∨ 2 ≤ countP (· == DiscAttr.vis) it.discAttrs) :
    validate dv it = .reject := by
  apply (validate_reject_iff dv it).2
  refine Or.inr (Or.inl ⟨hdv, ?_⟩)
  unfold typeErr
  simp only [Bool.or_eq_true, List.any_eq_true, decide_eq_true_eq]
  rcases h with ⟨a, ha, hc⟩ | h | h | h
  · exact Or.inl (Or.inl (Or.inr ⟨a, ha, hc⟩))
  · exact Or.inl (Or.inl (Or.inl ⟨_, h, by simp⟩))
  · exact Or.inl (Or.inr h)
  · exact Or.inr h

/-- R4 (variant level): a single-use variant attribute given twice, on any variant (disabled or not) -/
theorem rejects_variant_attr (dv : Derive) (hdv : dv.readsVariantProps = true) (it : RawItem)
    (h : ∃ attrs ∈ it.varAttrs, ∃ a ∈ attrs, a.singleUse = true ∧ 2 ≤ countP (VarAttr.sameKind a) attrs) :
    validate dv it = .reject := by
  apply (validate_reject_iff dv it).2
  refine Or.inr (Or.inr (Or.inl ⟨hdv, ?_⟩))
  obtain ⟨attrs, hm, a, ha, hs, hc⟩ := h
  unfold anyVarAttrErr varAttrErr
  simp only [List.any_eq_true, Bool.and_eq_true, decide_eq_true_eq]
  exact ⟨attrs, hm, a, ha, hs, hc⟩

theorem shape_rejects (dv : Derive) (it : RawItem) (h : shapeErr dv it = true) : validate dv it = .reject :=
  (validate_reject_iff dv it).2 (Or.inr (Or.inr (Or.inr h)))

/-- R3: a lifetime parameter, for EnumIter / FromRepr / EnumTable -/
theorem rejects_lifetime (dv : Derive) (hdv : dv = .enumIter ∨ dv = .fromRepr ∨ dv = .enumTable) (it : RawItem)
    (h : 0 < it.lifetimes) : validate dv it = .reject := by
  apply shape_rejects
  rcases hdv with rfl | rfl | rfl <;> simp [shapeErr, h]

/-- R2: a data-carrying variant, for VariantArray (any variant) -/
theorem rejects_data_variant_array (it : RawItem) (v : Variant) (hv : v ∈ it.d.variants) (hf : v.fields ≠ .unit) :
    validate .variantArray it = .reject := by
  apply shape_rejects
  simp only [shapeErr, Option.isNone_iff_eq_none]
  unfold variantArray
  split
  · next hall =>
    have := List.all_eq_true.1 hall v hv
    simp at this; exact absurd this hf
  · rfl

/-- R2: an enabled data-carrying variant, for EnumTable -/
theorem rejects_data_variant_table (it : RawItem) (v : Variant) (hv : v ∈ it.d.variants) (hen : v.disabled = false)
    (hf : v.fields ≠ .unit) : validate .enumTable it = .reject := by
  apply shape_rejects
  have : it.d.enabled.any (fun v => v.fields != .unit) = true := by
    simp only [List.any_eq_true, bne_iff_ne, ne_eq]
    exact ⟨v, by unfold EnumDef.enabled; simp [hv, hen], hf⟩
  simp [shapeErr, genTable, this, isOkE]

/-- R4 (field level): `default_with` twice on a named field of a candidate variant, for EnumString -/
theorem rejects_field_default_with (it : RawItem) (h : fieldDwErr it = true) : validate .enumString it = .reject := by
  apply shape_rejects; simp [shapeErr, h]

/-- R9: only one of `parse_err_ty` / `parse_err_fn`, for EnumString -/
theorem rejects_half_parse_err (it : RawItem) (h : parseErrHalf it = true) : validate .enumString it = .reject := by
  apply shape_rejects; simp [shapeErr, h]

/-- R5 / R6: two enabled default variants, or a default variant without exactly one field, for EnumString -/
theorem rejects_defaults (it : RawItem)
    (h : 2 ≤ it.d.defaults.length ∨ ∃ v ∈ it.d.defaults, v.fields.arity ≠ 1) : validate .enumString it = .reject := by
  apply shape_rejects
  have hd : ({ it.d with usePhf := false } : EnumDef).defaults = it.d.defaults := rfl
  have : isOkE (genFromStr { it.d with usePhf := false }) = false := by
    rw [genFromStr_nophf _ rfl, hd]
    cases hl : it.d.defaults with
    | nil => rw [hl] at h; simp at h
    | cons v rest =>
      cases rest with
      | nil =>
        rw [hl] at h
        rcases h with h | ⟨w, hw, hne⟩
        · simp at h
        · simp only [List.mem_singleton] at hw; subst hw; simp [hne, isOkE]
      | cons w rest' => rfl
  simp [shapeErr, this]

theorem mapExcept_error_of_mem {α β ε : Type} (f : α → Except ε β) (l : List α) (a : α) (ha : a ∈ l)
    (he : ∃ e, f a = .error e) : ∃ e, mapExcept f l = .error e := by
  induction l with
  | nil => simp at ha
  | cons x xs ih =>
    simp only [List.mem_cons] at ha
    simp only [mapExcept]
    cases hx : f x with
    | error e => exact ⟨e, rfl⟩
    | ok b =>
      rcases ha with rfl | ha
      · obtain ⟨e, he⟩ := he; rw [he] at hx; cases hx
      · obtain ⟨e, he'⟩ := ih ha
        exact ⟨e, by simp [he']⟩

theorem genNames_error_of_arm (d : EnumDef) (dv : NameDerive) (v : Variant) (hv : v ∈ d.variants)
    (hen : v.disabled = false) (he : ∃ e, armOf d dv v = .error e) : isOkE (genNames d dv) = false := by
  have hm : v ∈ d.enabled := by unfold EnumDef.enabled; simp [hv, hen]
  obtain ⟨e, hee⟩ := mapExcept_error_of_mem (fun v => (armOf d dv v).map (fun a => (v.ident, a))) d.enabled v hm
    (by obtain ⟨e, he⟩ := he; exact ⟨e, by simp [he, Except.map]⟩)
  unfold genNames; rw [hee]; rfl

/-- R6: `transparent` on an enabled variant without exactly one field, for Display / AsRefStr / IntoStaticStr / AsStaticStr -/
theorem rejects_transparent_shape (dv : Derive)
    (hdv : dv = .display ∨ dv = .asRefStr ∨ dv = .intoStaticStr ∨ dv = .asStaticStr) (it : RawItem)
    (v : Variant) (hv : v ∈ it.d.variants) (hen : v.disabled = false) (ht : v.transparent = true)
    (ha : v.fields.arity ≠ 1) : validate dv it = .reject := by
  apply shape_rejects
  rcases hdv with rfl | rfl | rfl | rfl
  · have := genNames_error_of_arm it.d .display v hv hen ⟨.transparentShape, by simp [armOf, displayArm, ht, ha]⟩
    simp [shapeErr, this]
  all_goals
    have := genNames_error_of_arm it.d .asRef v hv hen ⟨.transparentShape, by simp [armOf, asRefArm, ht, ha]⟩
    simp [shapeErr, this]

/-- R6: `default` (without to_string) on an enabled variant without exactly one field, for Display -/
theorem rejects_default_shape_display (it : RawItem) (v : Variant) (hv : v ∈ it.d.variants) (hen : v.disabled = false)
    (ht : v.transparent = false) (hd : v.isDefault = true) (hts : v.toStr = none) (ha : v.fields.arity ≠ 1) :
    validate .display it = .reject := by
  apply shape_rejects
  have := genNames_error_of_arm it.d .display v hv hen ⟨.defaultShape, by simp [armOf, displayArm, ht, hd, hts, ha]⟩
  simp [shapeErr, this]

/-- R7: placeholders on an enabled unit variant, for Display -/
theorem rejects_unit_placeholder (it : RawItem) (v : Variant) (hv : v ∈ it.d.variants) (hen : v.disabled = false)
    (hf : v.fields = .unit) (ht : v.transparent = false) (hd : v.isDefault = false) (used : List Bytes)
    (hc : captureFormatStrings (canonical it.d v) = .ok used) (hne : used ≠ []) :
    validate .display it = .reject := by
  apply shape_rejects
  have := genNames_error_of_arm it.d .display v hv hen
    ⟨.unitPlaceholder, by simp only [armOf]; exact unit_placeholder_rejected it.d v hf ht hd used hc hne⟩
  simp [shapeErr, this]

/-- R10: a property literal that is not a string, integer or bool on an enabled variant, for EnumProperty -/
theorem rejects_prop_literal (it : RawItem) (h : badPropLit it = true) : validate .enumProperty it = .reject := by
  apply shape_rejects; simp [shapeErr, h]

/-- which derives consume type-level / variant-level attributes (the applicability matrix) -/
theorem reads_type_props_iff (dv : Derive) :
    dv.readsTypeProps = true ↔ dv ≠ .fromRepr ∧ dv ≠ .enumIs ∧ dv ≠ .enumTryAs ∧ dv ≠ .enumTable := by
  cases dv <;> simp [Derive.readsTypeProps]

theorem reads_variant_props_iff (dv : Derive) :
    dv.readsVariantProps = true ↔ dv ≠ .variantArray ∧ dv ≠ .enumDiscriminants := by
  cases dv <;> simp [Derive.readsVariantProps]

/-! ### regression witnesses for F6 / F7 (pinned behaviour) -/
def f6Item : RawItem :=
  { kind := .enum, lifetimes := 0, enumAttrs := [], discAttrs := [], varAttrs := [[.props [.float]]], fieldDw := [[]],
    d := { variants := [{ ident := [65] }] } }
def f7Item : RawItem :=
  { kind := .enum, lifetimes := 0, enumAttrs := [], discAttrs := [], varAttrs := [[.disabled, .disabled], []], fieldDw := [[], []],
    d := { variants := [{ ident := [65], disabled := true }, { ident := [66] }] } }

theorem pinned_prop_literal_panics : validatePinned .enumProperty f6Item = .panic := by decide
theorem pinned_enum_is_swallows : validatePinned .enumIs f7Item = .accept ∧ validatePinned .enumTryAs f7Item = .accept := by decide
example : validate .enumProperty f6Item = .reject := by decide
example : validate .enumIs f7Item = .reject ∧ validate .enumTryAs f7Item = .reject := by decide
/-- a concrete in-domain item for `accepts_domain` -/
example : validate .enumString { f7Item with varAttrs := [[.disabled], []] } = .accept := by decide

end Strum
