import StrumProofs.C01
import StrumProofs.C17
import StrumProofs.Collect
import StrumProofs.Source
import StrumProofs.Agree
/-
C20 — unsupported input gets a compile error, never a macro panic or silent acceptance.
Model: `validate` (StrumModel/Validate.lean).  Each rejection rule of the property is a predicate on the
raw item; `rejects_*` shows that every derive the rule applies to rejects the item; `never_panics` and
`accepts_domain` close the other two sides.
-/
namespace Strum

theorem validate_reject_iff (dv : Derive) (it : RawItem) :
    validate dv it = .reject ↔
      (it.kind ≠ .enum ∨ (dv.readsTypeProps = true ∧ typeErr it = true) ∨
       (dv.readsVariantProps = true ∧ anyVarAttrErr it = true) ∨ shapeErr dv it = true) := by
  unfold validate
  by_cases h1 : it.kind = .enum
  · by_cases h2 : (dv.readsTypeProps && typeErr it) = true
    · simp only [h1, bne_self_eq_false, Bool.false_eq_true, ↓reduceIte, h2]
      simp only [Bool.and_eq_true] at h2
      simp [h2]
    · by_cases h3 : (dv.readsVariantProps && anyVarAttrErr it) = true
      · simp only [h1, bne_self_eq_false, Bool.false_eq_true, ↓reduceIte, h2, h3]
        simp only [Bool.and_eq_true] at h3
        simp [h3]
      · by_cases h4 : shapeErr dv it = true
        · simp [h1, h2, h3, h4]
        · simp only [Bool.and_eq_true] at h2 h3
          simp [h1, h2, h3, h4]
  · have : (it.kind != ItemKind.enum) = true := by simpa using h1
    simp [this, h1]

/-- **The macro never panics** (after the F6 repair no code path of any derive can). -/
theorem never_panics (dv : Derive) (it : RawItem) : validate dv it ≠ .panic := by
  unfold validate
  split
  · simp
  · split
    · simp
    · split
      · simp
      · split <;> simp

/-- **In-domain input is accepted**: an enum with well-formed attributes in the derive's shape. -/
theorem accepts_domain (dv : Derive) (it : RawItem) (hk : it.kind = .enum)
    (ht : dv.readsTypeProps = true → typeErr it = false)
    (hv : dv.readsVariantProps = true → anyVarAttrErr it = false) (hs : shapeErr dv it = false) :
    validate dv it = .accept := by
  unfold validate
  have h2 : (dv.readsTypeProps && typeErr it) = false := by
    cases h : dv.readsTypeProps <;> simp [ht, h]
  have h3 : (dv.readsVariantProps && anyVarAttrErr it) = false := by
    cases h : dv.readsVariantProps <;> simp [hv, h]
  simp [hk, h2, h3, hs]

/-! ### the rejection rules -/

/-- R1: a struct or a union -/
theorem rejects_non_enum (dv : Derive) (it : RawItem) (h : it.kind ≠ .enum) : validate dv it = .reject :=
  (validate_reject_iff dv it).2 (Or.inl h)

/-- R4 (enum level) and R8: a repeated single-use enum attribute, or an unknown `serialize_all` style -/
theorem rejects_enum_attr (dv : Derive) (hdv : dv.readsTypeProps = true) (it : RawItem)
    (h : (∃ a ∈ it.enumAttrs, 2 ≤ countP (EnumAttr.sameKind a) it.enumAttrs) ∨ EnumAttr.serializeAll false ∈ it.enumAttrs ∨
         2 ≤ countP (· == DiscAttr.name) it.discAttrs ∨ 2 ≤ countP (· == DiscAttr.vis) it.discAttrs) :
    validate dv it = .reject := by
  apply (validate_reject_iff dv it).2
  refine Or.inr (Or.inl ⟨hdv, ?_⟩)
  unfold typeErr
  simp only [Bool.or_eq_true, List.any_eq_true, decide_eq_true_eq]
  rcases h with ⟨a, ha, hc⟩ | h | h | h
  · exact Or.inl (Or.inl (Or.inr ⟨a, ha, hc⟩))
  · exact Or.inl (Or.inl (Or.inl ⟨_, h, by simp⟩))
  · exact Or.inl (Or.inr h)
  · exact Or.inr h

/-- R4 (variant level): a single-use variant attribute given twice, on any variant (disabled or not) -/
theorem rejects_variant_attr (dv : Derive) (hdv : dv.readsVariantProps = true) (it : RawItem)
    (h : ∃ attrs ∈ it.varAttrs, ∃ a ∈ attrs, a.singleUse = true ∧ 2 ≤ countP (VarAttr.sameKind a) attrs) :
    validate dv it = .reject := by
  apply (validate_reject_iff dv it).2
  refine Or.inr (Or.inr (Or.inl ⟨hdv, ?_⟩))
  obtain ⟨attrs, hm, a, ha, hs, hc⟩ := h
  unfold anyVarAttrErr varAttrErr
  simp only [List.any_eq_true, Bool.and_eq_true, decide_eq_true_eq]
  exact ⟨attrs, hm, a, ha, hs, hc⟩

theorem shape_rejects (dv : Derive) (it : RawItem) (h : shapeErr dv it = true) : validate dv it = .reject :=
  (validate_reject_iff dv it).2 (Or.inr (Or.inr (Or.inr h)))

/-- R3: a lifetime parameter, for EnumIter / FromRepr / EnumTable -/
theorem rejects_lifetime (dv : Derive) (hdv : dv = .enumIter ∨ dv = .fromRepr ∨ dv = .enumTable) (it : RawItem)
    (h : 0 < it.lifetimes) : validate dv it = .reject := by
  apply shape_rejects
  rcases hdv with rfl | rfl | rfl <;> simp [shapeErr, h]

/-- R2: a data-carrying variant, for VariantArray (any variant) -/
theorem rejects_data_variant_array (it : RawItem) (v : Variant) (hv : v ∈ it.d.variants) (hf : v.fields ≠ .unit) :
    validate .variantArray it = .reject := by
  apply shape_rejects
  simp only [shapeErr, Option.isNone_iff_eq_none]
  unfold variantArray
  split
  · next hall =>
    have := List.all_eq_true.1 hall v hv
    simp at this; exact absurd this hf
  · rfl

/-- R2: an enabled data-carrying variant, for EnumTable -/
theorem rejects_data_variant_table (it : RawItem) (v : Variant) (hv : v ∈ it.d.variants) (hen : v.disabled = false)
    (hf : v.fields ≠ .unit) : validate .enumTable it = .reject := by
  apply shape_rejects
  have : it.d.enabled.any (fun v => v.fields != .unit) = true := by
    simp only [List.any_eq_true, bne_iff_ne, ne_eq]
    exact ⟨v, by unfold EnumDef.enabled; simp [hv, hen], hf⟩
  simp [shapeErr, genTable, this, isOkE]

/-- R4 (field level): `default_with` twice on a named field of a candidate variant, for EnumString -/
theorem rejects_field_default_with (it : RawItem) (h : fieldDwErr it = true) : validate .enumString it = .reject := by
  apply shape_rejects; simp [shapeErr, h]

/-- R9: only one of `parse_err_ty` / `parse_err_fn`, for EnumString -/
theorem rejects_half_parse_err (it : RawItem) (h : parseErrHalf it = true) : validate .enumString it = .reject := by
  apply shape_rejects; simp [shapeErr, h]

/-- R5 / R6: two enabled default variants, or a default variant without exactly one field, for EnumString -/
theorem rejects_defaults (it : RawItem)
    (h : 2 ≤ it.d.defaults.length ∨ ∃ v ∈ it.d.defaults, v.fields.arity ≠ 1) : validate .enumString it = .reject := by
  apply shape_rejects
  have hd : ({ it.d with usePhf := false } : EnumDef).defaults = it.d.defaults := rfl
  have : isOkE (genFromStr { it.d with usePhf := false }) = false := by
    rw [genFromStr_nophf _ rfl, hd]
    cases hl : it.d.defaults with
    | nil => rw [hl] at h; simp at h
    | cons v rest =>
      cases rest with
      | nil =>
        rw [hl] at h
        rcases h with h | ⟨w, hw, hne⟩
        · simp at h
        · simp only [List.mem_singleton] at hw; subst hw; simp [hne, isOkE]
      | cons w rest' => rfl
  simp [shapeErr, this]

theorem mapExcept_error_of_mem {α β ε : Type} (f : α → Except ε β) (l : List α) (a : α) (ha : a ∈ l)
    (he : ∃ e, f a = .error e) : ∃ e, mapExcept f l = .error e := by
  induction l with
  | nil => simp at ha
  | cons x xs ih =>
    simp only [List.mem_cons] at ha
    simp only [mapExcept]
    cases hx : f x with
    | error e => exact ⟨e, rfl⟩
    | ok b =>
      rcases ha with rfl | ha
      · obtain ⟨e, he⟩ := he; rw [he] at hx; cases hx
      · obtain ⟨e, he'⟩ := ih ha
        exact ⟨e, by simp [he']⟩

theorem genNames_error_of_arm (d : EnumDef) (dv : NameDerive) (v : Variant) (hv : v ∈ d.variants)
    (hen : v.disabled = false) (he : ∃ e, armOf d dv v = .error e) : isOkE (genNames d dv) = false := by
  have hm : v ∈ d.enabled := by unfold EnumDef.enabled; simp [hv, hen]
  obtain ⟨e, hee⟩ := mapExcept_error_of_mem (fun v => (armOf d dv v).map (fun a => (v.ident, a))) d.enabled v hm
    (by obtain ⟨e, he⟩ := he; exact ⟨e, by simp [he, Except.map]⟩)
  unfold genNames; rw [hee]; rfl

/-- R6: `transparent` on an enabled variant without exactly one field, for Display / AsRefStr / IntoStaticStr / AsStaticStr -/
theorem rejects_transparent_shape (dv : Derive)
    (hdv : dv = .display ∨ dv = .asRefStr ∨ dv = .intoStaticStr ∨ dv = .asStaticStr) (it : RawItem)
    (v : Variant) (hv : v ∈ it.d.variants) (hen : v.disabled = false) (ht : v.transparent = true)
    (ha : v.fields.arity ≠ 1) : validate dv it = .reject := by
  apply shape_rejects
  rcases hdv with rfl | rfl | rfl | rfl
  · have := genNames_error_of_arm it.d .display v hv hen ⟨.transparentShape, by simp [armOf, displayArm, ht, ha]⟩
    simp [shapeErr, this]
  all_goals
    have := genNames_error_of_arm it.d .asRef v hv hen ⟨.transparentShape, by simp [armOf, asRefArm, ht, ha]⟩
    simp [shapeErr, this]

/-- R6: `default` (without to_string) on an enabled variant without exactly one field, for Display -/
theorem rejects_default_shape_display (it : RawItem) (v : Variant) (hv : v ∈ it.d.variants) (hen : v.disabled = false)
    (ht : v.transparent = false) (hd : v.isDefault = true) (hts : v.toStr = none) (ha : v.fields.arity ≠ 1) :
    validate .display it = .reject := by
  apply shape_rejects
  have := genNames_error_of_arm it.d .display v hv hen ⟨.defaultShape, by simp [armOf, displayArm, ht, hd, hts, ha]⟩
  simp [shapeErr, this]

/-- R7: placeholders on an enabled unit variant, for Display -/
theorem rejects_unit_placeholder (it : RawItem) (v : Variant) (hv : v ∈ it.d.variants) (hen : v.disabled = false)
    (hf : v.fields = .unit) (ht : v.transparent = false) (hd : v.isDefault = false) (used : List Bytes)
    (hc : captureFormatStrings (canonical it.d v) = .ok used) (hne : used ≠ []) :
    validate .display it = .reject := by
  apply shape_rejects
  have := genNames_error_of_arm it.d .display v hv hen
    ⟨.unitPlaceholder, by simp only [armOf]; exact unit_placeholder_rejected it.d v hf ht hd used hc hne⟩
  simp [shapeErr, this]

/-- R10: a property literal that is not a string, integer or bool on an enabled variant, for EnumProperty -/
theorem rejects_prop_literal (it : RawItem) (h : badPropLit it = true) : validate .enumProperty it = .reject := by
  apply shape_rejects; simp [shapeErr, h]

/-- which derives consume type-level / variant-level attributes (the applicability matrix) -/
theorem reads_type_props_iff (dv : Derive) :
    dv.readsTypeProps = true ↔ dv ≠ .fromRepr ∧ dv ≠ .enumIs ∧ dv ≠ .enumTryAs ∧ dv ≠ .enumTable := by
  cases dv <;> simp [Derive.readsTypeProps]

theorem reads_variant_props_iff (dv : Derive) :
    dv.readsVariantProps = true ↔ dv ≠ .variantArray ∧ dv ≠ .enumDiscriminants := by
  cases dv <;> simp [Derive.readsVariantProps]

/-! ### regression witnesses for F6 / F7 (pinned behaviour) -/
def f6Item : RawItem :=
  { kind := .enum, lifetimes := 0, enumAttrs := [], discAttrs := [], varAttrs := [[.props [.float]]], fieldDw := [[]],
    d := { variants := [{ ident := [65] }] } }
def f7Item : RawItem :=
  { kind := .enum, lifetimes := 0, enumAttrs := [], discAttrs := [], varAttrs := [[.disabled, .disabled], []], fieldDw := [[], []],
    d := { variants := [{ ident := [65], disabled := true }, { ident := [66] }] } }

theorem pinned_prop_literal_panics : validatePinned .enumProperty f6Item = .panic := by decide
theorem pinned_enum_is_swallows : validatePinned .enumIs f7Item = .accept ∧ validatePinned .enumTryAs f7Item = .accept := by decide
example : validate .enumProperty f6Item = .reject := by decide
example : validate .enumIs f7Item = .reject ∧ validate .enumTryAs f7Item = .reject := by decide
/-- a concrete in-domain item for `accepts_domain` -/
example : validate .enumString { f7Item with varAttrs := [[.disabled], []] } = .accept := by decide

end Strum

namespace Strum

/-! ### the rule × derive matrix as one statement -/

/-- the rejection rules of the property -/
inductive Rule
  | nonEnum            -- R1 struct / union
  | dataVariant        -- R2 data-carrying variant
  | lifetime           -- R3 lifetime parameter
  | repeatedEnumAttr   -- R4 repeated single-use attribute, enum level (incl. strum_discriminants name / vis)
  | repeatedVarAttr    -- R4 repeated single-use attribute, variant level
  | repeatedFieldAttr  -- R4 repeated default_with on a named field
  | twoDefaults        -- R5
  | defaultShape       -- R6 default on a variant without exactly one field
  | transparentShape   -- R6 transparent on a variant without exactly one field
  | unitPlaceholder    -- R7
  | unknownStyle       -- R8
  | halfParseErr       -- R9
  | propLiteral        -- R10
  deriving DecidableEq, Repr

/-- which derives a rule applies to: those that consume the attribute or shape concerned -/
def applies : Rule → Derive → Bool
  | .nonEnum, _ => true
  | .dataVariant, dv => dv == .variantArray || dv == .enumTable
  | .lifetime, dv => dv == .enumIter || dv == .fromRepr || dv == .enumTable
  | .repeatedEnumAttr, dv => dv.readsTypeProps
  | .unknownStyle, dv => dv.readsTypeProps
  | .repeatedVarAttr, dv => dv.readsVariantProps
  | .repeatedFieldAttr, dv => dv == .enumString
  | .twoDefaults, dv => dv == .enumString
  | .halfParseErr, dv => dv == .enumString
  | .defaultShape, dv => dv == .enumString || dv == .display
  | .transparentShape, dv => dv == .display || dv == .asRefStr || dv == .intoStaticStr || dv == .asStaticStr
  | .unitPlaceholder, dv => dv == .display
  | .propLiteral, dv => dv == .enumProperty

/-- what it means for an item to fall under a rule (for the derive in question) -/
def RuleHolds : Rule → Derive → RawItem → Prop
  | .nonEnum, _, it => it.kind ≠ .enum
  | .dataVariant, dv, it =>
    if dv = .variantArray then ∃ v ∈ it.d.variants, v.fields ≠ .unit
    else ∃ v ∈ it.d.variants, v.disabled = false ∧ v.fields ≠ .unit
  | .lifetime, _, it => 0 < it.lifetimes
  | .repeatedEnumAttr, _, it =>
    (∃ a ∈ it.enumAttrs, 2 ≤ countP (EnumAttr.sameKind a) it.enumAttrs) ∨
    2 ≤ countP (· == DiscAttr.name) it.discAttrs ∨ 2 ≤ countP (· == DiscAttr.vis) it.discAttrs
  | .unknownStyle, _, it => EnumAttr.serializeAll false ∈ it.enumAttrs
  | .repeatedVarAttr, _, it => ∃ attrs ∈ it.varAttrs, ∃ a ∈ attrs, a.singleUse = true ∧ 2 ≤ countP (VarAttr.sameKind a) attrs
  | .repeatedFieldAttr, _, it => fieldDwErr it = true
  | .twoDefaults, _, it => 2 ≤ it.d.defaults.length
  | .halfParseErr, _, it => parseErrHalf it = true
  | .defaultShape, dv, it =>
    if dv = .enumString then ∃ v ∈ it.d.defaults, v.fields.arity ≠ 1
    else ∃ v ∈ it.d.variants, v.disabled = false ∧ v.transparent = false ∧ v.isDefault = true ∧ v.toStr = none ∧ v.fields.arity ≠ 1
  | .transparentShape, _, it => ∃ v ∈ it.d.variants, v.disabled = false ∧ v.transparent = true ∧ v.fields.arity ≠ 1
  | .unitPlaceholder, _, it =>
    ∃ v ∈ it.d.variants, v.disabled = false ∧ v.fields = .unit ∧ v.transparent = false ∧ v.isDefault = false ∧
      ∃ used, captureFormatStrings (canonical it.d v) = .ok used ∧ used ≠ []
  | .propLiteral, _, it => badPropLit it = true

/-- **Every rejection rule, instantiated on every derive it applies to, yields a compile error.** -/
theorem rejects (r : Rule) (dv : Derive) (ha : applies r dv = true) (it : RawItem) (hr : RuleHolds r dv it) :
    validate dv it = .reject := by
  cases r with
  | nonEnum => exact rejects_non_enum dv it hr
  | dataVariant =>
    simp only [applies, Bool.or_eq_true, beq_iff_eq] at ha
    rcases ha with rfl | rfl
    · simp only [RuleHolds, ↓reduceIte] at hr
      obtain ⟨v, hv, hf⟩ := hr
      exact rejects_data_variant_array it v hv hf
    · simp only [RuleHolds, reduceCtorEq, ↓reduceIte] at hr
      obtain ⟨v, hv, hen, hf⟩ := hr
      exact rejects_data_variant_table it v hv hen hf
  | lifetime =>
    simp only [applies, Bool.or_eq_true, beq_iff_eq] at ha
    exact rejects_lifetime dv (by rcases ha with (h | h) | h <;> simp [h]) it hr
  | repeatedEnumAttr =>
    rcases hr with h | h | h
    · exact rejects_enum_attr dv ha it (Or.inl h)
    · exact rejects_enum_attr dv ha it (Or.inr (Or.inr (Or.inl h)))
    · exact rejects_enum_attr dv ha it (Or.inr (Or.inr (Or.inr h)))
  | unknownStyle => exact rejects_enum_attr dv ha it (Or.inr (Or.inl hr))
  | repeatedVarAttr => exact rejects_variant_attr dv ha it hr
  | repeatedFieldAttr =>
    simp only [applies, beq_iff_eq] at ha; subst ha
    exact rejects_field_default_with it hr
  | twoDefaults =>
    simp only [applies, beq_iff_eq] at ha; subst ha
    exact rejects_defaults it (Or.inl hr)
  | halfParseErr =>
    simp only [applies, beq_iff_eq] at ha; subst ha
    exact rejects_half_parse_err it hr
  | defaultShape =>
    simp only [applies, Bool.or_eq_true, beq_iff_eq] at ha
    rcases ha with rfl | rfl
    · simp only [RuleHolds, ↓reduceIte] at hr
      exact rejects_defaults it (Or.inr hr)
    · simp only [RuleHolds, reduceCtorEq, ↓reduceIte] at hr
      obtain ⟨v, hv, hen, ht, hd, hts, har⟩ := hr
      exact rejects_default_shape_display it v hv hen ht hd hts har
  | transparentShape =>
    simp only [applies, Bool.or_eq_true, beq_iff_eq] at ha
    obtain ⟨v, hv, hen, ht, har⟩ := hr
    exact rejects_transparent_shape dv (by rcases ha with ((h | h) | h) | h <;> simp [h]) it v hv hen ht har
  | unitPlaceholder =>
    simp only [applies, beq_iff_eq] at ha; subst ha
    obtain ⟨v, hv, hen, hf, ht, hd, used, hc, hne⟩ := hr
    exact rejects_unit_placeholder it v hv hen hf ht hd used hc hne
  | propLiteral =>
    simp only [applies, beq_iff_eq] at ha; subst ha
    exact rejects_prop_literal it hr

end Strum
