import StrumProofs.Collect
import StrumModel.Source
/-
From the enum AS WRITTEN to the enum every generator works on: `collectAll` (the loops of `get_type_properties` and
`get_variant_properties`, with their occurrence state) succeeds exactly on collectable sources and then equals the
declarative reading `RawSource.declared` - so every property theorem stated over `EnumDef` holds of the source text's
attribute lists, variant by variant, in declaration order.
-/
namespace Strum

/-! ### generic fold facts -/

theorem foldl_get_last {S I β : Type} (ap : S → I → S) (get : S → Option β) (g : I → Option β)
    (hset : ∀ s it, get (ap s it) = (g it).or (get s)) (its : List I) (s : S) :
    get (its.foldl ap s) = ((its.filterMap g).getLast?).or (get s) := by
  induction its generalizing s with
  | nil => simp
  | cons it its ih =>
    rw [List.foldl_cons, ih, hset, List.filterMap_cons]
    cases hg : g it with
    | none => simp
    | some b =>
      rw [List.getLast?_cons]
      cases (List.filterMap g its).getLast? <;> simp

theorem foldl_get_lastD {S I β : Type} (ap : S → I → S) (get : S → β) (g : I → Option β)
    (hset : ∀ s it, get (ap s it) = (g it).getD (get s)) (its : List I) (s : S) :
    get (its.foldl ap s) = ((its.filterMap g).getLast?).getD (get s) := by
  induction its generalizing s with
  | nil => simp
  | cons it its ih =>
    rw [List.foldl_cons, ih, hset, List.filterMap_cons]
    cases hg : g it with
    | none => simp
    | some b =>
      rw [List.getLast?_cons]
      cases (List.filterMap g its).getLast? <;> simp

theorem lastOf_style (its : List EItem) :
    ((its.filterMap (fun it => (EItem.style? it).map parseStyle)).getLast?).getD none =
      (lastOf EItem.style? its).bind parseStyle := by
  unfold lastOf
  rw [← List.map_filterMap, List.getLast?_map]
  cases (List.filterMap EItem.style? its).getLast? <;> simp

theorem foldl_get_flag {S I : Type} (ap : S → I → S) (get : S → Bool) (p : I → Bool)
    (hset : ∀ s it, get (ap s it) = (get s || p it)) (its : List I) (s : S) :
    get (its.foldl ap s) = (get s || its.any p) := by
  induction its generalizing s with
  | nil => simp
  | cons it its ih => rw [List.foldl_cons, ih, hset, List.any_cons, Bool.or_assoc]

theorem foldl_get_frame {S I β : Type} (ap : S → I → S) (get : S → β)
    (hset : ∀ s it, get (ap s it) = get s) (its : List I) (s : S) :
    get (its.foldl ap s) = get s := by
  induction its generalizing s with
  | nil => rfl
  | cons it its ih => rw [List.foldl_cons, ih, hset]

/-! ### variant level -/

/-- **the loop computes the declarative reading** -/
theorem fold_eq_declared (r : RawVariant) :
    r.attrs.flatten.foldl applyItem (baseVariant r) = r.declared := by
  have e1 := foldl_get_last applyItem Variant.toStr VItem.toStr?
    (by intro v it; cases it <;> rfl) r.attrs.flatten (baseVariant r)
  have e2 := foldl_get_last applyItem Variant.ci VItem.ci?
    (by intro v it; cases it <;> rfl) r.attrs.flatten (baseVariant r)
  have e3 := foldl_get_last applyItem Variant.message VItem.message?
    (by intro v it; cases it <;> rfl) r.attrs.flatten (baseVariant r)
  have e4 := foldl_get_last applyItem Variant.detailed VItem.detailed?
    (by intro v it; cases it <;> rfl) r.attrs.flatten (baseVariant r)
  have e5 := foldl_get_last applyItem Variant.defaultWith VItem.defaultWith?
    (by intro v it; cases it <;> rfl) r.attrs.flatten (baseVariant r)
  have f1 := foldl_get_flag applyItem Variant.disabled (· == .disabled)
    (by intro v it; cases it <;> simp [applyItem]) r.attrs.flatten (baseVariant r)
  have f2 := foldl_get_flag applyItem Variant.isDefault (· == .default)
    (by intro v it; cases it <;> simp [applyItem]) r.attrs.flatten (baseVariant r)
  have f3 := foldl_get_flag applyItem Variant.transparent (· == .transparent)
    (by intro v it; cases it <;> simp [applyItem]) r.attrs.flatten (baseVariant r)
  have s1 := fold_serialize r.attrs.flatten (baseVariant r)
  have s2 := fold_props r.attrs.flatten (baseVariant r)
  obtain ⟨g1, g2, g3, g4⟩ := fold_frame r.attrs.flatten (baseVariant r)
  unfold RawVariant.declared lastOf
  generalize r.attrs.flatten = its at *
  generalize its.foldl applyItem (baseVariant r) = v at *
  cases v
  simp only [baseVariant, List.nil_append, Bool.false_or, Option.or_none] at *
  simp only [Variant.mk.injEq]
  exact ⟨g1, g2, g3, s1, e1, f1, f2, f3, e2, e5, e3, e4, g4, s2⟩

/-- **`get_variant_properties` succeeds iff no single-use item is written twice, and then yields the declarative reading** -/
theorem collectVariant_declared (r : RawVariant) (h : (kindsOf r.attrs.flatten).Nodup) :
    collectVariant r = .ok r.declared := by
  rw [collectVariant_ok r h, fold_eq_declared]

theorem collectVariant_ok_imp (r : RawVariant) (v : Variant) (h : collectVariant r = .ok v) :
    (kindsOf r.attrs.flatten).Nodup ∧ v = r.declared := by
  by_cases hn : (kindsOf r.attrs.flatten).Nodup
  · rw [collectVariant_declared r hn] at h
    exact ⟨hn, by cases h; rfl⟩
  · obtain ⟨k, hk⟩ := (collectVariant_error_iff r).mpr hn
    rw [hk] at h; cases h

/-! ### enum level -/

theorem efold_eq_declared (r : RawEnum) (vs : List Variant) :
    { (r.attrs.flatten.foldl applyEItem (baseEnum r vs)).d with
        customErr := (r.attrs.flatten.foldl applyEItem (baseEnum r vs)).hasTy &&
                     (r.attrs.flatten.foldl applyEItem (baseEnum r vs)).hasFn } = r.declared vs := by
  have e1 := foldl_get_lastD applyEItem (fun s => s.d.style) (fun it => (EItem.style? it).map parseStyle)
    (by intro s it; cases it <;> simp [applyEItem, EItem.style?]) r.attrs.flatten (baseEnum r vs)
  have hb : (baseEnum r vs).d.style = none := rfl
  rw [hb, lastOf_style] at e1
  have e2 := foldl_get_last applyEItem (fun s => s.d.pfx) EItem.pfx?
    (by intro s it; cases it <;> simp [applyEItem, EItem.pfx?]) r.attrs.flatten (baseEnum r vs)
  have f1 := foldl_get_flag applyEItem (fun s => s.d.ci) (· == .ci)
    (by intro s it; cases it <;> simp [applyEItem]) r.attrs.flatten (baseEnum r vs)
  have f2 := foldl_get_flag applyEItem (fun s => s.d.usePhf) (· == .usePhf)
    (by intro s it; cases it <;> simp [applyEItem]) r.attrs.flatten (baseEnum r vs)
  have f3 := foldl_get_flag applyEItem (fun s => s.d.constIntoStr) (· == .constIntoStr)
    (by intro s it; cases it <;> simp [applyEItem]) r.attrs.flatten (baseEnum r vs)
  have f4 := foldl_get_flag applyEItem (fun s => s.hasTy) (· == .parseErrTy)
    (by intro s it; cases it <;> simp [applyEItem]) r.attrs.flatten (baseEnum r vs)
  have f5 := foldl_get_flag applyEItem (fun s => s.hasFn) (· == .parseErrFn)
    (by intro s it; cases it <;> simp [applyEItem]) r.attrs.flatten (baseEnum r vs)
  have g1 := foldl_get_frame applyEItem (fun s => s.d.name) (by intro s it; cases it <;> rfl) r.attrs.flatten (baseEnum r vs)
  have g2 := foldl_get_frame applyEItem (fun s => s.d.reprAttrs) (by intro s it; cases it <;> rfl) r.attrs.flatten (baseEnum r vs)
  have g3 := foldl_get_frame applyEItem (fun s => s.d.discName) (by intro s it; cases it <;> rfl) r.attrs.flatten (baseEnum r vs)
  have g4 := foldl_get_frame applyEItem (fun s => s.d.discVis) (by intro s it; cases it <;> rfl) r.attrs.flatten (baseEnum r vs)
  have g5 := foldl_get_frame applyEItem (fun s => s.d.variants) (by intro s it; cases it <;> rfl) r.attrs.flatten (baseEnum r vs)
  unfold RawEnum.declared
  generalize r.attrs.flatten = its at *
  generalize its.foldl applyEItem (baseEnum r vs) = st at *
  obtain ⟨d, seen, hasTy, hasFn⟩ := st
  cases d
  simp only [baseEnum, Bool.false_or, Option.or_none] at *
  simp only [EnumDef.mk.injEq]
  exact ⟨g1, e1, f1, e2, f2, by rw [f4, f5], g2, f3, g5, g3, g4⟩

/-- **`get_type_properties` succeeds iff the style strings are known and no item is written twice, and then yields the
    declarative reading** -/
theorem collectEnum_declared (r : RawEnum) (vs : List Variant) (hs : r.attrs.flatten.all styleOk = true)
    (hn : (ekindsOf r.attrs.flatten).Nodup) : collectEnum r vs = .ok (r.declared vs) := by
  rw [collectEnum_eq, if_pos hs]
  cases hc : collectEItems (baseEnum r vs) r.attrs.flatten with
  | error e => exact absurd hn ((collectEItems_nodup_iff r vs).mp ⟨e, hc⟩)
  | ok st =>
    have := collectEItems_ok _ _ _ hc
    subst this
    simp only
    exact congrArg Except.ok (efold_eq_declared r vs)

theorem collectEnum_ok_imp (r : RawEnum) (vs : List Variant) (d : EnumDef) (h : collectEnum r vs = .ok d) :
    r.attrs.flatten.all styleOk = true ∧ (ekindsOf r.attrs.flatten).Nodup ∧ d = r.declared vs := by
  by_cases hok : r.attrs.flatten.all styleOk = true ∧ (ekindsOf r.attrs.flatten).Nodup
  · rw [collectEnum_declared r vs hok.1 hok.2] at h
    exact ⟨hok.1, hok.2, by cases h; rfl⟩
  · have : r.attrs.flatten.all styleOk = false ∨ ¬ (ekindsOf r.attrs.flatten).Nodup := by
      by_cases h1 : r.attrs.flatten.all styleOk = true
      · exact .inr (fun h2 => hok ⟨h1, h2⟩)
      · exact .inl (by simpa using h1)
    obtain ⟨e, he⟩ := (collectEnum_error_iff r vs).mpr this
    rw [he] at h; cases h

/-! ### the whole enum -/

theorem collectVariants_ok_iff (i : Nat) (rs : List RawVariant) (vs : List Variant) :
    collectVariants i rs = .ok vs ↔
      (∀ r ∈ rs, (kindsOf r.attrs.flatten).Nodup) ∧ vs = rs.map RawVariant.declared := by
  induction rs generalizing i vs with
  | nil => simp [collectVariants, eq_comm]
  | cons r rs ih =>
    simp only [collectVariants, List.mem_cons, forall_eq_or_imp, List.map_cons]
    by_cases hn : (kindsOf r.attrs.flatten).Nodup
    · rw [collectVariant_declared r hn]
      simp only
      cases hc : collectVariants (i + 1) rs with
      | error e =>
        simp only [reduceCtorEq, false_iff, not_and]
        intro ⟨_, hall⟩ hvs
        have := (ih (i + 1) (rs.map RawVariant.declared)).mpr ⟨hall, rfl⟩
        rw [hc] at this; cases this
      | ok ws =>
        obtain ⟨hall, hws⟩ := (ih (i + 1) ws).mp hc
        simp only [Except.ok.injEq]
        constructor
        · intro h; subst h; exact ⟨⟨hn, hall⟩, by rw [hws]⟩
        · intro ⟨_, h⟩; rw [h, hws]
    · obtain ⟨k, hk⟩ := (collectVariant_error_iff r).mpr hn
      rw [hk]
      simp only [reduceCtorEq, false_iff, not_and]
      intro ⟨h, _⟩; exact absurd h hn

/-- the first failing variant, in declaration order, is the one reported -/
theorem collectVariants_error (i : Nat) (rs : List RawVariant) (e : SourceErr) (h : collectVariants i rs = .error e) :
    ∃ j k, ∃ hj : j < rs.length, e = .variant (i + j) k ∧ collectVariant rs[j] = .error k ∧
      ∀ j' (hj' : j' < rs.length), j' < j → (kindsOf rs[j'].attrs.flatten).Nodup := by
  induction rs generalizing i with
  | nil => simp [collectVariants] at h
  | cons r rs ih =>
    simp only [collectVariants] at h
    cases hc : collectVariant r with
    | error k =>
      rw [hc] at h; simp only [Except.error.injEq] at h
      exact ⟨0, k, by simp, by simp [h], by simpa using hc, by intro j' _ hlt; omega⟩
    | ok v =>
      rw [hc] at h
      simp only at h
      cases hr : collectVariants (i + 1) rs with
      | ok ws => rw [hr] at h; cases h
      | error e' =>
        rw [hr] at h; simp only [Except.error.injEq] at h; subst h
        obtain ⟨j, k, hj, he, hk, hearlier⟩ := ih (i + 1) hr
        refine ⟨j + 1, k, by simp; omega, by rw [he]; congr 1; omega, by simpa using hk, ?_⟩
        intro j' hj' hlt
        cases j' with
        | zero => simpa using (collectVariant_ok_imp r v hc).1
        | succ j'' => simpa using hearlier j'' (by simp at hj'; omega) (by omega)

theorem collectable_iff (s : RawSource) :
    s.collectable = true ↔ s.hdr.attrs.flatten.all styleOk = true ∧ (ekindsOf s.hdr.attrs.flatten).Nodup ∧
      ∀ r ∈ s.variants, (kindsOf r.attrs.flatten).Nodup := by
  simp [RawSource.collectable, ekindsOf, kindsOf, and_assoc]

/-- **Collection = the declarative reading.**  The two loops with their occurrence state succeed exactly on collectable
    sources, and then produce `s.declared`: the enum-level properties read off the header, and one variant per written
    variant, in declaration order, each with the properties read off its own attribute lists. -/
theorem collectAll_ok_iff (s : RawSource) (d : EnumDef) :
    collectAll s = .ok d ↔ s.collectable = true ∧ d = s.declared := by
  rw [collectable_iff]
  unfold collectAll RawSource.declared
  constructor
  · intro h
    cases he : collectEnum s.hdr [] with
    | error e => rw [he] at h; cases h
    | ok d0 =>
      rw [he] at h; simp only at h
      cases hv : collectVariants 0 s.variants with
      | error e => rw [hv] at h; cases h
      | ok vs =>
        rw [hv] at h; simp only [Except.ok.injEq] at h
        obtain ⟨h1, h2, h3⟩ := collectEnum_ok_imp _ _ _ he
        obtain ⟨h4, h5⟩ := (collectVariants_ok_iff 0 _ _).mp hv
        refine ⟨⟨h1, h2, h4⟩, ?_⟩
        rw [← h, h3, h5]; rfl
  · rintro ⟨⟨h1, h2, h3⟩, rfl⟩
    rw [collectEnum_declared _ _ h1 h2, (collectVariants_ok_iff 0 _ _).mpr ⟨h3, rfl⟩]
    rfl

theorem collectAll_error_iff (s : RawSource) : (∃ e, collectAll s = .error e) ↔ s.collectable = false := by
  constructor
  · rintro ⟨e, he⟩
    cases hc : s.collectable with
    | false => rfl
    | true =>
      have := (collectAll_ok_iff s s.declared).mpr ⟨hc, rfl⟩
      rw [this] at he; cases he
  · intro hc
    cases h : collectAll s with
    | error e => exact ⟨e, rfl⟩
    | ok d => rw [((collectAll_ok_iff s d).mp h).1] at hc; cases hc

/-- enum-level errors are reported before any variant is looked at -/
theorem collectAll_enum_first (s : RawSource) (e : ECollectErr) (h : collectEnum s.hdr [] = .error e) :
    collectAll s = .error (.enum e) := by unfold collectAll; rw [h]

theorem readLines_fold (h : RawEnum) (rs : List RawVariant) (vs0 : List Variant)
    (hall : ∀ r ∈ rs, (kindsOf r.attrs.flatten).Nodup) :
    rs.foldl (fun acc r => acc.bind (addVariantLine · r)) (some (h.declared vs0)) =
      some (h.declared (vs0 ++ rs.map RawVariant.declared)) := by
  induction rs generalizing vs0 with
  | nil => simp
  | cons r rs ih =>
    have hr := collectVariant_declared r (hall r (by simp))
    have step : addVariantLine (h.declared vs0) r = some (h.declared (vs0 ++ [r.declared])) := by
      unfold addVariantLine; rw [hr]; rfl
    rw [List.foldl_cons]
    show rs.foldl _ (addVariantLine (h.declared vs0) r) = _
    rw [step, ih _ (fun r' hr' => hall r' (by simp [hr']))]
    simp

/-- **the driver's line-by-line reading is `collectAll`** on every source that collects -/
theorem readLines_eq (s : RawSource) (d : EnumDef) (h : collectAll s = .ok d) : readLines s = some d := by
  obtain ⟨hc, rfl⟩ := (collectAll_ok_iff s d).mp h
  obtain ⟨h1, h2, h3⟩ := (collectable_iff s).mp hc
  unfold readLines
  rw [collectEnum_declared _ _ h1 h2]
  simp only [Except.toOption]
  rw [readLines_fold _ _ _ h3]
  rfl

/-! ### the written variants, in declaration order

Everything below is stated about `s.declared`, which `collectAll_ok_iff` shows to be what the derives work on. -/

/-- one collected variant per written variant, in declaration order, with the written identifier -/
theorem source_idents (s : RawSource) : s.declared.variants.map (·.ident) = s.variants.map (·.ident) := by
  simp [RawSource.declared, RawEnum.declared, RawVariant.declared, Function.comp_def]

theorem source_length (s : RawSource) : s.declared.variants.length = s.variants.length := by
  simp [RawSource.declared, RawEnum.declared]

theorem source_enabled (s : RawSource) :
    s.declared.enabled = (s.variants.filter (fun r => !r.isDisabled)).map RawVariant.declared := by
  simp only [EnumDef.enabled, RawSource.declared, RawEnum.declared, List.filter_map]
  rfl

/-- the candidates are the written variants without `disabled` and without `default`, in declaration order -/
theorem source_candidates (s : RawSource) :
    s.declared.candidates = (s.variants.filter (fun r => !r.isDisabled && !r.attrs.flatten.any (· == .default))).map
      RawVariant.declared := by
  simp only [EnumDef.candidates, RawSource.declared, RawEnum.declared, List.filter_map]
  rfl

theorem source_mem (s : RawSource) (r : RawVariant) (hr : r ∈ s.variants) : r.declared ∈ s.declared.variants := by
  simp only [RawSource.declared, RawEnum.declared]
  exact List.mem_map.mpr ⟨r, hr, rfl⟩

theorem source_nodup (s : RawSource) (hid : (s.variants.map (·.ident)).Nodup) :
    (s.declared.variants.map (·.ident)).Nodup := by rw [source_idents]; exact hid

theorem declared_disabled (r : RawVariant) : r.declared.disabled = r.isDisabled := rfl

/-! ### non-vacuity -/

def exampleSource : RawSource :=
  { hdr := { name := [69], attrs := [[.serializeAll "snake_case"], [.ci, .pfx [112]]] },
    variants := [
      { ident := [82, 101, 100], attrs := [[.serialize [114]], [.props [([107], .str [118])], .serialize [82, 82]]] },
      { ident := [79], fields := .tuple 1, attrs := [[.default]] },
      { ident := [88], attrs := [[.disabled, .toStr [120]]] } ] }

example : exampleSource.collectable = true := by decide
example : ∃ d, collectAll exampleSource = .ok d := ⟨_, (collectAll_ok_iff _ _).mpr ⟨by decide, rfl⟩⟩
example : exampleSource.declared.enabled.map (·.ident) = [[82, 101, 100], [79]] := by
  rw [source_enabled]; decide
/-- a source that does not collect: `to_string` twice on one variant -/
example : ({ hdr := {}, variants := [{ ident := [65], attrs := [[.toStr [97]], [.toStr [98]]] }] } : RawSource).collectable
    = false := by decide

end Strum
