import StrumModel
namespace Strum
theorem c12_placeholder : True := trivial
end Strum
