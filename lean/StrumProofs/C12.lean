import StrumProofs.C01
/-
C12 — ascii_case_insensitive folds ASCII letters only, only for the variants it covers.
Together with C01 (`parse_iff`, stated in terms of `accepts`) these give the property.
-/
namespace Strum

/-- which variants are case-insensitive: the variant's own flag wins, else the enum's -/
theorem ci_flag_spec (d : EnumDef) (v : Variant) :
    d.ciOf v = true ↔ (v.ci = some true ∨ (v.ci = none ∧ d.ci = true)) := by
  unfold EnumDef.ciOf
  cases h : v.ci with
  | none => simp
  | some b => cases b <;> simp

/-- byte level: folding identifies two bytes iff they are equal or are the two cases of one ASCII letter -/
theorem asciiLower_eq_iff (x y : Nat) :
    asciiLower x = asciiLower y ↔
      x = y ∨ (isLetter x = true ∧ isLetter y = true ∧ (x = y + 32 ∨ y = x + 32)) := by
  unfold asciiLower isLetter isUpper isLower
  by_cases hx : (65 ≤ x ∧ x ≤ 90) <;> by_cases hy : (65 ≤ y ∧ y ≤ 90) <;>
    simp [hx, hy] <;> omega

/-- bytes ≥ 0x80 (every byte of a non-ASCII character) and non-letters are never folded -/
theorem asciiLower_eq_of_nonletter (x y : Nat) (h : asciiLower x = asciiLower y)
    (hn : isLetter x = false ∨ isLetter y = false) : x = y := by
  rcases (asciiLower_eq_iff x y).1 h with h | ⟨h1, h2, _⟩
  · exact h
  · rcases hn with hn | hn <;> simp_all

theorem nonascii_not_letter (x : Nat) (h : 128 ≤ x) : isLetter x = false := by
  unfold isLetter isUpper isLower
  simp
  omega

/-- pointwise description of ASCII case folding -/
def FoldEq : Bytes → Bytes → Prop
  | [], [] => True
  | a :: as, b :: bs =>
    (a = b ∨ (isLetter a = true ∧ isLetter b = true ∧ (a = b + 32 ∨ b = a + 32))) ∧ FoldEq as bs
  | _, _ => False

/-- **`eq_ignore_ascii_case` = equal lengths and, position by position, equal bytes or the two cases
    of one ASCII letter.** -/
theorem eqIgnoreAsciiCase_iff_foldEq (a b : Bytes) : eqIgnoreAsciiCase a b = true ↔ FoldEq a b := by
  induction a generalizing b with
  | nil => cases b <;> simp [eqIgnoreAsciiCase, FoldEq]
  | cons x xs ih =>
    cases b with
    | nil => simp [eqIgnoreAsciiCase, FoldEq]
    | cons y ys =>
      simp only [eqIgnoreAsciiCase, FoldEq, Bool.and_eq_true, beq_iff_eq, ih, asciiLower_eq_iff]

/-- **non-ASCII bytes must match exactly**: wherever either side has a byte ≥ 0x80, the two strings
    agree at that position. -/
theorem non_ascii_exact (a b : Bytes) (h : eqIgnoreAsciiCase a b = true) (i : Nat)
    (ha : i < a.length) (hb : i < b.length) (hi : 128 ≤ a[i] ∨ 128 ≤ b[i]) : a[i] = b[i] := by
  have hm := (eqIgnoreAsciiCase_iff_map a b).1 h
  have : (a.map asciiLower)[i]'(by simpa using ha) = (b.map asciiLower)[i]'(by simpa using hb) := by
    simp only [hm]
  simp only [List.getElem_map] at this
  apply asciiLower_eq_of_nonletter _ _ this
  rcases hi with hi | hi
  · exact Or.inl (nonascii_not_letter _ hi)
  · exact Or.inr (nonascii_not_letter _ hi)

/-- a case-insensitive variant accepts exactly the inputs that fold to one of its spellings -/
theorem ci_accepts_iff (d : EnumDef) (v : Variant) (hci : d.ciOf v = true) (s : Bytes) :
    accepts d v s = true ↔ ∃ sp ∈ serializations d.style v, FoldEq s sp := by
  unfold accepts
  simp [hci, eqIgnoreAsciiCase_iff_foldEq]

/-- every other variant stays case-sensitive: it accepts exactly its spellings -/
theorem cs_accepts_iff (d : EnumDef) (v : Variant) (hcs : d.ciOf v = false) (s : Bytes) :
    accepts d v s = true ↔ s ∈ serializations d.style v := by
  unfold accepts
  simp [hcs]

/-- Unicode look-alikes whose *Unicode* case mapping is an ASCII letter (UTF-8 bytes):
    KELVIN SIGN vs k/K, LONG S vs s/S, DOTLESS I vs i/I, DOTTED CAPITAL I vs i/I, SHARP S vs ss/SS -/
def unicodeLookalikes : List (Bytes × Bytes) :=
  [([226, 132, 170], [107]), ([226, 132, 170], [75]),
   ([197, 191], [115]), ([197, 191], [83]),
   ([196, 177], [105]), ([196, 177], [73]),
   ([196, 176], [105]), ([196, 176], [73]),
   ([195, 159], [115, 115]), ([195, 159], [83, 83])]

/-- none of them matches under ASCII folding, in either direction (whole table, by evaluation) -/
theorem lookalikes_rejected :
    ∀ p ∈ unicodeLookalikes, eqIgnoreAsciiCase p.1 p.2 = false ∧ eqIgnoreAsciiCase p.2 p.1 = false := by
  decide

/-- a look-alike substituted for a letter inside a longer spelling is rejected as well: a non-ASCII
    byte on one side forces equality at that position -/
theorem nonascii_vs_ascii_rejected (a b : Bytes) (i : Nat) (ha : i < a.length) (hb : i < b.length)
    (h1 : 128 ≤ a[i]) (h2 : b[i] < 128) : eqIgnoreAsciiCase a b = false := by
  cases h : eqIgnoreAsciiCase a b with
  | false => rfl
  | true =>
    have := non_ascii_exact a b h i ha hb (Or.inl h1)
    omega

/-! non-vacuity -/
example : eqIgnoreAsciiCase [75, 105, 195, 159] [107, 73, 195, 159] = true := by decide
example : FoldEq [75, 105] [107, 73] := by simp [FoldEq, isLetter, isUpper, isLower]

/-- **at source level**: a written variant is matched case-insensitively iff its OWN `ascii_case_insensitive` item says so,
    or - when it has none - iff the enum header carries the flag; no other variant's items enter -/
theorem source_ci (s : RawSource) (r : RawVariant) :
    s.declared.ciOf r.declared =
      (match lastOf VItem.ci? r.attrs.flatten with
       | some b => b
       | none => s.hdr.attrs.flatten.any (· == .ci)) := rfl

end Strum
