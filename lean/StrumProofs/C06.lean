import StrumProofs.Lemmas.Bytes
/-
C06 — from_repr(d) is Some(V) iff d is the discriminant rustc gives enabled variant V.

Model: StrumModel/Repr.lean.  `rustcDiscr` is the reference's rule over ALL declared variants (validated
against `v as R` by the correspondence); `reprConstsFrom`/`reprArms`/`fromRepr` mirror from_repr.rs after
the F2 repair.  Discriminants are mathematical integers: rustc rejects enums whose discriminants do not
fit the repr type or collide (E0370 / E0081), and the generated `const K: R = K_prev + 1` items fail to
const-evaluate exactly when rustc's own numbering overflows, so in-range and `Nodup` describe exactly
the enums that compile.
-/
namespace Strum

/-- the generated constants are rustc's discriminants, variant by variant (disabled ones included) -/
theorem reprConsts_eq_zip (prev : Option Int) (vs : List Variant) :
    reprConstsFrom prev vs = vs.zip (discrFrom prev vs) := by
  induction vs generalizing prev with
  | nil => rfl
  | cons v vs ih => simp [reprConstsFrom, discrFrom, ih]

theorem discrFrom_length (prev : Option Int) (vs : List Variant) : (discrFrom prev vs).length = vs.length := by
  induction vs generalizing prev with
  | nil => rfl
  | cons v vs ih => simp [discrFrom, ih]

theorem rustcDiscr_length (d : EnumDef) : (rustcDiscr d).length = d.variants.length := discrFrom_length none _

/-- the reference's rule, spelled out: explicit value, else previous + 1, first 0 -/
theorem rustcDiscr_rule (d : EnumDef) (i : Nat) (hi : i < d.variants.length) :
    (rustcDiscr d)[i]'(by rw [rustcDiscr_length]; exact hi) =
      match d.variants[i].discr with
      | some e => e
      | none => if h0 : i = 0 then 0 else (rustcDiscr d)[i - 1]'(by rw [rustcDiscr_length]; omega) + 1 := by
  unfold rustcDiscr
  suffices H : ∀ (vs : List Variant) (prev : Option Int) (i : Nat) (hi : i < vs.length),
      (discrFrom prev vs)[i]'(by rw [discrFrom_length]; exact hi) =
        match vs[i].discr with
        | some e => e
        | none => if h0 : i = 0 then (match prev with | some p => p + 1 | none => 0)
                  else (discrFrom prev vs)[i - 1]'(by rw [discrFrom_length]; omega) + 1 by
    have := H d.variants none i hi
    simpa using this
  intro vs
  induction vs with
  | nil => intro prev i hi; simp at hi
  | cons v vs ih =>
    intro prev i hi
    cases i with
    | zero =>
      simp only [discrFrom, List.getElem_cons_zero, ↓reduceDIte]
      cases v.discr <;> cases prev <;> rfl
    | succ j =>
      have hj : j < vs.length := by simpa using hi
      simp only [discrFrom, List.getElem_cons_succ]
      rw [ih _ j hj]
      cases hd : vs[j].discr with
      | some e => rfl
      | none =>
        simp only
        cases j with
        | zero => simp
        | succ k => simp

theorem find_of_nodup_snd {α : Type} (l : List (α × Int)) (hnd : (l.map (·.2)).Nodup) (p : α × Int) (hp : p ∈ l) :
    l.find? (fun q => q.2 == p.2) = some p := by
  induction l with
  | nil => simp at hp
  | cons a as ih =>
    simp only [List.map_cons, List.nodup_cons, List.mem_map, not_exists, not_and] at hnd
    simp only [List.mem_cons] at hp
    rcases hp with rfl | hp
    · simp [List.find?]
    · have hne : (a.2 == p.2) = false := by
        have := hnd.1 p hp
        simp only [beq_eq_false_iff_ne, ne_eq]
        exact fun h => this h.symm
      simp only [List.find?, hne]
      exact ih hnd.2 hp

theorem nodup_filter_snd {α : Type} (l : List (α × Int)) (q : α × Int → Bool) (hnd : (l.map (·.2)).Nodup) :
    ((l.filter q).map (·.2)).Nodup := by
  induction l with
  | nil => simp
  | cons a as ih =>
    simp only [List.map_cons, List.nodup_cons, List.mem_map, not_exists, not_and] at hnd
    simp only [List.filter_cons]
    split
    · simp only [List.map_cons, List.nodup_cons, List.mem_map, List.mem_filter, not_exists, not_and]
      exact ⟨fun x hx => hnd.1 x hx.1, ih hnd.2⟩
    · exact ih hnd.2

theorem zip_snd_nodup (vs : List Variant) (ks : List Int) (h : vs.length = ks.length) (hnd : ks.Nodup) :
    ((vs.zip ks).map (·.2)).Nodup := by
  have : (vs.zip ks).map (·.2) = ks := by
    rw [← List.unzip_snd, List.unzip_zip (by omega)]
  rw [this]; exact hnd

/-- **Soundness.**  `from_repr(x) = Some(V)` only for an enabled variant `V` whose rustc discriminant is `x`,
    with every payload field defaulted. -/
theorem from_repr_sound (d : EnumDef) (x : Int) (r : Bytes × List FieldInit) (h : fromRepr d x = some r) :
    ∃ i, ∃ hi : i < d.variants.length, d.variants[i].disabled = false ∧
      (rustcDiscr d)[i]'(by rw [rustcDiscr_length]; exact hi) = x ∧
      r = (d.variants[i].ident, List.replicate d.variants[i].fields.arity .dflt) := by
  unfold fromRepr reprArms at h
  rw [reprConsts_eq_zip] at h
  simp only [Option.map_eq_some_iff] at h
  obtain ⟨p, hp, rfl⟩ := h
  have hmem := List.mem_of_find?_eq_some hp
  have hx : p.2 = x := by simpa using List.find?_some hp
  simp only [List.mem_filter, Bool.not_eq_eq_eq_not, Bool.not_true] at hmem
  obtain ⟨hz, hen⟩ := hmem
  obtain ⟨i, hi, hpi⟩ := List.getElem_of_mem hz
  simp only [List.length_zip, discrFrom_length, Nat.min_self] at hi
  refine ⟨i, hi, ?_, ?_, ?_⟩
  · rw [List.getElem_zip] at hpi; rw [← hpi] at hen; exact hen
  · rw [List.getElem_zip] at hpi; rw [← hx, ← hpi]; rfl
  · rw [List.getElem_zip] at hpi; rw [← hpi]

/-- **Completeness / round trip.**  For every enabled variant, `from_repr` of its rustc discriminant
    returns that variant (so `E::from_repr(v as R) == Some(v)` for field-less `v`). -/
theorem from_repr_complete (d : EnumDef) (hnd : (rustcDiscr d).Nodup) (i : Nat) (hi : i < d.variants.length)
    (hen : d.variants[i].disabled = false) :
    fromRepr d ((rustcDiscr d)[i]'(by rw [rustcDiscr_length]; exact hi)) =
      some (d.variants[i].ident, List.replicate d.variants[i].fields.arity .dflt) := by
  unfold fromRepr reprArms
  rw [reprConsts_eq_zip]
  have hlen : d.variants.length = (discrFrom none d.variants).length := (discrFrom_length _ _).symm
  have hz : ((d.variants.zip (discrFrom none d.variants)).map (·.2)).Nodup := zip_snd_nodup _ _ hlen hnd
  have hf := nodup_filter_snd _ (fun p => !p.1.disabled) hz
  have hmem : (d.variants[i], (rustcDiscr d)[i]'(by rw [rustcDiscr_length]; exact hi)) ∈
      (d.variants.zip (discrFrom none d.variants)).filter (fun p => !p.1.disabled) := by
    simp only [List.mem_filter, hen, Bool.not_false, and_true]
    have : (d.variants.zip (discrFrom none d.variants))[i]'(by simp [discrFrom_length]; exact hi) =
        (d.variants[i], (rustcDiscr d)[i]'(by rw [rustcDiscr_length]; exact hi)) := by
      rw [List.getElem_zip]; rfl
    rw [← this]; exact List.getElem_mem _
  rw [find_of_nodup_snd _ hf _ hmem]
  rfl

/-- **Every other value gives `None`**: in particular the discriminant of a disabled variant. -/
theorem from_repr_none (d : EnumDef) (x : Int)
    (h : ∀ i, ∀ hi : i < d.variants.length, d.variants[i].disabled = false →
      (rustcDiscr d)[i]'(by rw [rustcDiscr_length]; exact hi) ≠ x) :
    fromRepr d x = none := by
  cases hr : fromRepr d x with
  | none => rfl
  | some r =>
    obtain ⟨i, hi, hen, hk, _⟩ := from_repr_sound d x r hr
    exact absurd hk (h i hi hen)

/-- **iff (the property statement).** -/
theorem from_repr_iff (d : EnumDef) (hnd : (rustcDiscr d).Nodup) (x : Int) (r : Bytes × List FieldInit) :
    fromRepr d x = some r ↔
      ∃ i, ∃ hi : i < d.variants.length, d.variants[i].disabled = false ∧
        (rustcDiscr d)[i]'(by rw [rustcDiscr_length]; exact hi) = x ∧
        r = (d.variants[i].ident, List.replicate d.variants[i].fields.arity .dflt) := by
  constructor
  · exact from_repr_sound d x r
  · rintro ⟨i, hi, hen, rfl, rfl⟩
    exact from_repr_complete d hnd i hi hen

/-- **`from_repr` is callable in const context exactly when no enabled variant carries data.** -/
theorem from_repr_const_iff (d : EnumDef) :
    isConstFn d = true ↔ ∀ v ∈ d.variants, v.disabled = false → v.fields = .unit := by
  unfold isConstFn EnumDef.enabled
  simp only [List.all_eq_true, List.mem_filter, Bool.not_eq_eq_eq_not, Bool.not_true, beq_iff_eq, and_imp]

/-! ### the parameter type: the `#[repr]` integer type wherever it is written, `usize` if none -/

/-- rustc accepts at most one integer type among the repr hints of an enum (E0566 "conflicting representation hints") -/
def ReprWF (d : EnumDef) : Prop := ∀ t t', ReprHint.int t ∈ d.reprHints → ReprHint.int t' ∈ d.reprHints → t = t'

theorem intHint_mem : ∀ (hs : List ReprHint) (t : ReprTy), intHint hs = some t → ReprHint.int t ∈ hs
  | [], _, h => by simp [intHint] at h
  | .int t' :: hs, t, h => by simp only [intHint, Option.some.injEq] at h; subst h; exact List.mem_cons_self
  | .c :: hs, t, h => List.mem_cons_of_mem _ (intHint_mem hs t (by simpa [intHint] using h))
  | .align _ :: hs, t, h => List.mem_cons_of_mem _ (intHint_mem hs t (by simpa [intHint] using h))
  | .packed :: hs, t, h => List.mem_cons_of_mem _ (intHint_mem hs t (by simpa [intHint] using h))
  | .other :: hs, t, h => List.mem_cons_of_mem _ (intHint_mem hs t (by simpa [intHint] using h))

theorem scanIntHint_eq : ∀ (hs : List ReprHint) (acc : ReprTy),
    (∀ t t', ReprHint.int t ∈ hs → ReprHint.int t' ∈ hs → t = t') → scanIntHint hs acc = (intHint hs).getD acc
  | [], _, _ => rfl
  | .int t :: hs, acc, h => by
    have ih := scanIntHint_eq hs t (fun a b ha hb => h a b (List.mem_cons_of_mem _ ha) (List.mem_cons_of_mem _ hb))
    simp only [scanIntHint, intHint, Option.getD_some]
    rw [ih]
    cases hq : intHint hs with
    | none => rfl
    | some t' =>
      have := h t' t (List.mem_cons_of_mem _ (intHint_mem hs t' hq)) List.mem_cons_self
      simp [this]
  | .c :: hs, acc, h => by
    simpa [scanIntHint, intHint] using scanIntHint_eq hs acc (fun a b ha hb => h a b (List.mem_cons_of_mem _ ha) (List.mem_cons_of_mem _ hb))
  | .align _ :: hs, acc, h => by
    simpa [scanIntHint, intHint] using scanIntHint_eq hs acc (fun a b ha hb => h a b (List.mem_cons_of_mem _ ha) (List.mem_cons_of_mem _ hb))
  | .packed :: hs, acc, h => by
    simpa [scanIntHint, intHint] using scanIntHint_eq hs acc (fun a b ha hb => h a b (List.mem_cons_of_mem _ ha) (List.mem_cons_of_mem _ hb))
  | .other :: hs, acc, h => by
    simpa [scanIntHint, intHint] using scanIntHint_eq hs acc (fun a b ha hb => h a b (List.mem_cons_of_mem _ ha) (List.mem_cons_of_mem _ hb))

/-- **the parameter type of `from_repr` is the enum's discriminant type**: the integer type named by ANY hint of ANY
    `#[repr(..)]` attribute (`#[repr(C, u8)]`, `#[repr(i8)] #[repr(align(4))]`, ..), `usize` if there is none -/
theorem repr_type (d : EnumDef) (h : ReprWF d) :
    reprType d = (match d.repr with | some t => t | none => .usize) := by
  unfold reprType enumRepr EnumDef.repr
  by_cases he : d.reprAttrs.isEmpty = true
  · have : d.reprAttrs = [] := by simpa using he
    simp [EnumDef.reprHints, this, intHint]
  · simp only [he, Bool.false_eq_true, ↓reduceIte]
    have h' := scanIntHint_eq d.reprAttrs.flatten .usize h
    rw [h']
    simp only [EnumDef.reprHints]
    cases intHint d.reprAttrs.flatten <;> rfl

/-! ### F8 / F9 regression witnesses -/
/-- `#[repr(C, u8)] enum E { A, B(u8) }` -/
def f8Enum : EnumDef := { reprAttrs := [[.c, .int .u8]], variants := [{ ident := [65] }, { ident := [66], fields := .tuple 1 }] }
/-- `#[repr(i8)] #[repr(align(4))] enum E { A = -3, B }` -/
def f9Enum : EnumDef := { reprAttrs := [[.int .i8], [.align 4]], variants := [{ ident := [65], discr := some (-3) }, { ident := [66] }] }

/-- pinned generator: `from_repr` takes `usize` although the discriminant type is `u8` / `i8` -/
theorem pinned_repr_type_wrong :
    reprTypePinned f8Enum = .usize ∧ f8Enum.repr = some .u8 ∧ reprTypePinned f9Enum = .usize ∧ f9Enum.repr = some .i8 := by decide

/-- repaired generator -/
example : reprType f8Enum = .u8 ∧ reprType f9Enum = .i8 := by decide
example : ReprWF f8Enum ∧ ReprWF f9Enum := by
  constructor <;> intro t t' h h' <;> simp [f8Enum, f9Enum, EnumDef.reprHints] at h h' <;> simp [h, h']

/-! ### F2 regression witness: `#[repr(u8)] enum R { A, #[strum(disabled)] B, C }` -/
def f2Enum : EnumDef :=
  { reprAttrs := [[.int .u8]], variants := [{ ident := [65] }, { ident := [66], disabled := true }, { ident := [67] }] }

/-- pinned generator: `from_repr(1) == Some(C)` although `C as u8 == 2` -/
theorem pinned_from_repr_wrong : fromReprPinned f2Enum 1 = some ([67], []) ∧ rustcDiscr f2Enum = [0, 1, 2] := by decide

/-- repaired generator -/
example : fromRepr f2Enum 1 = none ∧ fromRepr f2Enum 2 = some ([67], []) := by decide
example : (rustcDiscr f2Enum).Nodup := by decide

end Strum
