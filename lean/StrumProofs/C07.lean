import StrumProofs.Lemmas.Heck
import StrumProofs.Lemmas.Bytes
/-
C07 — each serialize_all style renames identifiers to exactly that documented case.

`heckWords_eq_specWords` (Lemmas/Heck.lean) replaces heck's scanning state machine by the declarative
boundary rule `boundaryBefore`: split at non-alphanumerics (underscores), and inside a run put a boundary
before an upper-case character whose previous letter is lower-case (lower-to-upper) or whose previous
letter is upper-case while the next character is lower-case (acronym).  Everything below is stated in
terms of `specWords`.
-/
namespace Strum

/-- the documented (separator, casing) table -/
def styleSpec (st : CaseStyle) (id : Bytes) : Bytes :=
  let ws := specWords id
  match st with
  | .snake => intercalateBytes [95] (ws.map lowerAll)
  | .kebab => intercalateBytes [45] (ws.map lowerAll)
  | .shoutySnake => intercalateBytes [95] (ws.map upperAll)
  | .screamingKebab => intercalateBytes [45] (ws.map upperAll)
  | .title => intercalateBytes [32] (ws.map capitalize)
  | .train => intercalateBytes [45] (ws.map capitalize)
  | .pascal => (ws.map capitalize).flatten
  | .camel | .mixed =>
    match ws with
    | [] => []
    | w :: rest => lowerAll w ++ (rest.map capitalize).flatten
  | .lower => lowerAll id
  | .upper => upperAll id

theorem upperAll_intercalate (sep : Bytes) (ws : List Bytes) :
    upperAll (intercalateBytes sep ws) = intercalateBytes (upperAll sep) (ws.map upperAll) := by
  induction ws with
  | nil => rfl
  | cons w ws ih =>
    cases ws with
    | nil => rfl
    | cons w2 ws2 =>
      simp only [intercalateBytes, List.map_cons] at ih ⊢
      simp only [upperAll, List.map_append] at ih ⊢
      rw [ih]

theorem upperAll_lowerAll (w : Bytes) : upperAll (lowerAll w) = upperAll w := by
  unfold upperAll lowerAll
  simp only [List.map_map]
  congr 1
  funext b
  simp only [Function.comp, asciiUpper, asciiLower, isUpper, isLower]
  by_cases h1 : (65 ≤ b ∧ b ≤ 90)
  · have h2 : (97 ≤ b + 32 ∧ b + 32 ≤ 122) := by omega
    have h3 : ¬ (97 ≤ b ∧ b ≤ 122) := by omega
    simp [h1, h2, h3]
  · simp [h1]

theorem capitalize_lower_first (w : Bytes) :
    (match capitalize w with | [] => [] | c :: cs => asciiLower c :: cs) = lowerAll w := by
  cases w with
  | nil => rfl
  | cons c cs => simp [capitalize, lowerAll, asciiLower_upper]

theorem specGo_nonempty (rest : Bytes) : ∀ (p : Option Nat) (cur : Bytes), cur ≠ [] → ∀ w ∈ specGo p cur rest, w ≠ [] := by
  induction rest with
  | nil =>
    intro p cur hc w hw
    simp only [specGo] at hw
    split at hw
    · simp at hw
    · simp only [List.mem_singleton] at hw; rw [hw]; exact hc
  | cons c r ih =>
    intro p cur hc w hw
    rw [specGo_cons] at hw
    split at hw
    · simp only [List.mem_cons] at hw
      rcases hw with rfl | hw
      · exact hc
      · exact ih _ [c] (by simp) w hw
    · exact ih _ (cur ++ [c]) (by simp) w hw

/-- every word is non-empty -/
theorem specWords_nonempty (id : Bytes) : ∀ w ∈ specWords id, w ≠ [] := by
  intro w hw
  unfold specWords at hw
  simp only [List.mem_flatMap] at hw
  obtain ⟨seg, _, hws⟩ := hw
  cases seg with
  | nil => simp [specGo] at hws
  | cons c rest =>
    rw [specGo_cons] at hws
    have hb : boundaryBefore none c rest.head? = false := by simp [boundaryBefore]
    simp only [hb, Bool.false_eq_true, ↓reduceIte, List.nil_append] at hws
    exact specGo_nonempty rest _ [c] (by simp) w hws

/-- **Every style, every identifier**: `convert_case` computes the documented renaming. -/
theorem convert_case_spec (st : CaseStyle) (id : Bytes) : convertCase (some st) id = styleSpec st id := by
  cases st with
  | camel =>
    simp only [convertCase, styleSpec, toUpperCamel, heckWords_eq_specWords]
    have hne := specWords_nonempty id
    cases hw : specWords id with
    | nil => simp
    | cons w rest =>
      have hwne : w ≠ [] := hne w (by rw [hw]; simp)
      cases w with
      | nil => exact absurd rfl hwne
      | cons c cs => simp [capitalize, lowerAll, asciiLower_upper]
  | screamingKebab =>
    simp only [convertCase, styleSpec, toKebab, heckWords_eq_specWords]
    rw [upperAll_intercalate]
    simp only [List.map_map]
    congr 1
    apply List.map_congr_left
    intro w _
    exact upperAll_lowerAll w
  | kebab => simp only [convertCase, styleSpec, toKebab, heckWords_eq_specWords]
  | mixed =>
    simp only [convertCase, styleSpec, toLowerCamel, heckWords_eq_specWords]
    cases specWords id <;> rfl
  | shoutySnake => simp only [convertCase, styleSpec, toShoutySnake, heckWords_eq_specWords]
  | snake => simp only [convertCase, styleSpec, toSnake, heckWords_eq_specWords]
  | title => simp only [convertCase, styleSpec, toTitle, heckWords_eq_specWords]
  | upper => simp only [convertCase, styleSpec]
  | lower => simp only [convertCase, styleSpec]
  | pascal => simp only [convertCase, styleSpec, toUpperCamel, heckWords_eq_specWords]
  | train => simp only [convertCase, styleSpec, toTrain, heckWords_eq_specWords]

/-- `camelCase` and `mixed_case` are the same renaming -/
theorem camel_eq_mixed (id : Bytes) : convertCase (some .camel) id = convertCase (some .mixed) id := by
  rw [convert_case_spec, convert_case_spec]; rfl

/-- `lowercase` / `UPPERCASE` only change the letter case of the identifier (no word splitting) -/
theorem lower_upper_only_case (id : Bytes) :
    convertCase (some .lower) id = id.map asciiLower ∧ convertCase (some .upper) id = id.map asciiUpper ∧
    (convertCase (some .lower) id).length = id.length ∧ (convertCase (some .upper) id).length = id.length := by
  simp [convertCase, lowerAll, upperAll]

/-- without `serialize_all` the identifier is used verbatim -/
theorem no_style_verbatim (id : Bytes) : convertCase none id = id := rfl

/-- **Variants with an explicit `serialize`/`to_string` are never re-cased** -/
theorem explicit_never_recased (v : Variant) (h : v.toStr.isSome = true ∨ v.serialize ≠ [])
    (st : Option CaseStyle) (pfx : Option Bytes) :
    preferredName st pfx v = preferredName none pfx v ∧ serializations st v = serializations none v := by
  unfold preferredName serializations
  rcases h with h | h
  · cases ht : v.toStr with
    | none => rw [ht] at h; cases h
    | some t => simp
  · cases ht : v.toStr with
    | some t => simp
    | none =>
      cases hm : maxByKeyLast List.length v.serialize with
      | none =>
        cases hs : v.serialize with
        | nil => exact absurd hs h
        | cons a as => rw [hs] at hm; simp [maxByKeyLast] at hm
      | some s => simp [h]

/-- the boundary rule, spelled out on the three-character window -/
theorem boundary_rule (p : Option Nat) (c : Nat) (n : Option Nat) :
    boundaryBefore p c n = true ↔
      isUpper c = true ∧ ∃ q, p = some q ∧ (isLower q = true ∨ (isUpper q = true ∧ ∃ x, n = some x ∧ isLower x = true)) := by
  unfold boundaryBefore
  cases p with
  | none => simp
  | some q =>
    cases n with
    | none => simp
    | some x => simp

/-! examples (also regression tests for the model) -/
example : specWords [72, 84, 84, 80, 83, 101, 114, 118, 101, 114] = [[72, 84, 84, 80], [83, 101, 114, 118, 101, 114]] := by decide
example : convertCase (some .snake) [70, 111, 111, 50, 66, 97, 114] = [102, 111, 111, 50, 95, 98, 97, 114] := by decide
example : convertCase (some .camel) [116, 101, 115, 116, 95, 109, 101] = [116, 101, 115, 116, 77, 101] := by decide

end Strum

namespace Strum

/-- the documented style strings and the accepted legacy aliases (case_style.rs:58-81), all 17 rows -/
def styleTable : List (String × CaseStyle) :=
  [("camelCase", .camel), ("PascalCase", .pascal), ("kebab-case", .kebab), ("snake_case", .snake),
   ("SCREAMING_SNAKE_CASE", .shoutySnake), ("SCREAMING-KEBAB-CASE", .screamingKebab), ("lowercase", .lower),
   ("UPPERCASE", .upper), ("title_case", .title), ("mixed_case", .mixed), ("Train-Case", .train),
   ("camel_case", .pascal), ("snek_case", .snake), ("kebab_case", .kebab), ("shouty_snake_case", .shoutySnake),
   ("shouty_snek_case", .shoutySnake)]

theorem style_table : ∀ p ∈ styleTable, parseStyle p.1 = some p.2 := by decide

end Strum

namespace Strum

/-! ### the renaming keeps the identifier's letters and digits, in order, up to case -/

theorem specGo_flatten (rest : Bytes) : ∀ (p : Option Nat) (cur : Bytes), (specGo p cur rest).flatten = cur ++ rest := by
  induction rest with
  | nil =>
    intro p cur
    simp only [specGo]
    split
    · next h => simp at h; simp [h]
    · simp
  | cons c r ih =>
    intro p cur
    rw [specGo_cons]
    split
    · simp [ih]
    · simp [ih]

theorem splitNonAlnum_flatten (s : Bytes) : ∀ cur : Bytes, (splitNonAlnum cur s).flatten = cur ++ s.filter isAlnum := by
  induction s with
  | nil => intro cur; simp [splitNonAlnum]
  | cons c cs ih =>
    intro cur
    simp only [splitNonAlnum]
    split
    · next h => simp [ih, h]
    · next h => simp [ih, h]

/-- the words, concatenated, are exactly the identifier's alphanumeric characters in order -/
theorem specWords_flatten (id : Bytes) : (specWords id).flatten = id.filter isAlnum := by
  unfold specWords
  have h1 : ∀ l : List Bytes, (l.flatMap (specGo none [])).flatten = l.flatten := by
    intro l
    induction l with
    | nil => rfl
    | cons seg rest ih => simp [List.flatMap_cons, specGo_flatten, ih]
  rw [h1, splitNonAlnum_flatten]; simp

theorem asciiLower_lower (b : Nat) : asciiLower (asciiLower b) = asciiLower b := asciiLower_idem b

theorem lowerAll_fold (w : Bytes) : (lowerAll w).map asciiLower = w.map asciiLower := by
  simp [lowerAll, asciiLower_idem]
theorem upperAll_fold (w : Bytes) : (upperAll w).map asciiLower = w.map asciiLower := by
  simp [upperAll, asciiLower_upper]
theorem capitalize_fold (w : Bytes) : (capitalize w).map asciiLower = w.map asciiLower := by
  cases w with
  | nil => rfl
  | cons c cs => simp [capitalize, lowerAll, asciiLower_upper, asciiLower_idem]

theorem flatten_map_fold (f : Bytes → Bytes) (hf : ∀ w, (f w).map asciiLower = w.map asciiLower) (ws : List Bytes) :
    ((ws.map f).flatten).map asciiLower = (ws.flatten).map asciiLower := by
  induction ws with
  | nil => rfl
  | cons w ws ih => simp [List.map_append, hf, ih]

/-- **PascalCase keeps every letter and digit of the identifier, in order, only changing case**
    (the separated styles additionally insert their separator between words, see `convert_case_spec`). -/
theorem pascal_letters_preserved (id : Bytes) :
    (convertCase (some .pascal) id).map asciiLower = (id.filter isAlnum).map asciiLower := by
  rw [convert_case_spec]
  simp only [styleSpec]
  rw [flatten_map_fold capitalize capitalize_fold, specWords_flatten]

theorem intercalate_fold (sep : Bytes) (ws : List Bytes) :
    (intercalateBytes sep ws).filter (fun b => !sep.contains b) = (ws.flatten).filter (fun b => !sep.contains b) := by
  induction ws with
  | nil => rfl
  | cons w ws ih =>
    cases ws with
    | nil => simp [intercalateBytes]
    | cons w2 ws2 =>
      simp only [intercalateBytes, List.filter_append, List.flatten_cons] at ih ⊢
      rw [ih]
      simp

/-- **snake_case: removing the separators gives back the identifier's letters and digits, lower-cased** -/
theorem snake_letters_preserved (id : Bytes) :
    (convertCase (some .snake) id).filter (fun b => !([95] : Bytes).contains b) =
      ((specWords id).map lowerAll).flatten.filter (fun b => !([95] : Bytes).contains b) := by
  rw [convert_case_spec]
  simp only [styleSpec]
  exact intercalate_fold [95] _

end Strum

namespace Strum

/-! ### separators are clean: splitting the renamed identifier at the separator gives back the cased words -/

theorem splitNonAlnum_alnum (s : Bytes) : ∀ cur : Bytes, (∀ c ∈ cur, isAlnum c = true) →
    ∀ seg ∈ splitNonAlnum cur s, ∀ c ∈ seg, isAlnum c = true := by
  induction s with
  | nil => intro cur hc seg hs; simp [splitNonAlnum] at hs; subst hs; exact hc
  | cons x xs ih =>
    intro cur hc seg hs
    simp only [splitNonAlnum] at hs
    split at hs
    · next hx =>
      exact ih (cur ++ [x]) (by intro c hcm; simp at hcm; rcases hcm with h | h; exact hc c h; subst h; exact hx) seg hs
    · simp only [List.mem_cons] at hs
      rcases hs with rfl | hs
      · exact hc
      · exact ih [] (by simp) seg hs

theorem specGo_alnum (rest : Bytes) : ∀ (p : Option Nat) (cur : Bytes),
    (∀ c ∈ cur, isAlnum c = true) → (∀ c ∈ rest, isAlnum c = true) →
    ∀ w ∈ specGo p cur rest, ∀ c ∈ w, isAlnum c = true := by
  induction rest with
  | nil =>
    intro p cur hc _ w hw
    simp only [specGo] at hw
    split at hw
    · simp at hw
    · simp only [List.mem_singleton] at hw; subst hw; exact hc
  | cons x xs ih =>
    intro p cur hc hr w hw
    rw [specGo_cons] at hw
    have hx : isAlnum x = true := hr x (by simp)
    have hxs : ∀ c ∈ xs, isAlnum c = true := fun c h => hr c (by simp [h])
    split at hw
    · simp only [List.mem_cons] at hw
      rcases hw with rfl | hw
      · exact hc
      · exact ih _ [x] (by simp [hx]) hxs w hw
    · exact ih _ (cur ++ [x]) (by intro c hcm; simp at hcm; rcases hcm with h | h; exact hc c h; subst h; exact hx) hxs w hw

/-- every character of every word is a letter or a digit -/
theorem specWords_alnum (id : Bytes) : ∀ w ∈ specWords id, ∀ c ∈ w, isAlnum c = true := by
  intro w hw
  unfold specWords at hw
  simp only [List.mem_flatMap] at hw
  obtain ⟨seg, hseg, hws⟩ := hw
  exact specGo_alnum seg none [] (by simp) (splitNonAlnum_alnum id [] (by simp) seg hseg) w hws

/-- split at one separator byte -/
def splitSep (sep : Nat) : Bytes → Bytes → List Bytes
  | cur, [] => [cur]
  | cur, c :: cs => if c = sep then cur :: splitSep sep [] cs else splitSep sep (cur ++ [c]) cs

theorem splitSep_prefix (sep : Nat) (w : Bytes) (hw : ∀ c ∈ w, c ≠ sep) (cur rest : Bytes) :
    splitSep sep cur (w ++ rest) = splitSep sep (cur ++ w) rest := by
  induction w generalizing cur with
  | nil => simp
  | cons x xs ih =>
    have hx := hw x (by simp)
    simp only [List.cons_append, splitSep, hx, ↓reduceIte]
    rw [ih (fun c hc => hw c (by simp [hc]))]
    simp

/-- joining with a separator that occurs in no word, then splitting at it, is the identity on non-empty word lists -/
theorem splitSep_intercalate (sep : Nat) (ws : List Bytes) (hne : ws ≠ []) (hw : ∀ w ∈ ws, ∀ c ∈ w, c ≠ sep) :
    splitSep sep [] (intercalateBytes [sep] ws) = ws := by
  induction ws with
  | nil => exact absurd rfl hne
  | cons w rest ih =>
    cases rest with
    | nil =>
      simp only [intercalateBytes]
      have := splitSep_prefix sep w (hw w (by simp)) [] []
      simp only [List.append_nil, List.nil_append] at this
      rw [this]; rfl
    | cons w2 rest2 =>
      simp only [intercalateBytes, List.append_assoc]
      rw [splitSep_prefix sep w (hw w (by simp)) [] _]
      simp only [List.nil_append, List.cons_append, splitSep, ↓reduceIte]
      rw [ih (by simp) (fun u hu => hw u (by simp [hu]))]

theorem alnum_ne_sep (c : Nat) (h : isAlnum c = true) : c ≠ 95 ∧ c ≠ 45 ∧ c ≠ 32 := by
  unfold isAlnum isLetter isUpper isLower isDigit at h
  simp at h
  omega

theorem asciiLower_alnum (b : Nat) (h : isAlnum b = true) : isAlnum (asciiLower b) = true := by
  unfold isAlnum isLetter isUpper isLower isDigit at h
  simp only [Bool.or_eq_true, Bool.and_eq_true, decide_eq_true_eq] at h
  by_cases hu : (65 ≤ b ∧ b ≤ 90)
  · have : asciiLower b = b + 32 := by simp [asciiLower, isUpper, hu]
    rw [this]
    unfold isAlnum isLetter isUpper isLower isDigit
    simp only [Bool.or_eq_true, Bool.and_eq_true, decide_eq_true_eq]
    omega
  · have : asciiLower b = b := by simp [asciiLower, isUpper, hu]
    rw [this]
    unfold isAlnum isLetter isUpper isLower isDigit
    simp only [Bool.or_eq_true, Bool.and_eq_true, decide_eq_true_eq]
    omega

theorem lowerAll_alnum (w : Bytes) (h : ∀ c ∈ w, isAlnum c = true) : ∀ c ∈ lowerAll w, isAlnum c = true := by
  intro c hc
  simp only [lowerAll, List.mem_map] at hc
  obtain ⟨b, hb, rfl⟩ := hc
  exact asciiLower_alnum b (h b hb)

/-- **snake_case has no leading, trailing or doubled `_`**: splitting at `_` returns exactly the lower-cased
    words, each of them non-empty. -/
theorem snake_separators_clean (id : Bytes) (hne : specWords id ≠ []) :
    splitSep 95 [] (convertCase (some .snake) id) = (specWords id).map lowerAll ∧
    ∀ w ∈ (specWords id).map lowerAll, w ≠ [] := by
  rw [convert_case_spec]
  simp only [styleSpec]
  refine ⟨?_, ?_⟩
  · apply splitSep_intercalate
    · simpa using hne
    · intro w hw c hc
      simp only [List.mem_map] at hw
      obtain ⟨u, hu, rfl⟩ := hw
      exact (alnum_ne_sep c (lowerAll_alnum u (specWords_alnum id u hu) c hc)).1
  · intro w hw
    simp only [List.mem_map] at hw
    obtain ⟨u, hu, rfl⟩ := hw
    have := specWords_nonempty id u hu
    cases u with
    | nil => exact absurd rfl this
    | cons a as => simp [lowerAll]

end Strum
