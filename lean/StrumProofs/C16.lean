import StrumModel
namespace Strum
theorem c16_placeholder : True := trivial
end Strum
