import StrumProofs.C01
/-
C16 — use_phf is a pure optimisation of EnumString.

Model (StrumModel/FromStr.lean, mirroring from_string.rs:121-170 after the F3 repair): with `use_phf`
each spelling becomes a phf key; a case-insensitive variant also gets its ASCII-lower and ASCII-upper
forms as keys (a key already inserted for the same variant is skipped) and keeps its guard arm;
`from_str` looks the input up in the map first, then runs the ordinary match, then the fall-through.
-/
namespace Strum

theorem eqI_lowerAll (sp : Bytes) : eqIgnoreAsciiCase (lowerAll sp) sp = true := by
  rw [eqIgnoreAsciiCase_iff_map]; simp [lowerAll, asciiLower_idem]

theorem eqI_upperAll (sp : Bytes) : eqIgnoreAsciiCase (upperAll sp) sp = true := by
  rw [eqIgnoreAsciiCase_iff_map]; simp [upperAll, asciiLower_upper]

theorem mem_pushKey (keys : List Bytes) (k x : Bytes) : x ∈ pushKey keys k ↔ x ∈ keys ∨ x = k := by
  unfold pushKey
  split
  · next h => simp only [List.contains_iff_mem] at h; constructor
              · exact Or.inl
              · rintro (h' | rfl); exact h'; exact h
  · simp

theorem nodup_pushKey (keys : List Bytes) (k : Bytes) (h : keys.Nodup) : (pushKey keys k).Nodup := by
  unfold pushKey
  split
  · exact h
  · next hc =>
    simp only [List.contains_iff_mem] at hc
    rw [List.nodup_append]
    exact ⟨h, by simp, by intro a ha b hb; simp at hb; subst hb; exact fun e => hc (e ▸ ha)⟩

/-- one step of the key loop -/
def keyStep (ci : Bool) (keys : List Bytes) (sp : Bytes) : List Bytes :=
  let keys := pushKey keys sp
  if ci then pushKey (pushKey keys (lowerAll sp)) (upperAll sp) else keys

theorem phfKeysOfVariant_eq (d : EnumDef) (v : Variant) :
    phfKeysOfVariant d v = (serializations d.style v).foldl (keyStep (d.ciOf v)) [] := rfl

theorem mem_keyStep (ci : Bool) (keys : List Bytes) (sp x : Bytes) :
    x ∈ keyStep ci keys sp ↔ x ∈ keys ∨ x = sp ∨ (ci = true ∧ (x = lowerAll sp ∨ x = upperAll sp)) := by
  unfold keyStep
  cases ci
  · simp [mem_pushKey]
  · simp only [↓reduceIte, mem_pushKey, true_and]
    constructor
    · rintro (((h | h) | h) | h)
      · exact Or.inl h
      · exact Or.inr (Or.inl h)
      · exact Or.inr (Or.inr (Or.inl h))
      · exact Or.inr (Or.inr (Or.inr h))
    · rintro (h | h | h | h)
      · exact Or.inl (Or.inl (Or.inl h))
      · exact Or.inl (Or.inl (Or.inr h))
      · exact Or.inl (Or.inr h)
      · exact Or.inr h

theorem mem_foldl_keyStep (ci : Bool) (l : List Bytes) (acc : List Bytes) (x : Bytes) :
    x ∈ l.foldl (keyStep ci) acc ↔
      x ∈ acc ∨ ∃ sp ∈ l, x = sp ∨ (ci = true ∧ (x = lowerAll sp ∨ x = upperAll sp)) := by
  induction l generalizing acc with
  | nil => simp
  | cons a as ih =>
    simp only [List.foldl_cons, ih, mem_keyStep, List.mem_cons, exists_eq_or_imp]
    constructor
    · rintro ((h | h) | h)
      · exact Or.inl h
      · exact Or.inr (Or.inl h)
      · exact Or.inr (Or.inr h)
    · rintro (h | h | h)
      · exact Or.inl (Or.inl h)
      · exact Or.inl (Or.inr h)
      · exact Or.inr h

theorem nodup_foldl_keyStep (ci : Bool) (l : List Bytes) (acc : List Bytes) (h : acc.Nodup) :
    (l.foldl (keyStep ci) acc).Nodup := by
  induction l generalizing acc with
  | nil => exact h
  | cons a as ih =>
    apply ih
    unfold keyStep
    cases ci
    · simpa using nodup_pushKey _ _ h
    · simpa using nodup_pushKey _ _ (nodup_pushKey _ _ (nodup_pushKey _ _ h))

/-- every phf key of a variant is an input that variant accepts -/
theorem keys_accept (d : EnumDef) (v : Variant) (k : Bytes) (h : k ∈ phfKeysOfVariant d v) :
    accepts d v k = true := by
  rw [phfKeysOfVariant_eq, mem_foldl_keyStep] at h
  rcases h with h | ⟨sp, hsp, h⟩
  · simp at h
  · unfold accepts
    simp only [List.any_eq_true]
    refine ⟨sp, hsp, ?_⟩
    rcases h with rfl | ⟨hci, rfl | rfl⟩
    · split; exact eqIgnoreAsciiCase_refl _; simp
    · simp [hci, eqI_lowerAll]
    · simp [hci, eqI_upperAll]

/-- every spelling is a phf key -/
theorem spelling_is_key (d : EnumDef) (v : Variant) (sp : Bytes) (h : sp ∈ serializations d.style v) :
    sp ∈ phfKeysOfVariant d v := by
  rw [phfKeysOfVariant_eq, mem_foldl_keyStep]
  exact Or.inr ⟨sp, h, Or.inl rfl⟩

theorem keys_nodup_variant (d : EnumDef) (v : Variant) : (phfKeysOfVariant d v).Nodup := by
  rw [phfKeysOfVariant_eq]; exact nodup_foldl_keyStep _ _ _ List.nodup_nil

/-- all phf keys in emission order -/
def allKeys (d : EnumDef) (vs : List Variant) : List Bytes := vs.flatMap (phfKeysOfVariant d)

theorem phf_arms_keys (d : EnumDef) (h : d.usePhf = true) (vs : List Variant) :
    (vs.flatMap (phfOfVariant d)).map armKey = allKeys d vs := by
  induction vs with
  | nil => rfl
  | cons v vs ih =>
    simp only [List.flatMap_cons, List.map_append, allKeys] at ih ⊢
    rw [ih]
    congr 1
    simp [phfOfVariant, h, armKey, Function.comp_def]

theorem hasDupKey_false_iff (l : List Bytes) : hasDupKey l = false ↔ l.Nodup := by
  induction l with
  | nil => simp [hasDupKey]
  | cons a as ih =>
    simp only [hasDupKey, Bool.or_eq_false_iff, ih, List.nodup_cons]
    constructor
    · rintro ⟨h1, h2⟩; exact ⟨by simpa using h1, h2⟩
    · rintro ⟨h1, h2⟩; exact ⟨by simpa using h1, h2⟩

theorem allKeys_nodup (d : EnumDef) (vs : List Variant) (hnd : vs.Nodup)
    (hno : ∀ s, ∀ v ∈ vs, ∀ w ∈ vs, accepts d v s = true → accepts d w s = true → v = w) :
    (allKeys d vs).Nodup := by
  induction vs with
  | nil => simp [allKeys]
  | cons v vs ih =>
    simp only [allKeys, List.flatMap_cons]
    rw [List.nodup_cons] at hnd
    rw [List.nodup_append]
    refine ⟨keys_nodup_variant d v, ih hnd.2 (fun s a ha b hb => hno s a (by simp [ha]) b (by simp [hb])), ?_⟩
    intro a ha b hb hab
    subst hab
    simp only [List.mem_flatMap] at hb
    obtain ⟨w, hw, hkw⟩ := hb
    have := hno a v (by simp) w (by simp [hw]) (keys_accept d v a ha) (keys_accept d w a hkw)
    subst this
    exact hnd.1 hw

/-- **`use_phf` never breaks compilation**: under non-overlap no two phf keys coincide, so `phf_map!`
    accepts the table (variants pairwise different, as rustc demands). -/
theorem phf_compiles (d : EnumDef) (hphf : d.usePhf = true) (hno : NoOverlap d) (hnd : d.candidates.Nodup) :
    ∀ e, genFromStr d = .error e → e ≠ .phfDupKey := by
  intro e he
  have hk : hasDupKey ((d.candidates.flatMap (phfOfVariant d)).map armKey) = false := by
    rw [hasDupKey_false_iff]
    rw [phf_arms_keys d hphf d.candidates]
    exact allKeys_nodup d d.candidates hnd hno
  simp only [genFromStr] at he
  rw [hk] at he
  simp only [Bool.false_eq_true, ↓reduceIte] at he
  cases hd : d.defaults with
  | nil => simp [hd] at he
  | cons v rest =>
    cases rest with
    | nil =>
      simp only [hd] at he
      by_cases har : v.fields.arity = 1
      · simp [har] at he
      · simp only [har, ↓reduceIte, Except.error.injEq] at he; subst he; simp
    | cons w rest' =>
      simp only [hd, Except.error.injEq] at he; subst he; simp

/-- the generated program with `use_phf` (when the generator succeeds) -/
theorem genFromStr_phf (d : EnumDef) (p : FromStrImpl) (hg : genFromStr d = .ok p) :
    p.phf = d.candidates.flatMap (phfOfVariant d) ∧ p.arms = d.candidates.flatMap (armsOfVariant d) ∧
    ((d.defaults = [] ∧ p.fall = (if d.customErr then .errCustom else .errStd)) ∨
     (∃ v, d.defaults = [v] ∧ v.fields.arity = 1 ∧ p.fall = .okCapture v.ident)) := by
  simp only [genFromStr] at hg
  split at hg
  · cases hg
  · cases hd : d.defaults with
    | nil => simp only [hd, Except.ok.injEq] at hg; subst hg; exact ⟨rfl, rfl, Or.inl ⟨rfl, rfl⟩⟩
    | cons v rest =>
      cases rest with
      | nil =>
        simp only [hd] at hg
        by_cases har : v.fields.arity = 1
        · simp only [har, ↓reduceIte, Except.ok.injEq] at hg; subst hg
          exact ⟨rfl, rfl, Or.inr ⟨v, rfl, har, rfl⟩⟩
        · simp [har] at hg
      | cons w rest' => simp [hd] at hg

/-- a hit in the phf map: the key is accepted by the variant that owns it -/
theorem firstMatch_phf_some (d : EnumDef) (hphf : d.usePhf = true) (vs : List Variant) (s : Bytes) (a : Arm)
    (h : firstMatch (vs.flatMap (phfOfVariant d)) s = some a) :
    ∃ v ∈ vs, accepts d v s = true ∧ a.ident = v.ident ∧ a.payload = payloadOf v := by
  obtain ⟨hmem, hacc⟩ := firstMatch_some_mem h
  simp only [List.mem_flatMap, phfOfVariant, hphf, ↓reduceIte, List.mem_map] at hmem
  obtain ⟨v, hv, k, hk, rfl⟩ := hmem
  simp only [Pat.accepts, beq_iff_eq] at hacc
  subst hacc
  exact ⟨v, hv, keys_accept d v s hk, rfl, rfl⟩

/-- a miss in the phf map: the input is not literally any spelling -/
theorem firstMatch_phf_none (d : EnumDef) (hphf : d.usePhf = true) (vs : List Variant) (s : Bytes)
    (h : firstMatch (vs.flatMap (phfOfVariant d)) s = none) :
    ∀ v ∈ vs, s ∉ serializations d.style v := by
  rw [firstMatch_none_iff] at h
  intro v hv hs
  have := h ⟨.lit s, v.ident, payloadOf v⟩ (by
    simp only [List.mem_flatMap, phfOfVariant, hphf, ↓reduceIte, List.mem_map]
    exact ⟨v, hv, s, spelling_is_key d v s hs, rfl⟩)
  simp [Pat.accepts] at this

/-- after a phf miss the remaining guard arms decide exactly like `accepts` -/
theorem firstMatch_arms_phf (d : EnumDef) (hphf : d.usePhf = true) (v : Variant) (s : Bytes)
    (hs : s ∉ serializations d.style v) :
    (firstMatch (armsOfVariant d v) s).map Arm.result =
      if accepts d v s then some (v.ident, payloadOf v) else none := by
  unfold armsOfVariant accepts
  generalize serializations d.style v = l at hs
  induction l with
  | nil => simp [firstMatch]
  | cons x xs ih =>
    simp only [List.mem_cons, not_or] at hs
    have ih := ih hs.2
    cases hc : d.ciOf v
    · have hx : (s == x) = false := by simpa using hs.1
      simp only [hc, Bool.false_eq_true, ↓reduceIte, hphf, List.filterMap_cons, List.any_cons, hx,
        Bool.false_or] at ih ⊢
      exact ih
    · simp only [hc, ↓reduceIte, List.filterMap_cons, firstMatch, Pat.accepts, List.any_cons] at ih ⊢
      by_cases hx : eqIgnoreAsciiCase s x = true
      · simp [hx, Arm.result]
      · simp only [hx, Bool.false_eq_true, ↓reduceIte, Bool.false_or]
        exact ih

theorem firstMatch_flatMap_phf (d : EnumDef) (hphf : d.usePhf = true) (vs : List Variant) (s : Bytes)
    (hs : ∀ v ∈ vs, s ∉ serializations d.style v) :
    (firstMatch (vs.flatMap (armsOfVariant d)) s).map Arm.result =
      (vs.find? (fun v => accepts d v s)).map (fun v => (v.ident, payloadOf v)) := by
  induction vs with
  | nil => simp [firstMatch]
  | cons v vs ih =>
    simp only [List.flatMap_cons, firstMatch_append, List.find?_cons]
    have hv := firstMatch_arms_phf d hphf v s (hs v (by simp))
    have ih := ih (fun w hw => hs w (by simp [hw]))
    cases hm : firstMatch (armsOfVariant d v) s with
    | some a =>
      rw [hm] at hv
      by_cases ha : accepts d v s = true <;> simp_all
    | none =>
      rw [hm] at hv
      by_cases ha : accepts d v s = true <;> simp_all

/-- **With `use_phf` the parser computes the same function of (definition, input) as without.**
    Stated against the same declarative right-hand side as `parse_first_match` (C01). -/
theorem parse_first_match_phf (d : EnumDef) (hphf : d.usePhf = true) (hno : NoOverlap d)
    (p : FromStrImpl) (hg : genFromStr d = .ok p) (s : Bytes) :
    parse d s = .ok (match d.candidates.find? (fun v => accepts d v s) with
                     | some v => .ok v.ident (payloadOf v)
                     | none => p.fall.eval s) := by
  obtain ⟨hp, ha, _⟩ := genFromStr_phf d p hg
  unfold parse
  rw [hg]
  simp only [Except.map, FromStrImpl.eval, hp, ha]
  cases h1 : firstMatch (d.candidates.flatMap (phfOfVariant d)) s with
  | some a =>
    obtain ⟨v, hv, hacc, hi, hpl⟩ := firstMatch_phf_some d hphf d.candidates s a h1
    cases hc : d.candidates.find? (fun v => accepts d v s) with
    | none =>
      have := List.find?_eq_none.1 hc v hv
      simp [hacc] at this
    | some w =>
      have hw := List.mem_of_find?_eq_some hc
      have haw : accepts d w s = true := by simpa using List.find?_some hc
      have := hno s v hv w hw hacc haw
      subst this
      simp [hi, hpl]
  | none =>
    have hs := firstMatch_phf_none d hphf d.candidates s h1
    have hfm := firstMatch_flatMap_phf d hphf d.candidates s hs
    cases hf : firstMatch (d.candidates.flatMap (armsOfVariant d)) s with
    | some a =>
      rw [hf] at hfm
      cases hc : d.candidates.find? (fun v => accepts d v s) with
      | some v => rw [hc] at hfm; simp [Arm.result] at hfm; simp [hfm]
      | none => rw [hc] at hfm; simp at hfm
    | none =>
      rw [hf] at hfm
      cases hc : d.candidates.find? (fun v => accepts d v s) with
      | some v => rw [hc] at hfm; simp at hfm
      | none => rfl

/-- **phf parser = plain parser, for every input.** -/
theorem phf_same_result (d : EnumDef) (hno : NoOverlap { d with usePhf := false })
    (p1 p0 : FromStrImpl) (h1 : genFromStr { d with usePhf := true } = .ok p1)
    (h0 : genFromStr { d with usePhf := false } = .ok p0) (s : Bytes) :
    parse { d with usePhf := true } s = parse { d with usePhf := false } s := by
  have hno1 : NoOverlap { d with usePhf := true } := hno
  rw [parse_first_match_phf { d with usePhf := true } rfl hno1 p1 h1 s,
      parse_first_match { d with usePhf := false } rfl p0 h0 s]
  have hfall : p1.fall = p0.fall := by
    obtain ⟨_, _, hf1⟩ := genFromStr_phf _ p1 h1
    obtain ⟨_, _, hf0⟩ := genFromStr_phf _ p0 h0
    rcases hf1 with ⟨a1, b1⟩ | ⟨v1, a1, _, b1⟩ <;> rcases hf0 with ⟨a0, b0⟩ | ⟨v0, a0, _, b0⟩
    · rw [b1, b0]
    · have : ({ d with usePhf := true } : EnumDef).defaults = ({ d with usePhf := false } : EnumDef).defaults := rfl
      rw [a1, a0] at this; cases this
    · have : ({ d with usePhf := true } : EnumDef).defaults = ({ d with usePhf := false } : EnumDef).defaults := rfl
      rw [a1, a0] at this; cases this
    · have : ({ d with usePhf := true } : EnumDef).defaults = ({ d with usePhf := false } : EnumDef).defaults := rfl
      rw [a1, a0] at this; cases this; rw [b1, b0]
  rw [hfall]
  rfl

/-- the generator succeeds with `use_phf` whenever it succeeds without (same error checks, and the
    key table has no duplicate) -/
theorem phf_gen_ok (d : EnumDef) (hno : NoOverlap { d with usePhf := false })
    (hnd : d.candidates.Nodup) (p0 : FromStrImpl) (h0 : genFromStr { d with usePhf := false } = .ok p0) :
    ∃ p1, genFromStr { d with usePhf := true } = .ok p1 := by
  cases h1 : genFromStr { d with usePhf := true } with
  | ok p1 => exact ⟨p1, rfl⟩
  | error e =>
    exfalso
    have hne := phf_compiles { d with usePhf := true } rfl hno hnd e h1
    obtain ⟨_, _, hf0⟩ := genFromStr_phf _ p0 h0
    have hd : ({ d with usePhf := true } : EnumDef).defaults = ({ d with usePhf := false } : EnumDef).defaults := rfl
    simp only [genFromStr] at h1
    split at h1
    · simp only [Except.error.injEq] at h1; exact hne h1.symm
    · rcases hf0 with ⟨a0, _⟩ | ⟨v0, a0, har, _⟩
      · rw [hd, a0] at h1; simp at h1
      · rw [hd, a0] at h1; simp [har] at h1

/-! non-vacuity: the F3 witness now compiles and parses identically -/
def f3Enum : EnumDef :=
  { variants := [{ ident := [114, 101, 100], ci := some true }, { ident := [66, 108, 117, 101] }] }
example : noOverlapB f3Enum = true := by decide
example : ∃ p, genFromStr { f3Enum with usePhf := true } = .ok p := ⟨_, rfl⟩
example : parse { f3Enum with usePhf := true } [82, 69, 68] = parse f3Enum [82, 69, 68] := by rfl

end Strum

namespace Strum

/-- with or without `use_phf`, the parser computes the same declarative function -/
theorem parse_first_match_any (d : EnumDef) (hno : NoOverlap d) (p : FromStrImpl) (hg : genFromStr d = .ok p) (s : Bytes) :
    parse d s = .ok (match d.candidates.find? (fun v => accepts d v s) with
                     | some v => .ok v.ident (payloadOf v)
                     | none => p.fall.eval s) := by
  cases h : d.usePhf
  · exact parse_first_match d h p hg s
  · exact parse_first_match_phf d h hno p hg s

/-- **C01's accepting direction holds for `use_phf` enums as well** -/
theorem parse_accepting_any (d : EnumDef) (hno : NoOverlap d) (p : FromStrImpl) (hg : genFromStr d = .ok p)
    (s : Bytes) (v : Variant) (hv : v ∈ d.candidates) (ha : accepts d v s = true) :
    parse d s = .ok (.ok v.ident (payloadOf v)) := by
  rw [parse_first_match_any d hno p hg s]
  cases hc : d.candidates.find? (fun v => accepts d v s) with
  | none =>
    have := List.find?_eq_none.1 hc v hv
    simp [ha] at this
  | some w =>
    have hw := List.mem_of_find?_eq_some hc
    have haw : accepts d w s = true := by simpa using List.find?_some hc
    have := hno s v hv w hw ha haw
    subst this; rfl

/-- **and the rejecting direction**: default variant capturing the input, or the (standard / custom) error -/
theorem parse_other_any (d : EnumDef) (hno : NoOverlap d) (p : FromStrImpl) (hg : genFromStr d = .ok p) (s : Bytes)
    (h : ∀ v ∈ d.candidates, accepts d v s = false) : parse d s = .ok (p.fall.eval s) := by
  rw [parse_first_match_any d hno p hg s]
  have : d.candidates.find? (fun v => accepts d v s) = none := by
    apply List.find?_eq_none.2
    intro v hv; simp [h v hv]
  rw [this]

end Strum
