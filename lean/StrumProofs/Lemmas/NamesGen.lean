import StrumProofs.Lemmas.Names
namespace Strum

theorem lookup_mapExcept' (f : Variant → Except NameErr NameArm)
    (g : Variant → Except NameErr (Bytes × NameArm))
    (hg : ∀ v, g v = (f v).map (fun a => (v.ident, a)))
    (l : List Variant) (arms : List (Bytes × NameArm))
    (h : mapExcept g l = .ok arms)
    (hid : (l.map (·.ident)).Nodup) (v : Variant) (hv : v ∈ l) :
    ∃ a, f v = .ok a ∧ lookupArm arms v.ident = some a := by
  induction l generalizing arms with
  | nil => simp at hv
  | cons x xs ih =>
    cases hx : f x with
    | error e =>
      have : g x = .error e := by rw [hg, hx]; rfl
      simp [mapExcept, this] at h
    | ok ax =>
      have hgx : g x = .ok (x.ident, ax) := by rw [hg, hx]; rfl
      cases hxs : mapExcept g xs with
      | error e => simp [mapExcept, hgx, hxs] at h
      | ok bs =>
        simp only [mapExcept, hgx, hxs, Except.ok.injEq] at h
        subst h
        simp only [List.map_cons, List.nodup_cons, List.mem_map, not_exists, not_and] at hid
        simp only [List.mem_cons] at hv
        rcases hv with rfl | hv
        · exact ⟨ax, hx, by simp [lookupArm, List.find?]⟩
        · obtain ⟨a, ha1, ha2⟩ := ih bs hxs hid.2 hv
          refine ⟨a, ha1, ?_⟩
          have hne : (x.ident == v.ident) = false := by
            have := hid.1 v hv
            simp only [beq_eq_false_iff_ne, ne_eq]
            exact fun h => this h.symm
          simpa [lookupArm, List.find?, hne] using ha2

theorem lookup_mapExcept (f : Variant → Except NameErr NameArm) (l : List Variant)
    (arms : List (Bytes × NameArm))
    (h : mapExcept (fun v => (f v).map (fun a => (v.ident, a))) l = .ok arms)
    (hid : (l.map (·.ident)).Nodup) (v : Variant) (hv : v ∈ l) :
    ∃ a, f v = .ok a ∧ lookupArm arms v.ident = some a :=
  lookup_mapExcept' f _ (fun _ => rfl) l arms h hid v hv

theorem lookup_mapExcept_none' (f : Variant → Except NameErr NameArm)
    (g : Variant → Except NameErr (Bytes × NameArm))
    (hg : ∀ v, g v = (f v).map (fun a => (v.ident, a)))
    (l : List Variant) (arms : List (Bytes × NameArm))
    (h : mapExcept g l = .ok arms)
    (k : Bytes) (hk : ∀ v ∈ l, v.ident ≠ k) : lookupArm arms k = none := by
  induction l generalizing arms with
  | nil => simp [mapExcept] at h; subst h; rfl
  | cons x xs ih =>
    cases hx : f x with
    | error e =>
      have : g x = .error e := by rw [hg, hx]; rfl
      simp [mapExcept, this] at h
    | ok ax =>
      have hgx : g x = .ok (x.ident, ax) := by rw [hg, hx]; rfl
      cases hxs : mapExcept g xs with
      | error e => simp [mapExcept, hgx, hxs] at h
      | ok bs =>
        simp only [mapExcept, hgx, hxs, Except.ok.injEq] at h
        subst h
        have hne : (x.ident == k) = false := by
          simp only [beq_eq_false_iff_ne, ne_eq]; exact hk x (by simp)
        have := ih bs hxs (fun v hv => hk v (by simp [hv]))
        simpa [lookupArm, List.find?, hne] using this

theorem lookup_mapExcept_none (f : Variant → Except NameErr NameArm) (l : List Variant)
    (arms : List (Bytes × NameArm))
    (h : mapExcept (fun v => (f v).map (fun a => (v.ident, a))) l = .ok arms)
    (k : Bytes) (hk : ∀ v ∈ l, v.ident ≠ k) : lookupArm arms k = none :=
  lookup_mapExcept_none' f _ (fun _ => rfl) l arms h k hk

theorem enabled_idents_nodup (d : EnumDef) (hid : (d.variants.map (·.ident)).Nodup) :
    (d.enabled.map (·.ident)).Nodup := by
  unfold EnumDef.enabled
  generalize d.variants = l at hid
  induction l with
  | nil => simp
  | cons x xs ih =>
    simp only [List.map_cons, List.nodup_cons, List.mem_map, not_exists, not_and] at hid
    simp only [List.filter_cons]
    split
    · simp only [List.map_cons, List.nodup_cons, List.mem_map, List.mem_filter, not_exists, not_and]
      exact ⟨fun y hy => hid.1 y hy.1, ih hid.2⟩
    · exact ih hid.2

/-- the arm the generated impl selects for an enabled variant -/
theorem genNames_lookup (d : EnumDef) (dv : NameDerive) (arms : List (Bytes × NameArm))
    (h : genNames d dv = .ok arms) (hid : (d.variants.map (·.ident)).Nodup)
    (v : Variant) (hv : v ∈ d.variants) (hen : v.disabled = false) :
    ∃ a, armOf d dv v = .ok a ∧ lookupArm arms v.ident = some a := by
  have hve : v ∈ d.enabled := by unfold EnumDef.enabled; simp [hv, hen]
  exact lookup_mapExcept (armOf d dv) d.enabled arms h (enabled_idents_nodup d hid) v hve

/-- no arm exists for a disabled variant: the `_ => panic!(..)` arm is taken -/
theorem genNames_lookup_disabled (d : EnumDef) (dv : NameDerive) (arms : List (Bytes × NameArm))
    (h : genNames d dv = .ok arms) (hid : (d.variants.map (·.ident)).Nodup)
    (v : Variant) (hv : v ∈ d.variants) (hdis : v.disabled = true) :
    lookupArm arms v.ident = none := by
  apply lookup_mapExcept_none (armOf d dv) d.enabled arms h
  intro w hw hwk
  unfold EnumDef.enabled at hw
  simp only [List.mem_filter, Bool.not_eq_eq_eq_not, Bool.not_true] at hw
  have : w = v := inj_of_nodup_map (·.ident) d.variants hid w hw.1 v hv hwk
  rw [this, hdis] at hw
  exact absurd hw.2 (by simp)

end Strum
