import StrumProofs.Lemmas.FirstMatch
namespace Strum

/-- no input is accepted by two different candidate variants -/
def NoOverlap (d : EnumDef) : Prop :=
  ∀ s, ∀ v ∈ d.candidates, ∀ w ∈ d.candidates, accepts d v s = true → accepts d w s = true → v = w

theorem spellingsClash_symm (c1 : Bool) (s1 : Bytes) (c2 : Bool) (s2 : Bytes) :
    spellingsClash c1 s1 c2 s2 = spellingsClash c2 s2 c1 s1 := by
  unfold spellingsClash
  cases c1 <;> cases c2 <;> simp
  · exact Bool.eq_iff_iff.2 ⟨fun h => by simp at h ⊢; exact h.symm, fun h => by simp at h ⊢; exact h.symm⟩
  all_goals exact Bool.eq_iff_iff.2 ⟨eqIgnoreAsciiCase_symm, eqIgnoreAsciiCase_symm⟩

theorem variantsClash_symm (d : EnumDef) (v w : Variant) : variantsClash d v w = variantsClash d w v := by
  unfold variantsClash
  apply Bool.eq_iff_iff.2
  simp only [List.any_eq_true]
  constructor
  · rintro ⟨a, ha, b, hb, h⟩; exact ⟨b, hb, a, ha, by rw [spellingsClash_symm]; exact h⟩
  · rintro ⟨a, ha, b, hb, h⟩; exact ⟨b, hb, a, ha, by rw [spellingsClash_symm]; exact h⟩

/-- an input accepted by both variants exhibits a clash of two spellings -/
theorem accepts_both_clash (d : EnumDef) (v w : Variant) (s : Bytes)
    (hv : accepts d v s = true) (hw : accepts d w s = true) : variantsClash d v w = true := by
  unfold accepts at hv hw
  unfold variantsClash
  simp only [List.any_eq_true] at hv hw ⊢
  obtain ⟨a, ha, hsa⟩ := hv
  obtain ⟨b, hb, hsb⟩ := hw
  refine ⟨a, ha, b, hb, ?_⟩
  unfold spellingsClash
  cases hc1 : d.ciOf v <;> cases hc2 : d.ciOf w <;> simp [hc1, hc2] at hsa hsb ⊢
  · exact hsa.symm.trans hsb
  · subst hsa; exact hsb
  · subst hsb; exact eqIgnoreAsciiCase_symm hsa
  · exact eqIgnoreAsciiCase_trans (eqIgnoreAsciiCase_symm hsa) hsb

theorem pairwiseNoClash_sound (d : EnumDef) (l : List Variant) (h : pairwiseNoClash d l = true) :
    ∀ s, ∀ v ∈ l, ∀ w ∈ l, accepts d v s = true → accepts d w s = true → v = w := by
  induction l with
  | nil => intro s v hv; simp at hv
  | cons x xs ih =>
    simp only [pairwiseNoClash, Bool.and_eq_true] at h
    obtain ⟨hx, hxs⟩ := h
    intro s v hv w hw av aw
    simp only [List.mem_cons] at hv hw
    unfold noClashWithAll at hx
    simp only [List.all_eq_true, Bool.not_eq_eq_eq_not, Bool.not_true] at hx
    rcases hv with rfl | hv <;> rcases hw with rfl | hw
    · rfl
    · have := accepts_both_clash d v w s av aw
      rw [hx w hw] at this; cases this
    · have := accepts_both_clash d w v s aw av
      rw [hx v hv] at this; cases this
    · exact ih hxs s v hv w hw av aw

/-- soundness of the decidable domain test used by the harness -/
theorem noOverlapB_sound (d : EnumDef) (h : noOverlapB d = true) : NoOverlap d :=
  pairwiseNoClash_sound d d.candidates h

end Strum

namespace Strum

theorem clash_witness (d : EnumDef) (v w : Variant) (h : variantsClash d v w = true) :
    ∃ s, accepts d v s = true ∧ accepts d w s = true := by
  unfold variantsClash at h
  simp only [List.any_eq_true] at h
  obtain ⟨a, ha, b, hb, hc⟩ := h
  unfold spellingsClash at hc
  unfold accepts
  cases hc1 : d.ciOf v <;> cases hc2 : d.ciOf w <;> simp [hc1, hc2] at hc ⊢
  · exact ⟨a, ha, hc ▸ hb⟩
  · exact ⟨a, ha, b, hb, hc⟩
  · exact ⟨b, ⟨a, ha, eqIgnoreAsciiCase_symm hc⟩, hb⟩
  · exact ⟨b, ⟨a, ha, eqIgnoreAsciiCase_symm hc⟩, b, hb, eqIgnoreAsciiCase_refl b⟩

theorem pairwiseNoClash_complete (d : EnumDef) (l : List Variant) (hnd : l.Nodup)
    (h : ∀ s, ∀ v ∈ l, ∀ w ∈ l, accepts d v s = true → accepts d w s = true → v = w) :
    pairwiseNoClash d l = true := by
  induction l with
  | nil => rfl
  | cons x xs ih =>
    simp only [pairwiseNoClash, Bool.and_eq_true]
    rw [List.nodup_cons] at hnd
    constructor
    · unfold noClashWithAll
      simp only [List.all_eq_true, Bool.not_eq_eq_eq_not, Bool.not_true]
      intro w hw
      cases hcl : variantsClash d x w with
      | false => rfl
      | true =>
        obtain ⟨s, h1, h2⟩ := clash_witness d x w hcl
        have := h s x (by simp) w (by simp [hw]) h1 h2
        subst this
        exact absurd hw hnd.1
    · exact ih hnd.2 (fun s v hv w hw => h s v (by simp [hv]) w (by simp [hw]))

/-- the decidable test is exact on enums whose candidate variants are pairwise different
    (rustc rejects duplicate variant names) -/
theorem noOverlapB_iff (d : EnumDef) (hnd : d.candidates.Nodup) : noOverlapB d = true ↔ NoOverlap d :=
  ⟨noOverlapB_sound d, pairwiseNoClash_complete d d.candidates hnd⟩

end Strum
