import StrumProofs.Lemmas.Bytes
namespace Strum

/-- (ident, payload) of an arm: all that the generated `match` returns -/
def Arm.result (a : Arm) : Bytes × List FieldInit := (a.ident, a.payload)

theorem firstMatch_append (as bs : List Arm) (s : Bytes) :
    firstMatch (as ++ bs) s = (match firstMatch as s with | some a => some a | none => firstMatch bs s) := by
  induction as with
  | nil => simp [firstMatch]
  | cons a as ih =>
    simp only [List.cons_append, firstMatch]
    split <;> simp_all

theorem firstMatch_none_iff (as : List Arm) (s : Bytes) :
    firstMatch as s = none ↔ ∀ a ∈ as, a.pat.accepts s = false := by
  induction as with
  | nil => simp [firstMatch]
  | cons a as ih =>
    simp only [firstMatch]
    split <;> simp_all

theorem firstMatch_some_mem {as : List Arm} {s : Bytes} {a : Arm} (h : firstMatch as s = some a) :
    a ∈ as ∧ a.pat.accepts s = true := by
  induction as with
  | nil => simp [firstMatch] at h
  | cons b bs ih =>
    simp only [firstMatch] at h
    split at h
    · simp_all
    · have := ih h; simp_all

/-- one arm per spelling, literal or guarded: what `armsOfVariant` produces without phf -/
theorem armsOfVariant_nophf (d : EnumDef) (h : d.usePhf = false) (v : Variant) :
    armsOfVariant d v = (serializations d.style v).map (fun sp =>
      ⟨if d.ciOf v then .guardCI sp else .lit sp, v.ident, payloadOf v⟩) := by
  unfold armsOfVariant
  generalize serializations d.style v = l
  induction l with
  | nil => simp
  | cons x xs ih =>
    simp only [List.filterMap_cons, List.map_cons]
    cases hc : d.ciOf v <;> simp_all

theorem firstMatch_armsOfVariant (d : EnumDef) (h : d.usePhf = false) (v : Variant) (s : Bytes) :
    (firstMatch (armsOfVariant d v) s).map Arm.result =
      if accepts d v s then some (v.ident, payloadOf v) else none := by
  rw [armsOfVariant_nophf d h v]
  unfold accepts
  generalize serializations d.style v = l
  induction l with
  | nil => simp [firstMatch]
  | cons x xs ih =>
    simp only [List.map_cons, firstMatch, List.any_cons]
    cases hc : d.ciOf v
    · simp only [Bool.false_eq_true, ↓reduceIte, Pat.accepts] at ih ⊢
      by_cases hx : (s == x) = true
      · simp [hx, Arm.result]
      · simp only [hx, Bool.false_eq_true, ↓reduceIte, Bool.false_or]
        simpa [hc] using ih
    · simp only [↓reduceIte, Pat.accepts] at ih ⊢
      by_cases hx : eqIgnoreAsciiCase s x = true
      · simp [hx, Arm.result]
      · simp only [hx, Bool.false_eq_true, ↓reduceIte, Bool.false_or]
        simpa [hc] using ih

theorem firstMatch_flatMap (d : EnumDef) (h : d.usePhf = false) (vs : List Variant) (s : Bytes) :
    (firstMatch (vs.flatMap (armsOfVariant d)) s).map Arm.result =
      (vs.find? (fun v => accepts d v s)).map (fun v => (v.ident, payloadOf v)) := by
  induction vs with
  | nil => simp [firstMatch]
  | cons v vs ih =>
    simp only [List.flatMap_cons, firstMatch_append, List.find?_cons]
    have hv := firstMatch_armsOfVariant d h v s
    cases hm : firstMatch (armsOfVariant d v) s with
    | some a =>
      rw [hm] at hv
      by_cases ha : accepts d v s = true
      · simp_all
      · simp_all
    | none =>
      rw [hm] at hv
      by_cases ha : accepts d v s = true
      · simp_all
      · simp_all

end Strum
