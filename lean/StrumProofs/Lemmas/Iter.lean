import StrumModel
/-
Refinement of the (idx, back_idx) iterator machine to a plain list of remaining items.
-/
namespace Strum

theorem W_eq : W = 18446744073709551616 := by decide

/-- both cursors stay within `[0, N]` -/
def IterInv (N : Nat) (s : IterState) : Prop := s.idx ≤ N ∧ s.back ≤ N

/-- the remaining items: indices `idx, idx+1, .., N - back - 1` (empty when the cursors have met or crossed) -/
def iterAbs (N : Nat) (s : IterState) : List Nat := List.range' s.idx (N - s.idx - s.back)

/-! ### the specification: a double-ended queue that is never refilled -/

def specNth (l : List Nat) (n : Nat) : List Nat × Option Nat :=
  if n < l.length then (l.drop (n + 1), l[n]?) else ([], none)

def specNext (l : List Nat) : List Nat × Option Nat := (l.tail, l.head?)

def specNextBack (l : List Nat) : List Nat × Option Nat := (l.dropLast, l.getLast?)

def specNthBack (l : List Nat) (n : Nat) : List Nat × Option Nat :=
  if n < l.length then (l.take (l.length - n - 1), l[l.length - n - 1]?) else ([], none)

theorem specNext_eq_nth0 (l : List Nat) : specNext l = specNth l 0 := by
  cases l <;> simp [specNext, specNth]

theorem iterInv_init (N : Nat) : IterInv N iterInit := ⟨Nat.zero_le _, Nat.zero_le _⟩

theorem iterAbs_init (N : Nat) : iterAbs N iterInit = List.range N := by
  simp [iterAbs, iterInit, List.range_eq_range']

/-- **`nth` refines the list spec for every `n`** (also `n ≥ 2^64 - N`, where the pinned code overflowed),
    keeps the invariant, and cannot panic (it is total in the model: saturating arithmetic). -/
theorem nth_refines (N : Nat) (hN : 2 * N + 1 < W) (s : IterState) (h : IterInv N s) (n : Nat) :
    IterInv N (nth N s n).1 ∧ specNth (iterAbs N s) n = (iterAbs N (nth N s n).1, (nth N s n).2) := by
  obtain ⟨h1, h2⟩ := h
  rw [W_eq] at hN
  unfold nth specNth iterAbs IterInv
  simp only [List.length_range']
  by_cases hn : n < N - s.idx - s.back
  · -- inside the window: all additions are exact
    have e1 : satAdd s.idx n = s.idx + n := by unfold satAdd; rw [W_eq]; split <;> omega
    have e2 : satAdd (s.idx + n) 1 = s.idx + n + 1 := by unfold satAdd; rw [W_eq]; split <;> omega
    have e3 : satAdd (s.idx + n + 1) s.back = s.idx + n + 1 + s.back := by unfold satAdd; rw [W_eq]; split <;> omega
    have hlt : ¬ (N < s.idx + n + 1 + s.back) := by omega
    simp only [e1, e2, e3, hlt, ↓reduceIte, hn]
    refine ⟨⟨by omega, h2⟩, ?_⟩
    have hg : getIdx N (s.idx + n + 1 - 1) = some (s.idx + n) := by
      unfold getIdx; simp only [Nat.add_sub_cancel]; split <;> first | rfl | omega
    rw [hg, List.drop_range', List.getElem?_range']
    simp only [Nat.mul_one, Nat.one_mul]
    congr 2
    · omega
    · omega
  · -- at or past the end: freeze idx at N
    have hgt : N < satAdd (satAdd (satAdd s.idx n) 1) s.back := by
      unfold satAdd; rw [W_eq]; split <;> split <;> split <;> omega
    simp only [hgt, ↓reduceIte, hn]
    refine ⟨⟨Nat.le_refl _, h2⟩, ?_⟩
    simp

theorem next_refines (N : Nat) (hN : 2 * N + 1 < W) (s : IterState) (h : IterInv N s) :
    IterInv N (next N s).1 ∧ specNext (iterAbs N s) = (iterAbs N (next N s).1, (next N s).2) := by
  rw [specNext_eq_nth0]; exact nth_refines N hN s h 0

/-- **`next_back` refines the list spec and never overflows**, in debug and in release builds. -/
theorem nextBack_refines (m : Mode) (N : Nat) (hN : 2 * N + 1 < W) (s : IterState) (h : IterInv N s) :
    ∃ s' o, nextBack m N s = some (s', o) ∧ IterInv N s' ∧ specNextBack (iterAbs N s) = (iterAbs N s', o) := by
  obtain ⟨h1, h2⟩ := h
  rw [W_eq] at hN
  have a1 : addU m s.back 1 = some (s.back + 1) := by unfold addU; rw [W_eq]; split <;> first | rfl | omega
  have a2 : addU m s.idx (s.back + 1) = some (s.idx + (s.back + 1)) := by
    unfold addU; rw [W_eq]; split <;> first | rfl | omega
  unfold nextBack
  simp only [a1, a2]
  by_cases hover : N < s.idx + (s.back + 1)
  · simp only [hover, ↓reduceIte]
    refine ⟨_, _, rfl, ⟨h1, Nat.le_refl _⟩, ?_⟩
    have hz : N - s.idx - s.back = 0 := by omega
    simp [specNextBack, iterAbs, hz]
  · have a3 : subU m N (s.back + 1) = some (N - (s.back + 1)) := by
      unfold subU; split <;> first | rfl | omega
    simp only [hover, ↓reduceIte, a3]
    refine ⟨_, _, rfl, ⟨h1, by simp only; omega⟩, ?_⟩
    have hpos : N - s.idx - s.back = (N - s.idx - (s.back + 1)) + 1 := by omega
    have hg : getIdx N (N - (s.back + 1)) = some (N - (s.back + 1)) := by
      unfold getIdx; split <;> first | rfl | omega
    simp only [specNextBack, iterAbs, hg]
    rw [hpos, List.range'_1_concat]
    simp only [List.dropLast_concat, List.getLast?_concat, Prod.mk.injEq, true_and, Option.some.injEq]
    omega

/-- **`len()` / `size_hint()` are exact and never overflow.** -/
theorem sizeHint_refines (m : Mode) (N : Nat) (hN : 2 * N + 1 < W) (s : IterState) (h : IterInv N s) :
    sizeHint m N s = some (iterAbs N s).length := by
  obtain ⟨h1, h2⟩ := h
  rw [W_eq] at hN
  have a1 : addU m s.idx s.back = some (s.idx + s.back) := by
    unfold addU; rw [W_eq]; split <;> first | rfl | omega
  unfold sizeHint iterAbs
  simp only [a1, List.length_range']
  by_cases hge : N ≤ s.idx + s.back
  · simp only [hge, ↓reduceIte]; congr 1; omega
  · have b1 : subU m N s.idx = some (N - s.idx) := by unfold subU; split <;> first | rfl | omega
    have b2 : subU m (N - s.idx) s.back = some (N - s.idx - s.back) := by
      unfold subU; split <;> first | rfl | omega
    simp only [hge, ↓reduceIte, b1, b2]

theorem specNthBack_zero (l : List Nat) : specNthBack l 0 = specNextBack l := by
  unfold specNthBack specNextBack
  cases hl : l with
  | nil => simp
  | cons a as =>
    simp only [List.length_cons, Nat.zero_lt_succ, ↓reduceIte, Nat.sub_zero, Nat.add_sub_cancel]
    rw [List.dropLast_eq_take, List.getLast?_eq_getElem?]
    simp

theorem specNthBack_succ (l : List Nat) (hl : l ≠ []) (n : Nat) :
    specNthBack l (n + 1) = specNthBack l.dropLast n := by
  unfold specNthBack
  have hlen : l.dropLast.length = l.length - 1 := by simp
  have hpos : 0 < l.length := List.length_pos_iff.2 hl
  rw [hlen]
  by_cases h : n + 1 < l.length
  · have h' : n < l.length - 1 := by omega
    simp only [h, h', ↓reduceIte, Prod.mk.injEq]
    constructor
    · rw [List.dropLast_eq_take, List.take_take]
      congr 1; omega
    · rw [List.dropLast_eq_take, List.getElem?_take]
      have : l.length - 1 - n - 1 < l.length - 1 := by omega
      simp only [this, ↓reduceIte]
      congr 1
      omega
  · have h' : ¬ n < l.length - 1 := by omega
    simp [h, h']

/-- **`nth_back(n)` (core's default body: `n` × `next_back` with early exit, then `next_back`)
    refines the list spec for every `n` and never overflows.** -/
theorem nthBack_refines (m : Mode) (N : Nat) (hN : 2 * N + 1 < W) (n : Nat) (s : IterState) (h : IterInv N s) :
    ∃ s' o, nthBack m N n s = some (s', o) ∧ IterInv N s' ∧ specNthBack (iterAbs N s) n = (iterAbs N s', o) := by
  induction n generalizing s with
  | zero =>
    rw [specNthBack_zero]
    simpa [nthBack] using nextBack_refines m N hN s h
  | succ k ih =>
    obtain ⟨s1, o1, e1, i1, r1⟩ := nextBack_refines m N hN s h
    simp only [nthBack, e1]
    unfold specNextBack at r1
    simp only [Prod.mk.injEq] at r1
    cases o1 with
    | none =>
      have hnil : iterAbs N s = [] := by
        have := r1.2; simpa using this
      refine ⟨s1, none, rfl, i1, ?_⟩
      rw [← r1.1, hnil]
      simp [specNthBack]
    | some x =>
      have hne : iterAbs N s ≠ [] := by
        intro hnil; rw [hnil] at r1; simp at r1
      obtain ⟨s2, o2, e2, i2, r2⟩ := ih s1 i1
      refine ⟨s2, o2, e2, i2, ?_⟩
      rw [specNthBack_succ _ hne, r1.1, r2]

end Strum

namespace Strum

/-! ### several iterators (clones) -/

def specStep (ls : List (List Nat)) (op : IterOp) : List (List Nat) × IterOut :=
  match op with
  | .next i =>
    match ls[i]? with
    | none => (ls, .item none)
    | some l => (ls.set i (specNext l).1, .item (specNext l).2)
  | .nth i n =>
    match ls[i]? with
    | none => (ls, .item none)
    | some l => (ls.set i (specNth l n).1, .item (specNth l n).2)
  | .nextBack i =>
    match ls[i]? with
    | none => (ls, .item none)
    | some l => (ls.set i (specNextBack l).1, .item (specNextBack l).2)
  | .nthBack i n =>
    match ls[i]? with
    | none => (ls, .item none)
    | some l => (ls.set i (specNthBack l n).1, .item (specNthBack l n).2)
  | .len i =>
    match ls[i]? with
    | none => (ls, .len 0)
    | some l => (ls, .len l.length)
  | .clone i =>
    match ls[i]? with
    | none => (ls, .cloned)
    | some l => (ls ++ [l], .cloned)

def specRun : List (List Nat) → List IterOp → List IterOut
  | _, [] => []
  | ls, op :: ops => (specStep ls op).2 :: specRun (specStep ls op).1 ops

def AllInv (N : Nat) (slots : List IterState) : Prop := ∀ s ∈ slots, IterInv N s

theorem allInv_set (N : Nat) (slots : List IterState) (i : Nat) (s : IterState)
    (h : AllInv N slots) (hs : IterInv N s) : AllInv N (slots.set i s) := by
  intro x hx
  rcases List.mem_or_eq_of_mem_set hx with hx | rfl
  · exact h x hx
  · exact hs

theorem step_refines (m : Mode) (N : Nat) (hN : 2 * N + 1 < W) (slots : List IterState)
    (h : AllInv N slots) (op : IterOp) :
    ∃ slots' o, iterStep m N slots op = some (slots', o) ∧ AllInv N slots' ∧
      specStep (slots.map (iterAbs N)) op = (slots'.map (iterAbs N), o) := by
  cases op with
  | next i =>
    simp only [iterStep, specStep, List.getElem?_map]
    cases hs : slots[i]? with
    | none => exact ⟨_, _, rfl, h, rfl⟩
    | some s =>
      have hi := h s (List.mem_of_getElem? hs)
      obtain ⟨i1, r1⟩ := next_refines N hN s hi
      refine ⟨_, _, rfl, allInv_set N slots i _ h i1, ?_⟩
      simp only [Option.map_some, setSlot, List.map_set, r1]
  | nth i n =>
    simp only [iterStep, specStep, List.getElem?_map]
    cases hs : slots[i]? with
    | none => exact ⟨_, _, rfl, h, rfl⟩
    | some s =>
      have hi := h s (List.mem_of_getElem? hs)
      obtain ⟨i1, r1⟩ := nth_refines N hN s hi n
      refine ⟨_, _, rfl, allInv_set N slots i _ h i1, ?_⟩
      simp only [Option.map_some, setSlot, List.map_set, r1]
  | nextBack i =>
    simp only [iterStep, specStep, List.getElem?_map]
    cases hs : slots[i]? with
    | none => exact ⟨_, _, rfl, h, rfl⟩
    | some s =>
      have hi := h s (List.mem_of_getElem? hs)
      obtain ⟨s', o, e1, i1, r1⟩ := nextBack_refines m N hN s hi
      refine ⟨setSlot slots i s', .item o, by simp [e1], allInv_set N slots i _ h i1, ?_⟩
      simp only [Option.map_some, setSlot, List.map_set, r1]
  | nthBack i n =>
    simp only [iterStep, specStep, List.getElem?_map]
    cases hs : slots[i]? with
    | none => exact ⟨_, _, rfl, h, rfl⟩
    | some s =>
      have hi := h s (List.mem_of_getElem? hs)
      obtain ⟨s', o, e1, i1, r1⟩ := nthBack_refines m N hN n s hi
      refine ⟨setSlot slots i s', .item o, by simp [e1], allInv_set N slots i _ h i1, ?_⟩
      simp only [Option.map_some, setSlot, List.map_set, r1]
  | len i =>
    simp only [iterStep, specStep, List.getElem?_map]
    cases hs : slots[i]? with
    | none => exact ⟨_, _, rfl, h, rfl⟩
    | some s =>
      have hi := h s (List.mem_of_getElem? hs)
      refine ⟨slots, .len (iterAbs N s).length, by simp [sizeHint_refines m N hN s hi], h, ?_⟩
      simp
  | clone i =>
    simp only [iterStep, specStep, List.getElem?_map]
    cases hs : slots[i]? with
    | none => exact ⟨_, _, rfl, h, rfl⟩
    | some s =>
      have hi := h s (List.mem_of_getElem? hs)
      refine ⟨slots ++ [s], .cloned, rfl, ?_, by simp⟩
      intro x hx
      simp only [List.mem_append, List.mem_singleton] at hx
      rcases hx with hx | rfl
      · exact h x hx
      · exact hi

/-- **Every history, every depth**: the machine never panics and produces exactly the outputs of the
    list specification. -/
theorem run_refines (m : Mode) (N : Nat) (hN : 2 * N + 1 < W) (ops : List IterOp) (slots : List IterState)
    (h : AllInv N slots) :
    iterRun m N slots ops = some (specRun (slots.map (iterAbs N)) ops) := by
  induction ops generalizing slots with
  | nil => rfl
  | cons op ops ih =>
    obtain ⟨slots', o, e, hi, r⟩ := step_refines m N hN slots h op
    simp only [iterRun, e, specRun, r, ih slots' hi, Option.map_some]

theorem collectFuel_eq (N : Nat) (hN : 2 * N + 1 < W) (f : Nat) (s : IterState) (h : IterInv N s)
    (hf : (iterAbs N s).length ≤ f) : collectFuel N f s = iterAbs N s := by
  induction f generalizing s with
  | zero =>
    have : iterAbs N s = [] := List.eq_nil_of_length_eq_zero (Nat.le_zero.1 hf)
    simp [collectFuel, this]
  | succ k ih =>
    obtain ⟨i1, r1⟩ := next_refines N hN s h
    unfold specNext at r1
    simp only [Prod.mk.injEq] at r1
    unfold collectFuel
    cases hl : iterAbs N s with
    | nil =>
      rw [hl] at r1
      have : (next N s).2 = none := by simpa using r1.2.symm
      rw [show next N s = ((next N s).1, (next N s).2) from rfl, this]
    | cons x xs =>
      rw [hl] at r1 hf
      have h2 : (next N s).2 = some x := by simpa using r1.2.symm
      have h1 : iterAbs N (next N s).1 = xs := by simpa using r1.1.symm
      rw [show next N s = ((next N s).1, (next N s).2) from rfl, h2]
      simp only
      rw [ih (next N s).1 i1 (by rw [h1]; simp at hf; omega), h1]

theorem collectBackFuel_eq (m : Mode) (N : Nat) (hN : 2 * N + 1 < W) (f : Nat) (s : IterState) (h : IterInv N s)
    (hf : (iterAbs N s).length ≤ f) : collectBackFuel m N f s = (iterAbs N s).reverse := by
  induction f generalizing s with
  | zero =>
    have : iterAbs N s = [] := List.eq_nil_of_length_eq_zero (Nat.le_zero.1 hf)
    simp [collectBackFuel, this]
  | succ k ih =>
    obtain ⟨s', o, e1, i1, r1⟩ := nextBack_refines m N hN s h
    unfold specNextBack at r1
    simp only [Prod.mk.injEq] at r1
    unfold collectBackFuel
    simp only [e1]
    cases o with
    | none =>
      have : iterAbs N s = [] := by simpa using r1.2
      simp [this]
    | some x =>
      have hne : iterAbs N s ≠ [] := by intro hn; rw [hn] at r1; simp at r1
      have hsplit : iterAbs N s = (iterAbs N s).dropLast ++ [x] := by
        have hx : (iterAbs N s).getLast hne = x := by
          have := r1.2
          rw [List.getLast?_eq_some_getLast hne] at this
          exact Option.some.inj this
        rw [← hx]
        exact (List.dropLast_concat_getLast hne).symm
      simp only
      rw [ih s' i1 (by rw [← r1.1]; simp; omega)]
      rw [← r1.1]
      conv => rhs; rw [hsplit]
      simp

end Strum
