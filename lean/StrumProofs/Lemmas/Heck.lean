import StrumModel
/-
heck's scanning state machine (`segGo`) equals a local, declarative word-boundary rule (`specGo`):

  there is a word boundary *before* a character `c` iff `c` is upper-case and the previous letter `p`
  of the segment (digits skipped) is lower-case, or is upper-case while the next character is
  lower-case (the acronym rule: `HTTPServer` = `HTTP` + `Server`).
-/
namespace Strum

/-- the declarative boundary rule: previous letter `p`, this char `c`, next char `n` -/
def boundaryBefore (p : Option Nat) (c : Nat) (n : Option Nat) : Bool :=
  isUpper c &&
    (match p with
     | none => false
     | some p => isLower p || (isUpper p && (match n with | some n => isLower n | none => false)))

def nextPrev (p : Option Nat) (c : Nat) : Option Nat := if isLetter c then some c else p

/-- words of one segment according to the declarative rule (left to right, `cur` = the word being built) -/
def specGo : Option Nat → Bytes → Bytes → List Bytes
  | _, cur, [] => if cur.isEmpty then [] else [cur]
  | p, cur, c :: rest =>
    if boundaryBefore p c rest.head? then cur :: specGo (nextPrev p c) [c] rest
    else specGo (nextPrev p c) (cur ++ [c]) rest

def caseOf : Option Nat → WordMode
  | none => .boundary
  | some p => if isLower p then .lower else if isUpper p then .upper else .boundary

theorem lower_not_upper (c : Nat) (h : isLower c = true) : isUpper c = false := by
  unfold isLower isUpper at *; simp at *; omega

theorem upper_not_lower (c : Nat) (h : isUpper c = true) : isLower c = false := by
  unfold isLower isUpper at *; simp at *; omega

/-- when the next character is lower-case the tri-state does not matter
    (this is why heck's reset to `Boundary` in the acronym branch is harmless) -/
theorem segGo_mode_irrelevant (m1 m2 : WordMode) (acc : Bytes) (n : Nat) (r : Bytes) (hn : isLower n = true) :
    segGo m1 acc (n :: r) = segGo m2 acc (n :: r) := by
  cases r with
  | nil => simp [segGo]
  | cons n2 r' =>
    have hu := lower_not_upper n hn
    simp [segGo, hn, hu]

theorem caseOf_nextPrev (p : Option Nat) (c : Nat) (mode : WordMode) (hm : mode = caseOf p) :
    (if isLower c then WordMode.lower else if isUpper c then WordMode.upper else mode) = caseOf (nextPrev p c) := by
  unfold nextPrev isLetter
  by_cases hl : isLower c = true
  · simp [hl, caseOf]
  · by_cases hu : isUpper c = true
    · simp [hl, hu, caseOf]
    · simp [hl, hu, hm]

theorem caseOf_lower_iff (p : Option Nat) : caseOf p = .lower ↔ ∃ q, p = some q ∧ isLower q = true := by
  cases p with
  | none => simp [caseOf]
  | some q =>
    simp only [caseOf, Option.some.injEq, exists_eq_left']
    by_cases hl : isLower q = true
    · simp [hl]
    · by_cases hu : isUpper q = true <;> simp [hl, hu]

theorem caseOf_upper_iff (p : Option Nat) : caseOf p = .upper ↔ ∃ q, p = some q ∧ isUpper q = true := by
  cases p with
  | none => simp [caseOf]
  | some q =>
    simp only [caseOf, Option.some.injEq, exists_eq_left']
    by_cases hl : isLower q = true
    · simp [hl, lower_not_upper q hl]
    · by_cases hu : isUpper q = true <;> simp [hl, hu]

/-- a pending split: the previous letter is lower-case and the coming character is upper-case -/
def pendingSplit (p : Option Nat) (c : Nat) : Bool := caseOf p == .lower && isUpper c

theorem boundary_of_pending (p : Option Nat) (c : Nat) (n : Option Nat) (h : pendingSplit p c = true) :
    boundaryBefore p c n = true := by
  unfold pendingSplit at h
  simp only [Bool.and_eq_true, beq_iff_eq] at h
  obtain ⟨q, rfl, hq⟩ := (caseOf_lower_iff p).1 h.1
  simp [boundaryBefore, h.2, hq]

def nextModeOf (mode : WordMode) (c : Nat) : WordMode :=
  if isLower c then .lower else if isUpper c then .upper else mode

theorem segGo_cons2 (mode : WordMode) (acc : Bytes) (c n : Nat) (rest : Bytes) :
    segGo mode acc (c :: n :: rest) =
      if nextModeOf mode c = .lower ∧ isUpper n = true then (acc ++ [c]) :: segGo .boundary [] (n :: rest)
      else if mode = .upper ∧ isUpper c = true ∧ isLower n = true then acc :: segGo .boundary [c] (n :: rest)
      else segGo (nextModeOf mode c) (acc ++ [c]) (n :: rest) := by
  cases hl : isLower c <;> cases hu : isUpper c <;> cases hn : isUpper n <;> cases hln : isLower n <;>
    cases mode <;> simp [segGo, nextModeOf, hl, hu, hn, hln]

theorem specGo_cons (p : Option Nat) (cur : Bytes) (c : Nat) (rest : Bytes) :
    specGo p cur (c :: rest) =
      if boundaryBefore p c rest.head? = true then cur :: specGo (nextPrev p c) [c] rest
      else specGo (nextPrev p c) (cur ++ [c]) rest := rfl

theorem nextModeOf_caseOf (p : Option Nat) (c : Nat) (mode : WordMode) (hm : mode = caseOf p) :
    nextModeOf mode c = caseOf (nextPrev p c) := caseOf_nextPrev p c mode hm

theorem not_lower_of_not_pending (p : Option Nat) (c : Nat) (hp : pendingSplit p c = false) (hu : isUpper c = true) :
    caseOf p ≠ .lower := by
  unfold pendingSplit at hp
  simp only [hu, Bool.and_true, beq_eq_false_iff_ne, ne_eq] at hp
  exact hp

/-- the declarative decision at `c`, given that no split is pending, in the machine's vocabulary -/
theorem boundary_iff_acronym (p : Option Nat) (c : Nat) (n : Option Nat) (hp : pendingSplit p c = false) :
    boundaryBefore p c n = true ↔
      (caseOf p = .upper ∧ isUpper c = true ∧ ∃ x, n = some x ∧ isLower x = true) := by
  unfold boundaryBefore
  by_cases hu : isUpper c = true
  · have hnl := not_lower_of_not_pending p c hp hu
    cases p with
    | none => simp [caseOf]
    | some q =>
      have hql : isLower q = false := by
        cases hl : isLower q
        · rfl
        · exact absurd ((caseOf_lower_iff (some q)).2 ⟨q, rfl, hl⟩) hnl
      simp only [hu, hql, Bool.false_or, Bool.true_and, Bool.and_eq_true, true_and]
      constructor
      · rintro ⟨hqu, hn⟩
        refine ⟨(caseOf_upper_iff _).2 ⟨q, rfl, hqu⟩, ?_⟩
        cases n with
        | none => simp at hn
        | some x => exact ⟨x, rfl, hn⟩
      · rintro ⟨hcu, x, rfl, hx⟩
        obtain ⟨q', hq', hq''⟩ := (caseOf_upper_iff _).1 hcu
        cases hq'
        exact ⟨hq'', hx⟩
  · simp [hu]

/-- **Core refinement** (`P`) together with the "fresh word" statement (`Q`), by simultaneous induction. -/
theorem segGo_specGo_both (rest : Bytes) :
    (∀ (mode : WordMode) (acc : Bytes) (p : Option Nat) (c : Nat),
      mode = caseOf p → pendingSplit p c = false →
      segGo mode acc (c :: rest) = specGo p acc (c :: rest)) ∧
    (∀ (p : Option Nat) (cur : Bytes) (n : Nat), pendingSplit p n = true →
      specGo p cur (n :: rest) = cur :: segGo .boundary [] (n :: rest)) := by
  induction rest with
  | nil =>
    constructor
    · intro mode acc p c hm hp
      have hb : boundaryBefore p c none = false := by
        cases h : boundaryBefore p c none
        · rfl
        · obtain ⟨_, _, x, hx, _⟩ := (boundary_iff_acronym p c none hp).1 h
          cases hx
      rw [specGo_cons]
      simp [segGo, specGo, hb]
    · intro p cur n hpend
      have hb := boundary_of_pending p n none hpend
      rw [specGo_cons]
      simp [segGo, specGo, hb]
  | cons n r ih =>
    obtain ⟨ihP, ihQ⟩ := ih
    constructor
    · intro mode acc p c hm hp
      rw [segGo_cons2, specGo_cons]
      have hnm := nextModeOf_caseOf p c mode hm
      by_cases h1 : nextModeOf mode c = .lower ∧ isUpper n = true
      · -- (1) split after `c`; the spec splits when it reaches `n`
        have hcu : isUpper c = false := by
          cases hu : isUpper c
          · rfl
          · have : nextModeOf mode c = .upper := by
              simp [nextModeOf, upper_not_lower c hu, hu]
            rw [this] at h1; exact absurd h1.1 (by simp)
        have hb : boundaryBefore p c (n :: r).head? = false := by
          simp [boundaryBefore, hcu]
        have hpend : pendingSplit (nextPrev p c) n = true := by
          unfold pendingSplit; rw [← hnm]; simp [h1.1, h1.2]
        simp only [h1, and_self, ↓reduceIte, hb, Bool.false_eq_true]
        exact (ihQ (nextPrev p c) (acc ++ [c]) n hpend).symm
      · simp only [h1, ↓reduceIte]
        by_cases h2 : mode = .upper ∧ isUpper c = true ∧ isLower n = true
        · -- (2) acronym rule: split before `c`
          have hb : boundaryBefore p c (n :: r).head? = true :=
            (boundary_iff_acronym p c _ hp).2 ⟨hm ▸ h2.1, h2.2.1, n, rfl, h2.2.2⟩
          have hp2 : nextPrev p c = some c := by simp [nextPrev, isLetter, h2.2.1]
          simp only [h2, and_self, ↓reduceIte, hb, hp2]
          rw [segGo_mode_irrelevant .boundary .upper [c] n r h2.2.2]
          congr 1
          apply ihP
          · simp [caseOf, upper_not_lower c h2.2.1, h2.2.1]
          · simp [pendingSplit, caseOf, upper_not_lower c h2.2.1, h2.2.1]
        · -- (3) no boundary here
          have hb : boundaryBefore p c (n :: r).head? = false := by
            cases h : boundaryBefore p c (n :: r).head?
            · rfl
            · obtain ⟨hcu, hu, x, hx, hxl⟩ := (boundary_iff_acronym p c _ hp).1 h
              simp only [List.head?_cons, Option.some.injEq] at hx
              subst hx
              exact absurd ⟨hm ▸ hcu, hu, hxl⟩ h2
          simp only [h2, ↓reduceIte, hb, Bool.false_eq_true]
          apply ihP
          · exact hnm
          · unfold pendingSplit
            rw [← hnm]
            cases hd : (nextModeOf mode c == WordMode.lower)
            · simp
            · cases hu : isUpper n
              · simp
              · exact absurd ⟨by simpa using hd, hu⟩ h1
    · intro p cur x hpend
      have hb := boundary_of_pending p x (n :: r).head? hpend
      have hxu : isUpper x = true := by
        unfold pendingSplit at hpend; simp only [Bool.and_eq_true] at hpend; exact hpend.2
      have hxl := upper_not_lower x hxu
      rw [specGo_cons, segGo_cons2]
      have hnm : nextModeOf .boundary x = .upper := by simp [nextModeOf, hxl, hxu]
      have hp2 : nextPrev p x = some x := by simp [nextPrev, isLetter, hxu]
      simp only [hb, ↓reduceIte, hnm, reduceCtorEq, false_and, List.nil_append, hp2]
      congr 1
      symm
      apply ihP
      · simp [caseOf, hxl, hxu]
      · simp [pendingSplit, caseOf, hxl, hxu]

theorem segGo_eq_specGo (rest : Bytes) (mode : WordMode) (acc : Bytes) (p : Option Nat) (c : Nat)
    (hm : mode = caseOf p) (hp : pendingSplit p c = false) :
    segGo mode acc (c :: rest) = specGo p acc (c :: rest) := (segGo_specGo_both rest).1 mode acc p c hm hp

/-- words of a whole identifier by the declarative rule -/
def specWords (s : Bytes) : List Bytes := (splitNonAlnum [] s).flatMap (specGo none [])

theorem segGo_eq_specGo_seg (seg : Bytes) : segGo .boundary [] seg = specGo none [] seg := by
  cases seg with
  | nil => simp [segGo, specGo]
  | cons c rest => exact segGo_eq_specGo rest .boundary [] none c rfl (by simp [pendingSplit, caseOf])

/-- **heck's word list = the declarative word list, for every byte string.** -/
theorem heckWords_eq_specWords (s : Bytes) : heckWords s = specWords s := by
  unfold heckWords specWords
  congr 1
  funext seg
  exact segGo_eq_specGo_seg seg

end Strum
