import StrumModel
namespace Strum

theorem eqIgnoreAsciiCase_iff_map (a b : Bytes) :
    eqIgnoreAsciiCase a b = true ↔ a.map asciiLower = b.map asciiLower := by
  induction a generalizing b with
  | nil => cases b <;> simp [eqIgnoreAsciiCase]
  | cons x xs ih =>
    cases b with
    | nil => simp [eqIgnoreAsciiCase]
    | cons y ys => simp [eqIgnoreAsciiCase, ih]

theorem eqIgnoreAsciiCase_refl (a : Bytes) : eqIgnoreAsciiCase a a = true :=
  (eqIgnoreAsciiCase_iff_map a a).2 rfl

theorem eqIgnoreAsciiCase_symm {a b : Bytes} (h : eqIgnoreAsciiCase a b = true) :
    eqIgnoreAsciiCase b a = true :=
  (eqIgnoreAsciiCase_iff_map b a).2 ((eqIgnoreAsciiCase_iff_map a b).1 h).symm

theorem eqIgnoreAsciiCase_trans {a b c : Bytes} (h1 : eqIgnoreAsciiCase a b = true)
    (h2 : eqIgnoreAsciiCase b c = true) : eqIgnoreAsciiCase a c = true :=
  (eqIgnoreAsciiCase_iff_map a c).2
    (((eqIgnoreAsciiCase_iff_map a b).1 h1).trans ((eqIgnoreAsciiCase_iff_map b c).1 h2))

theorem eqIgnoreAsciiCase_length {a b : Bytes} (h : eqIgnoreAsciiCase a b = true) : a.length = b.length := by
  have := congrArg List.length ((eqIgnoreAsciiCase_iff_map a b).1 h)
  simpa using this

end Strum
