import StrumModel
namespace Strum

theorem eqIgnoreAsciiCase_iff_map (a b : Bytes) :
    eqIgnoreAsciiCase a b = true ↔ a.map asciiLower = b.map asciiLower := by
  induction a generalizing b with
  | nil => cases b <;> simp [eqIgnoreAsciiCase]
  | cons x xs ih =>
    cases b with
    | nil => simp [eqIgnoreAsciiCase]
    | cons y ys => simp [eqIgnoreAsciiCase, ih]

theorem eqIgnoreAsciiCase_refl (a : Bytes) : eqIgnoreAsciiCase a a = true :=
  (eqIgnoreAsciiCase_iff_map a a).2 rfl

theorem eqIgnoreAsciiCase_symm {a b : Bytes} (h : eqIgnoreAsciiCase a b = true) :
    eqIgnoreAsciiCase b a = true :=
  (eqIgnoreAsciiCase_iff_map b a).2 ((eqIgnoreAsciiCase_iff_map a b).1 h).symm

theorem eqIgnoreAsciiCase_trans {a b c : Bytes} (h1 : eqIgnoreAsciiCase a b = true)
    (h2 : eqIgnoreAsciiCase b c = true) : eqIgnoreAsciiCase a c = true :=
  (eqIgnoreAsciiCase_iff_map a c).2
    (((eqIgnoreAsciiCase_iff_map a b).1 h1).trans ((eqIgnoreAsciiCase_iff_map b c).1 h2))

theorem eqIgnoreAsciiCase_length {a b : Bytes} (h : eqIgnoreAsciiCase a b = true) : a.length = b.length := by
  have := congrArg List.length ((eqIgnoreAsciiCase_iff_map a b).1 h)
  simpa using this

theorem asciiLower_idem (b : Nat) : asciiLower (asciiLower b) = asciiLower b := by
  simp only [asciiLower, isUpper]
  by_cases h : (65 ≤ b ∧ b ≤ 90)
  · have h2 : ¬ (65 ≤ b + 32 ∧ b + 32 ≤ 90) := by omega
    simp [h]; omega
  · simp [h]

theorem asciiLower_upper (b : Nat) : asciiLower (asciiUpper b) = asciiLower b := by
  simp only [asciiLower, asciiUpper, isUpper, isLower]
  by_cases h1 : (97 ≤ b ∧ b ≤ 122)
  · have h2 : ¬ (65 ≤ b ∧ b ≤ 90) := by omega
    have h3 : (65 ≤ b - 32 ∧ b - 32 ≤ 90) := by omega
    simp [h1, h2, h3]; omega
  · simp [h1]

theorem inj_of_nodup_map {α β : Type} (f : α → β) (l : List α) (h : (l.map f).Nodup) :
    ∀ a ∈ l, ∀ b ∈ l, f a = f b → a = b := by
  induction l with
  | nil => intro a ha; simp at ha
  | cons x xs ih =>
    simp only [List.map_cons, List.nodup_cons, List.mem_map, not_exists, not_and] at h
    intro a ha b hb hab
    simp only [List.mem_cons] at ha hb
    rcases ha with rfl | ha <;> rcases hb with rfl | hb
    · rfl
    · exact absurd hab.symm (h.1 b hb)
    · exact absurd hab (h.1 a ha)
    · exact ih h.2 a ha b hb hab

end Strum
