import StrumModel
/-
The macro's placeholder scanner (`captureFormatStrings`: delete every `{{`, then every `}}`, then scan)
agrees with the format-string grammar

    literal ::= ( "{{" | "}}" | "{" body "}" | char )*        body, char: no braces

on every well-formed literal: it returns exactly the argument names of the placeholders, in order.
The deletion passes are leftmost-first and non-overlapping (`str::replace`), so after a placeholder's closing
brace a following `}}` is consumed "one brace early"; the proof carries that pending brace explicitly.
-/
namespace Strum

inductive FmtTok
  | openEsc                 -- `{{`
  | closeEsc                -- `}}`
  | ph (body : Bytes)       -- `{body}`
  | ch (c : Nat)            -- any other character
  deriving DecidableEq, Repr

def FmtTok.render : FmtTok → Bytes
  | .openEsc => [123, 123]
  | .closeEsc => [125, 125]
  | .ph body => 123 :: (body ++ [125])
  | .ch c => [c]

def FmtTok.wf : FmtTok → Prop
  | .ph body => ∀ x ∈ body, x ≠ 123 ∧ x ≠ 125
  | .ch c => c ≠ 123 ∧ c ≠ 125
  | _ => True

def renderToks (ts : List FmtTok) : Bytes := (ts.map FmtTok.render).flatten

/-- what `format!` binds: the argument name of each placeholder (text before `:`, trailing blanks trimmed) -/
def tokArgs (ts : List FmtTok) : List Bytes :=
  ts.filterMap (fun t => match t with | .ph body => some (argName body) | _ => none)

theorem removePair_cons_ne (a b x : Nat) (l : Bytes) (h : x ≠ a) : removePair a b (x :: l) = x :: removePair a b l := by
  cases l with
  | nil => simp [removePair]
  | cons y rest => simp [removePair, h]

theorem removePair_cons_second_ne (a b y : Nat) (l : Bytes) (h : y ≠ b) :
    removePair a b (a :: y :: l) = a :: removePair a b (y :: l) := by
  simp [removePair, h]

theorem removePair_pair (a b : Nat) (l : Bytes) : removePair a b (a :: b :: l) = removePair a b l := by
  simp [removePair]

theorem removePair_prefix (a b : Nat) (pre l : Bytes) (h : ∀ x ∈ pre, x ≠ a) :
    removePair a b (pre ++ l) = pre ++ removePair a b l := by
  induction pre with
  | nil => rfl
  | cons x xs ih =>
    simp only [List.cons_append]
    rw [removePair_cons_ne a b x _ (h x (by simp)), ih (fun y hy => h y (by simp [hy]))]

/-- pass 1: deleting `{{` deletes exactly the `{{` tokens -/
theorem remove_open (ts : List FmtTok) (hwf : ∀ t ∈ ts, t.wf) :
    removePair 123 123 (renderToks ts) = renderToks (ts.filter (· ≠ .openEsc)) := by
  induction ts with
  | nil => rfl
  | cons t rest ih =>
    have ih := ih (fun u hu => hwf u (by simp [hu]))
    have hw := hwf t (by simp)
    simp only [renderToks, List.map_cons, List.flatten_cons] at ih ⊢
    cases t with
    | openEsc =>
      simp only [FmtTok.render, List.cons_append, List.nil_append, removePair_pair, ih, ne_eq, not_true_eq_false,
        decide_false, Bool.false_eq_true, not_false_eq_true, List.filter_cons_of_neg]
    | closeEsc =>
      simp only [FmtTok.render, List.cons_append, List.nil_append]
      rw [removePair_cons_ne _ _ _ _ (by decide), removePair_cons_ne _ _ _ _ (by decide), ih]
      simp [FmtTok.render]
    | ch c =>
      simp only [FmtTok.wf] at hw
      simp only [FmtTok.render, List.cons_append, List.nil_append]
      rw [removePair_cons_ne _ _ _ _ hw.1, ih]
      simp [FmtTok.render]
    | ph body =>
      simp only [FmtTok.wf] at hw
      simp only [FmtTok.render, List.cons_append, List.append_assoc, List.nil_append]
      have hsecond : ∀ (l : Bytes), removePair 123 123 (123 :: (body ++ 125 :: l)) = 123 :: removePair 123 123 (body ++ 125 :: l) := by
        intro l
        cases body with
        | nil => exact removePair_cons_second_ne 123 123 125 l (by decide)
        | cons y ys => exact removePair_cons_second_ne 123 123 y _ (hw y (by simp)).1
      rw [hsecond, removePair_prefix 123 123 body _ (fun x hx => (hw x hx).1), removePair_cons_ne _ _ _ _ (by decide), ih]
      simp [FmtTok.render]

def noOpen (ts : List FmtTok) : Prop := ∀ t ∈ ts, t ≠ .openEsc

/-- pass 2 (on a literal without `{{`): deleting `}}` deletes exactly the `}}` tokens *as a string*; the second
    component is the same statement with a pending closing brace in front (see the file header) -/
theorem remove_close (ts : List FmtTok) (hwf : ∀ t ∈ ts, t.wf) (hno : noOpen ts) :
    removePair 125 125 (renderToks ts) = renderToks (ts.filter (· ≠ .closeEsc)) ∧
    removePair 125 125 (125 :: renderToks ts) = 125 :: renderToks (ts.filter (· ≠ .closeEsc)) := by
  induction ts with
  | nil => exact ⟨rfl, rfl⟩
  | cons t rest ih =>
    obtain ⟨ih1, ih2⟩ := ih (fun u hu => hwf u (by simp [hu])) (fun u hu => hno u (by simp [hu]))
    have hw := hwf t (by simp)
    simp only [renderToks, List.map_cons, List.flatten_cons] at ih1 ih2 ⊢
    cases t with
    | openEsc => exact absurd rfl (hno .openEsc (by simp))
    | closeEsc =>
      simp only [FmtTok.render, List.cons_append, List.nil_append, ne_eq, not_true_eq_false, decide_false,
        Bool.false_eq_true, not_false_eq_true, List.filter_cons_of_neg]
      exact ⟨by rw [removePair_pair]; exact ih1, by rw [removePair_pair]; exact ih2⟩
    | ch c =>
      simp only [FmtTok.wf] at hw
      simp only [FmtTok.render, List.cons_append, List.nil_append]
      refine ⟨?_, ?_⟩
      · rw [removePair_cons_ne _ _ _ _ hw.2, ih1]; simp [FmtTok.render]
      · rw [removePair_cons_second_ne 125 125 c _ hw.2, removePair_cons_ne _ _ _ _ hw.2, ih1]
        simp [FmtTok.render]
    | ph body =>
      simp only [FmtTok.wf] at hw
      simp only [FmtTok.render, List.cons_append, List.append_assoc, List.nil_append]
      have hbody : ∀ (l : Bytes), removePair 125 125 (123 :: (body ++ 125 :: l)) = 123 :: (body ++ removePair 125 125 (125 :: l)) := by
        intro l
        rw [removePair_cons_ne _ _ _ _ (by decide), removePair_prefix 125 125 body _ (fun x hx => (hw x hx).2)]
      refine ⟨?_, ?_⟩
      · rw [hbody, ih2]; simp [FmtTok.render]
      · rw [removePair_cons_second_ne 125 125 123 _ (by decide), hbody, ih2]
        simp [FmtTok.render]

def noEsc (ts : List FmtTok) : Prop := ∀ t ∈ ts, t ≠ .openEsc ∧ t ≠ .closeEsc

theorem captureGo_body (body : Bytes) (h : ∀ x ∈ body, x ≠ 123 ∧ x ≠ 125) (acc l : Bytes) :
    captureGo (some acc) (body ++ l) = captureGo (some (acc ++ body)) l := by
  induction body generalizing acc with
  | nil => simp
  | cons x xs ih =>
    have hx := h x (by simp)
    simp only [List.cons_append, captureGo, hx.1, hx.2, ↓reduceIte]
    rw [ih (fun y hy => h y (by simp [hy]))]
    simp

/-- pass 3: on a literal without escapes the scan returns the placeholders' argument names -/
theorem capture_plain (ts : List FmtTok) (hwf : ∀ t ∈ ts, t.wf) (hne : noEsc ts) :
    captureGo none (renderToks ts) = .ok (tokArgs ts) := by
  induction ts with
  | nil => rfl
  | cons t rest ih =>
    have ih := ih (fun u hu => hwf u (by simp [hu])) (fun u hu => hne u (by simp [hu]))
    have hw := hwf t (by simp)
    simp only [renderToks, List.map_cons, List.flatten_cons] at ih ⊢
    cases t with
    | openEsc => exact absurd rfl (hne .openEsc (by simp)).1
    | closeEsc => exact absurd rfl (hne .closeEsc (by simp)).2
    | ch c =>
      simp only [FmtTok.wf] at hw
      simp only [FmtTok.render, List.cons_append, List.nil_append, captureGo, hw.1, hw.2, ↓reduceIte, ih, tokArgs,
        List.filterMap_cons]
    | ph body =>
      simp only [FmtTok.wf] at hw
      simp only [FmtTok.render, List.cons_append, List.append_assoc, List.nil_append, captureGo, ↓reduceIte]
      rw [captureGo_body body hw [] _]
      simp only [List.nil_append, captureGo, ↓reduceIte, show (125 : Nat) ≠ 123 by decide, ih, tokArgs,
        List.filterMap_cons, Except.map]

theorem tokArgs_filter (ts : List FmtTok) (p : FmtTok → Bool) (hp : ∀ body, p (.ph body) = true) :
    tokArgs (ts.filter p) = tokArgs ts := by
  induction ts with
  | nil => rfl
  | cons t rest ih =>
    cases t with
    | ph body => simp [hp, tokArgs] at ih ⊢; exact ih
    | openEsc => by_cases h : p .openEsc = true <;> simp [h, tokArgs] at ih ⊢ <;> exact ih
    | closeEsc => by_cases h : p .closeEsc = true <;> simp [h, tokArgs] at ih ⊢ <;> exact ih
    | ch c => by_cases h : p (.ch c) = true <;> simp [h, tokArgs] at ih ⊢ <;> exact ih

/-- **The macro's scanner agrees with the format-string grammar on every well-formed literal.** -/
theorem capture_eq_parse (ts : List FmtTok) (hwf : ∀ t ∈ ts, t.wf) :
    captureFormatStrings (renderToks ts) = .ok (tokArgs ts) := by
  unfold captureFormatStrings
  rw [remove_open ts hwf]
  have hwf1 : ∀ t ∈ ts.filter (· ≠ .openEsc), t.wf := fun t ht => hwf t (List.mem_filter.1 ht).1
  have hno1 : noOpen (ts.filter (· ≠ .openEsc)) := fun t ht => by simpa using (List.mem_filter.1 ht).2
  rw [(remove_close _ hwf1 hno1).1]
  have hwf2 : ∀ t ∈ (ts.filter (· ≠ .openEsc)).filter (· ≠ .closeEsc), t.wf :=
    fun t ht => hwf1 t (List.mem_filter.1 ht).1
  have hne2 : noEsc ((ts.filter (· ≠ .openEsc)).filter (· ≠ .closeEsc)) := by
    intro t ht
    have h2 := (List.mem_filter.1 ht)
    have h1 := (List.mem_filter.1 h2.1)
    exact ⟨by simpa using h1.2, by simpa using h2.2⟩
  rw [capture_plain _ hwf2 hne2, tokArgs_filter _ _ (by intro b; simp), tokArgs_filter _ _ (by intro b; simp)]

/-! non-vacuity: `{{{a:>4}}} x {b }}}` -/
example : captureFormatStrings (renderToks [.openEsc, .ph [97, 58, 62, 52], .closeEsc, .ch 32, .ch 120, .ch 32, .ph [98, 32], .closeEsc])
    = .ok [[97], [98]] := by rfl

end Strum
