import StrumProofs.Lemmas.Overlap
namespace Strum

theorem foldl_max_mem {α : Type} (key : α → Nat) (xs : List α) (x : α) :
    xs.foldl (fun best y => if key best ≤ key y then y else best) x ∈ x :: xs := by
  induction xs generalizing x with
  | nil => simp
  | cons y ys ih =>
    simp only [List.foldl_cons]
    have := ih (if key x ≤ key y then y else x)
    simp only [List.mem_cons] at this ⊢
    rcases this with h | h
    · rw [h]; split <;> simp
    · exact Or.inr (Or.inr h)

theorem foldl_max_ge' {α : Type} (key : α → Nat) (xs : List α) (x : α) :
    key x ≤ key (xs.foldl (fun best y => if key best ≤ key y then y else best) x) ∧
    ∀ y ∈ xs, key y ≤ key (xs.foldl (fun best y => if key best ≤ key y then y else best) x) := by
  induction xs generalizing x with
  | nil => simp
  | cons z zs ih =>
    simp only [List.foldl_cons, List.mem_cons]
    obtain ⟨h1, h2⟩ := ih (if key x ≤ key z then z else x)
    have hx : key x ≤ key (if key x ≤ key z then z else x) := by split <;> omega
    have hz : key z ≤ key (if key x ≤ key z then z else x) := by split <;> omega
    refine ⟨Nat.le_trans hx h1, ?_⟩
    intro y hy
    rcases hy with rfl | hy
    · exact Nat.le_trans hz h1
    · exact h2 y hy

theorem foldl_max_ge {α : Type} (key : α → Nat) (xs : List α) (x : α) :
    ∀ y ∈ x :: xs, key y ≤ key (xs.foldl (fun best y => if key best ≤ key y then y else best) x) := by
  intro y hy
  simp only [List.mem_cons] at hy
  rcases hy with rfl | hy
  · exact (foldl_max_ge' key xs y).1
  · exact (foldl_max_ge' key xs x).2 y hy

/-- `max_by_key`: the result is a member and no member has a larger key -/
theorem maxByKeyLast_spec {α : Type} (key : α → Nat) (l : List α) (x : α)
    (h : maxByKeyLast key l = some x) : x ∈ l ∧ ∀ y ∈ l, key y ≤ key x := by
  cases l with
  | nil => simp [maxByKeyLast] at h
  | cons a as =>
    simp only [maxByKeyLast, Option.some.injEq] at h
    subst h
    exact ⟨foldl_max_mem key as a, foldl_max_ge key as a⟩

theorem maxByKeyLast_none {α : Type} (key : α → Nat) (l : List α) :
    maxByKeyLast key l = none ↔ l = [] := by
  cases l <;> simp [maxByKeyLast]

/-- the printed name (no prefix) is always one of the spellings the parser lists -/
theorem printed_mem_serializations (cs : Option CaseStyle) (v : Variant) :
    preferredName cs none v ∈ serializations cs v := by
  unfold preferredName serializations
  cases ht : v.toStr with
  | some t => simp
  | none =>
    cases hm : maxByKeyLast List.length v.serialize with
    | some s =>
      have := (maxByKeyLast_spec _ _ _ hm).1
      have hne : v.serialize ≠ [] := by intro h; rw [h] at this; simp at this
      simp [hne, this]
    | none =>
      have := (maxByKeyLast_none _ _).1 hm
      simp [this, identAsStr]

theorem serializations_ne_nil (cs : Option CaseStyle) (v : Variant) : serializations cs v ≠ [] := by
  unfold serializations
  simp only
  split
  · simp
  · next h => intro h2; rw [h2] at h; simp at h

/-- a variant accepts each of its own spellings (exactly, or by reflexivity of ASCII folding) -/
theorem accepts_own_spelling (d : EnumDef) (v : Variant) (sp : Bytes)
    (h : sp ∈ serializations d.style v) : accepts d v sp = true := by
  unfold accepts
  simp only [List.any_eq_true]
  refine ⟨sp, h, ?_⟩
  split
  · exact eqIgnoreAsciiCase_refl sp
  · simp

theorem mapExcept_ok_lookup {α β ε : Type} (f : α → Except ε β) (l : List α) (r : List β)
    (h : mapExcept f l = .ok r) : r.length = l.length ∧ ∀ a ∈ l, ∃ b ∈ r, f a = .ok b := by
  induction l generalizing r with
  | nil => simp [mapExcept] at h; subst h; simp
  | cons x xs ih =>
    simp only [mapExcept] at h
    cases hx : f x with
    | error e => rw [hx] at h; cases h
    | ok b =>
      rw [hx] at h
      cases hxs : mapExcept f xs with
      | error e => rw [hxs] at h; cases h
      | ok bs =>
        rw [hxs] at h
        simp only [Except.ok.injEq] at h
        subst h
        obtain ⟨hl, hm⟩ := ih bs hxs
        refine ⟨by simp [hl], ?_⟩
        intro a ha
        simp only [List.mem_cons] at ha
        rcases ha with rfl | ha
        · exact ⟨b, by simp, hx⟩
        · obtain ⟨b', hb', hf⟩ := hm a ha
          exact ⟨b', by simp [hb'], hf⟩

end Strum
