import StrumModel
/-
C19 — generated code depends only on ::core and on the configured strum path.

`allowedRefs dv` (StrumModel/Refs.lean) lists every external reference the templates of derive `dv` can
emit; the correspondence checks `references of real expansions ⊆ allowedRefs` for every corpus definition,
and rustc (three build configurations) is the oracle for resolution.  The statements below quantify over
all 15 non-deprecated derives and every listed reference; they are finite tables, checked by evaluation.
-/
namespace Strum

/-- **no_std without alloc**: every reference is `::core::..`, a strum item, a core-prelude name or a
    core macro; in particular no `::std::..`, no `format!`. -/
theorem no_std_ok (dv : Derive) (hd : dv.deprecated = false) : ∀ r ∈ allowedRefs dv, r.noStdOk = true := by
  cases dv <;> first | (exact absurd hd (by decide)) | decide

/-- **configured path**: strum items are only ever reached through `#strum_module_path` -/
theorem crate_path_respected (dv : Derive) : ∀ r ∈ allowedRefs dv, r.cratePathOk = true := by
  cases dv <;> decide

/-- **shadowing**: no path starts with a plain `core` / `std` / `alloc` segment -/
theorem shadow_safe (dv : Derive) : ∀ r ∈ allowedRefs dv, r.shadowSafe = true := by
  cases dv <;> decide

/-- the deprecated `ToString` derive is the only one that needs std (it is excluded by the property) -/
theorem deprecated_needs_std : ∃ r ∈ allowedRefs .toString, r.noStdOk = false := by decide

/-- F5 regression witness: the pinned Display template (with `format!`) is not no_std-clean -/
theorem pinned_display_needs_alloc : ∃ r ∈ allowedRefsPinnedDisplay, r.noStdOk = false := by decide

/-- the path through which strum items are reached: `::strum` unless `#[strum(crate = "path")]` is given
    (type_props.rs:167-173) -/
def cratePath (custom : Option String) : String := custom.getD "::strum"

theorem crate_path_default : cratePath none = "::strum" := rfl
theorem crate_path_custom (p : String) : cratePath (some p) = p := rfl

end Strum
