import StrumProofs.C07
/-
C13 — EnumIs predicates partition the variants; EnumTryAs returns payloads unchanged.
Model: `isMethods`, `tryAsMethods`, `isEval`, `tryAsEval`, `tryAsMutWrite` (StrumModel/Table.lean),
mirroring enum_is.rs / enum_try_as.rs; `snakify` (StrumModel/Heck.lean) mirroring case_style.rs:163-178.
-/
namespace Strum

def isName (v : Variant) : Bytes := [105, 115, 95] ++ snakify v.ident   -- "is_" ++ snake name

/-- **Exactly one predicate is true** for a value whose variant is enabled: the one named after it. -/
theorem is_exactly_one (d : EnumDef) (hid : (d.variants.map (·.ident)).Nodup) (v : Variant) (hv : v ∈ d.variants)
    (hen : v.disabled = false) {α : Type} (e : EnumVal α) (he : e.ident = v.ident) :
    (isMethods d).filter (fun m => isEval m e) = [(isName v, v.ident)] := by
  unfold isMethods EnumDef.enabled isEval
  rw [he]
  generalize d.variants = vs at hid hv
  induction vs with
  | nil => simp at hv
  | cons x xs ih =>
    simp only [List.map_cons, List.nodup_cons, List.mem_map, not_exists, not_and] at hid
    simp only [List.mem_cons] at hv
    rcases hv with rfl | hv
    · simp only [List.filter_cons, hen, Bool.not_false, ↓reduceIte, List.map_cons, beq_self_eq_true, isName,
        List.cons.injEq, true_and]
      rw [List.filter_eq_nil_iff]
      intro m hm
      simp only [List.mem_map, List.mem_filter] at hm
      obtain ⟨w, ⟨hw, _⟩, rfl⟩ := hm
      simp only [beq_iff_eq]
      exact fun e => hid.1 w hw e
    · have hne : (x.ident == v.ident) = false := by
        simp only [beq_eq_false_iff_ne, ne_eq]; exact fun e => hid.1 v hv e.symm
      simp only [List.filter_cons]
      split
      · simp only [List.map_cons, List.filter_cons, hne, Bool.false_eq_true, ↓reduceIte]
        exact ih hid.2 hv
      · exact ih hid.2 hv

/-- **For a disabled variant no predicate is true** (no method is generated for it, and every other
    method matches another variant). -/
theorem is_none_for_disabled (d : EnumDef) (hid : (d.variants.map (·.ident)).Nodup) (v : Variant) (hv : v ∈ d.variants)
    (hdis : v.disabled = true) {α : Type} (e : EnumVal α) (he : e.ident = v.ident) :
    ∀ m ∈ isMethods d, isEval m e = false := by
  intro m hm
  unfold isMethods EnumDef.enabled at hm
  simp only [List.mem_map, List.mem_filter, Bool.not_eq_eq_eq_not, Bool.not_true] at hm
  obtain ⟨w, ⟨hw, hwen⟩, rfl⟩ := hm
  unfold isEval
  simp only [he, beq_eq_false_iff_ne, ne_eq]
  intro hwk
  have := inj_of_nodup_map (·.ident) d.variants hid w hw v hv hwk
  rw [this, hdis] at hwen; cases hwen

/-- `try_as_*` methods exist exactly for the enabled tuple variants -/
theorem try_as_methods_spec (d : EnumDef) (m : Bytes × Bytes × Nat) :
    m ∈ tryAsMethods d ↔ ∃ v ∈ d.variants, v.disabled = false ∧ v.fields = .tuple m.2.2 ∧ m.2.1 = v.ident ∧
      m.1 = [116, 114, 121, 95, 97, 115, 95] ++ snakify v.ident := by
  unfold tryAsMethods EnumDef.enabled
  simp only [List.mem_filterMap, List.mem_filter, Bool.not_eq_eq_eq_not, Bool.not_true]
  constructor
  · rintro ⟨v, ⟨hv, hen⟩, h⟩
    cases hf : v.fields with
    | tuple n => simp only [hf, Option.some.injEq] at h; subst h; exact ⟨v, hv, hen, hf, rfl, rfl⟩
    | unit => simp [hf] at h
    | named fs => simp [hf] at h
  · rintro ⟨v, hv, hen, hf, h1, h2⟩
    refine ⟨v, ⟨hv, hen⟩, ?_⟩
    simp only [hf, Option.some.injEq]
    obtain ⟨a, b, c⟩ := m
    simp only at h1 h2 ⊢
    rw [h1, h2]

/-- **`try_as_x` / `_ref` / `_mut` return `Some` exactly for that variant, carrying all fields in order;
    `None` for every other variant.** -/
theorem try_as_iff {α : Type} (m : Bytes × Bytes × Nat) (e : EnumVal α) (fs : List α) :
    tryAsEval m e = some fs ↔ e.ident = m.2.1 ∧ fs = e.fields := by
  unfold tryAsEval
  by_cases h : (m.2.1 == e.ident) = true
  · simp only [h, ↓reduceIte, Option.some.injEq]
    simp only [beq_iff_eq] at h
    exact ⟨fun hh => ⟨h.symm, hh.symm⟩, fun hh => hh.2.symm⟩
  · simp only [h, Bool.false_eq_true, ↓reduceIte, reduceCtorEq, false_iff, not_and]
    intro he; simp only [beq_iff_eq] at h; exact absurd he.symm h

/-- **Writes through `try_as_x_mut()` change `e` in place**: exactly those fields are replaced, the variant
    is unchanged; through a non-matching method nothing can be written. -/
theorem try_as_mut_writes {α : Type} (m : Bytes × Bytes × Nat) (e : EnumVal α) (new : List α) :
    (m.2.1 = e.ident → new.length = e.fields.length →
      (tryAsMutWrite m e new).ident = e.ident ∧ (tryAsMutWrite m e new).fields = new ∧
      tryAsEval m (tryAsMutWrite m e new) = some new) ∧
    (m.2.1 ≠ e.ident → tryAsMutWrite m e new = e) := by
  unfold tryAsMutWrite
  constructor
  · intro h1 h2
    simp [h1, h2, tryAsEval]
  · intro h
    have : (m.2.1 == e.ident) = false := by simpa using h
    simp [this]

/-- `snakify` = snake_case of the declarative word split, with `_` inserted before every digit run that is
    not at position 0 (`Hello2You` → `hello_2_you`) -/
theorem snakify_eq (id : Bytes) : snakify id = splitDigitsGo none (styleSpec .snake id) := by
  unfold snakify
  rw [← convert_case_spec]
  rfl

/-- a digit whose predecessor exists is preceded by a digit or by `_` -/
def digitsOk : Option Nat → Bytes → Bool
  | _, [] => true
  | prev, c :: cs =>
    (!isDigit c || (match prev with | none => true | some p => isDigit p || p == 95)) && digitsOk (some c) cs

/-- **Digits are split off**: in the generated name every maximal digit run is preceded by `_`
    (or starts the name). -/
theorem digits_split_off (l : Bytes) (prev : Option Nat) : digitsOk prev (splitDigitsGo prev l) = true := by
  induction l generalizing prev with
  | nil => rfl
  | cons c cs ih =>
    unfold splitDigitsGo
    by_cases hd : isDigit c = true
    · cases prev with
      | none => simp [hd, digitsOk, ih]
      | some p =>
        by_cases hp : isDigit p = true
        · simp [hd, hp, digitsOk, ih]
        · have h95 : isDigit 95 = false := by decide
          simp [hd, hp, digitsOk, ih, h95]
    · simp [hd, digitsOk, ih]

theorem snakify_digits_ok (id : Bytes) : digitsOk none (snakify id) = true := by
  unfold snakify; exact digits_split_off _ none

/-! non-vacuity / regression examples -/
example : snakify [72, 101, 108, 108, 111, 50, 89, 111, 117] = [104, 101, 108, 108, 111, 95, 50, 95, 121, 111, 117] := by decide
-- the `Foo_1` quirk: the underscore heck already produced is doubled
example : snakify [70, 111, 111, 95, 49] = [102, 111, 111, 95, 95, 49] := by decide

end Strum
