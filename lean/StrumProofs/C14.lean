import StrumProofs.Lemmas.Bytes
import StrumProofs.Source
/-
C14 — EnumMessage returns exactly the per-variant message, detail, docs and spellings.
Model: StrumModel/Message.lean (four arm lists built in one pass; `_ => None` appended when the arm
count is smaller than the variant count), mirroring enum_messages.rs:23-112.
-/
namespace Strum

/-- an arm generator that emits at most one arm per variant, keyed by the variant's identifier -/
def AtMostOne {α : Type} (f : Variant → List (Bytes × α)) : Prop :=
  ∀ v, f v = [] ∨ ∃ a, f v = [(v.ident, a)]

theorem flatMap_length_le {α : Type} (f : Variant → List (Bytes × α)) (h : AtMostOne f) (vs : List Variant) :
    (vs.flatMap f).length ≤ vs.length := by
  induction vs with
  | nil => simp
  | cons v vs ih =>
    rw [List.flatMap_cons, List.length_append, List.length_cons]
    rcases h v with h0 | ⟨a, h1⟩
    · rw [h0, List.length_nil]; omega
    · rw [h1, List.length_singleton]; omega

theorem flatMap_length_lt {α : Type} (f : Variant → List (Bytes × α)) (h : AtMostOne f) (vs : List Variant)
    (v : Variant) (hv : v ∈ vs) (h0 : f v = []) : (vs.flatMap f).length < vs.length := by
  induction vs with
  | nil => simp at hv
  | cons x xs ih =>
    rw [List.flatMap_cons, List.length_append, List.length_cons]
    simp only [List.mem_cons] at hv
    rcases hv with rfl | hv
    · rw [h0, List.length_nil]
      have := flatMap_length_le f h xs; omega
    · have := ih hv
      rcases h x with hx | ⟨a, hx⟩
      · rw [hx, List.length_nil]; omega
      · rw [hx, List.length_singleton]; omega

theorem find_flatMap {α : Type} (f : Variant → List (Bytes × α)) (h : AtMostOne f) (vs : List Variant)
    (hid : (vs.map (·.ident)).Nodup) (v : Variant) (hv : v ∈ vs) :
    (vs.flatMap f).find? (fun p => p.1 == v.ident) = (f v).head? := by
  induction vs with
  | nil => simp at hv
  | cons x xs ih =>
    simp only [List.map_cons, List.nodup_cons, List.mem_map, not_exists, not_and] at hid
    simp only [List.flatMap_cons, List.find?_append, List.mem_cons] at hv ⊢
    rcases hv with rfl | hv
    · rcases h v with h0 | ⟨a, h1⟩
      · rw [h0]
        simp only [List.find?_nil, Option.none_or, List.head?_nil]
        apply List.find?_eq_none.2
        intro p hp
        simp only [List.mem_flatMap] at hp
        obtain ⟨w, hw, hpw⟩ := hp
        rcases h w with hw0 | ⟨b, hw1⟩
        · rw [hw0] at hpw; simp at hpw
        · rw [hw1] at hpw; simp at hpw; subst hpw
          simp only [beq_iff_eq]
          exact fun e => hid.1 w hw e
      · rw [h1]; simp
    · have hne : x.ident ≠ v.ident := fun e => hid.1 v hv e.symm
      have : (f x).find? (fun p => p.1 == v.ident) = none := by
        rcases h x with h0 | ⟨a, h1⟩
        · rw [h0]; rfl
        · rw [h1]; simp [hne]
      rw [this, Option.none_or]
      exact ih hid.2 hv

/-- **Exhaustiveness + value.**  The generated `match` always compiles (the macro's arm-counting test for
    appending `_ => None` is sound because each variant contributes at most one arm) and returns the
    variant's own arm value, or `None`. -/
theorem evalArms_spec {α : Type} (f : Variant → List (Bytes × α)) (h : AtMostOne f) (vs : List Variant)
    (hid : (vs.map (·.ident)).Nodup) (v : Variant) (hv : v ∈ vs) :
    evalArms (vs.flatMap f) (decide ((vs.flatMap f).length < vs.length)) v.ident =
      .val ((f v).head?.map (·.2)) := by
  unfold evalArms
  rw [find_flatMap f h vs hid v hv]
  rcases h v with h0 | ⟨a, h1⟩
  · have := flatMap_length_lt f h vs v hv h0
    rw [h0]
    simp only [List.head?_nil, Option.map_none, this, decide_true, ↓reduceIte]
  · rw [h1]; simp

theorem msgArmOf_atMostOne : AtMostOne msgArmOf := by
  intro v; unfold msgArmOf
  cases v.disabled <;> cases hm : v.message <;> simp

theorem detArmOf_atMostOne : AtMostOne detArmOf := by
  intro v; unfold detArmOf
  cases v.disabled <;> cases v.message <;> cases v.detailed <;> simp

theorem docArmOf_atMostOne : AtMostOne docArmOf := by
  intro v; unfold docArmOf
  cases v.disabled <;> cases hd : v.docs.isEmpty <;> simp

/-- **`get_message`** = the message literal, `None` for a disabled variant or when there is none -/
theorem message_spec (d : EnumDef) (hid : (d.variants.map (·.ident)).Nodup) (v : Variant) (hv : v ∈ d.variants) :
    getMessage d v.ident = .val (if v.disabled then none else v.message) := by
  unfold getMessage genMessage
  simp only
  rw [evalArms_spec msgArmOf msgArmOf_atMostOne d.variants hid v hv]
  unfold msgArmOf
  cases v.disabled <;> cases v.message <;> simp

/-- **`get_detailed_message`** = detailed_message, falling back to message, else `None` -/
theorem detailed_spec (d : EnumDef) (hid : (d.variants.map (·.ident)).Nodup) (v : Variant) (hv : v ∈ d.variants) :
    getDetailed d v.ident = .val (if v.disabled then none else (match v.detailed with | some x => some x | none => v.message)) := by
  unfold getDetailed genMessage
  simp only
  rw [evalArms_spec detArmOf detArmOf_atMostOne d.variants hid v hv]
  unfold detArmOf
  cases v.disabled <;> cases v.message <;> cases v.detailed <;> simp

/-- **`get_documentation`** = the doc comment with one leading space removed per line; a single line
    as is, several lines each terminated by a newline; `None` without docs or when disabled -/
theorem doc_spec (d : EnumDef) (hid : (d.variants.map (·.ident)).Nodup) (v : Variant) (hv : v ∈ d.variants) :
    getDocumentation d v.ident =
      .val (if v.disabled || v.docs.isEmpty then none else some (docText (v.docs.map stripOneSpace))) := by
  unfold getDocumentation genMessage
  simp only
  rw [evalArms_spec docArmOf docArmOf_atMostOne d.variants hid v hv]
  unfold docArmOf
  cases v.disabled <;> cases v.docs.isEmpty <;> simp

/-- **`get_serializations`** = exactly the spellings C01 defines, for every variant, disabled or not -/
theorem ser_spec (d : EnumDef) (hid : (d.variants.map (·.ident)).Nodup) (v : Variant) (hv : v ∈ d.variants) :
    getSerializationsOf d v.ident = .val (some (serializations d.style v)) := by
  unfold getSerializationsOf genMessage evalArms
  simp only
  have : (d.variants.map (fun v => (v.ident, serializations d.style v))).find? (fun p => p.1 == v.ident) =
      some (v.ident, serializations d.style v) := by
    generalize d.variants = vs at hid hv
    induction vs with
    | nil => simp at hv
    | cons x xs ih =>
      simp only [List.map_cons, List.nodup_cons, List.mem_map, not_exists, not_and] at hid
      simp only [List.mem_cons] at hv
      rcases hv with rfl | hv
      · simp
      · have hne : (x.ident == v.ident) = false := by
          simp only [beq_eq_false_iff_ne, ne_eq]; exact fun e => hid.1 v hv e.symm
        simp only [List.map_cons, List.find?_cons, hne]
        exact ih hid.2 hv
  rw [this]

theorem stripOneSpace_space (t : Bytes) : stripOneSpace (32 :: t) = t := rfl
theorem stripOneSpace_other (l : Bytes) (h : l.head? ≠ some 32) : stripOneSpace l = l := by
  unfold stripOneSpace
  split
  · simp at h
  · rfl

theorem docText_single (x : Bytes) : docText [x] = x := rfl
theorem docText_multi (a b : Bytes) (rest : List Bytes) :
    docText (a :: b :: rest) = ((a :: b :: rest).map (fun l => l ++ [10])).flatten := rfl

/-! non-vacuity -/
def msgEnum : EnumDef :=
  { variants := [{ ident := [65], message := some [109] }, { ident := [66], docs := [[32, 120], [121]] },
                 { ident := [67], disabled := true, message := some [110] }] }
example : getMessage msgEnum [65] = .val (some [109]) := by rfl
example : getDocumentation msgEnum [66] = .val (some [120, 10, 121, 10]) := by rfl
example : getMessage msgEnum [67] = .val none := by rfl

/-! ### at source level (StrumProofs/Source.lean): what the getters return, read off the attributes AS WRITTEN on that one
variant - nothing written on another variant, before or after it, enters -/

theorem source_message (s : RawSource) (hid : (s.variants.map (·.ident)).Nodup) (r : RawVariant) (hr : r ∈ s.variants) :
    getMessage s.declared r.ident =
      .val (if r.isDisabled then none else lastOf VItem.message? r.attrs.flatten) :=
  message_spec s.declared (source_nodup s hid) r.declared (source_mem s r hr)

theorem source_detailed (s : RawSource) (hid : (s.variants.map (·.ident)).Nodup) (r : RawVariant) (hr : r ∈ s.variants) :
    getDetailed s.declared r.ident =
      .val (if r.isDisabled then none else
        (match lastOf VItem.detailed? r.attrs.flatten with
         | some x => some x
         | none => lastOf VItem.message? r.attrs.flatten)) :=
  detailed_spec s.declared (source_nodup s hid) r.declared (source_mem s r hr)

theorem source_documentation (s : RawSource) (hid : (s.variants.map (·.ident)).Nodup) (r : RawVariant) (hr : r ∈ s.variants) :
    getDocumentation s.declared r.ident =
      .val (if r.isDisabled || r.docs.isEmpty then none else some (docText (r.docs.map stripOneSpace))) :=
  doc_spec s.declared (source_nodup s hid) r.declared (source_mem s r hr)

theorem source_serializations (s : RawSource) (hid : (s.variants.map (·.ident)).Nodup) (r : RawVariant) (hr : r ∈ s.variants) :
    getSerializationsOf s.declared r.ident =
      .val (some (let a := serializesOf r.attrs.flatten ++ (lastOf VItem.toStr? r.attrs.flatten).toList
                  if a.isEmpty then [convertCase s.declared.style r.ident] else a)) :=
  ser_spec s.declared (source_nodup s hid) r.declared (source_mem s r hr)

end Strum
