import StrumProofs.Lemmas.Bytes
/-
C10 — EnumTable is a total map from enabled variants to values.
Model: StrumModel/Table.lean (`genTable`, `index`, `set`, constructors, `tableAll`, `tableAllOk`), mirroring
enum_table.rs:121-209.  Keys are variant identifiers; the struct's fields are positional slots.
Field names `_<snake>` must be pairwise different for the struct to compile (rustc E0124); slots are
then in one-to-one correspondence with the enabled variants, which is what `keys.Nodup` expresses.
-/
namespace Strum

theorem keyIndex_lt (ks : List Bytes) (k : Bytes) (i : Nat) (h : keyIndex ks k = some i) : i < ks.length := by
  induction ks generalizing i with
  | nil => simp [keyIndex] at h
  | cons a as ih =>
    simp only [keyIndex] at h
    split at h
    · cases h; simp
    · simp only [Option.map_eq_some_iff] at h
      obtain ⟨j, hj, rfl⟩ := h
      have := ih j hj
      simp; omega

theorem keyIndex_getElem (ks : List Bytes) (k : Bytes) (i : Nat) (h : keyIndex ks k = some i) :
    ks[i]? = some k := by
  induction ks generalizing i with
  | nil => simp [keyIndex] at h
  | cons a as ih =>
    simp only [keyIndex] at h
    split at h
    · next hak => cases h; simp at hak; simp [hak]
    · simp only [Option.map_eq_some_iff] at h
      obtain ⟨j, hj, rfl⟩ := h
      simpa using ih j hj

theorem keyIndex_some_of_mem (ks : List Bytes) (k : Bytes) (h : k ∈ ks) : ∃ i, keyIndex ks k = some i := by
  induction ks with
  | nil => simp at h
  | cons a as ih =>
    simp only [keyIndex]
    by_cases hak : (a == k) = true
    · exact ⟨0, by simp [hak]⟩
    · simp only [List.mem_cons] at h
      rcases h with rfl | h
      · simp at hak
      · obtain ⟨j, hj⟩ := ih h
        exact ⟨j + 1, by simp [hak, hj]⟩

theorem keyIndex_none_of_not_mem (ks : List Bytes) (k : Bytes) (h : k ∉ ks) : keyIndex ks k = none := by
  induction ks with
  | nil => rfl
  | cons a as ih =>
    simp only [List.mem_cons, not_or] at h
    have : (a == k) = false := by simp only [beq_eq_false_iff_ne, ne_eq]; exact fun e => h.1 e.symm
    simp [keyIndex, this, ih h.2]

theorem keyIndex_inj (ks : List Bytes) (k k' : Bytes) (i : Nat)
    (h : keyIndex ks k = some i) (h' : keyIndex ks k' = some i) : k = k' := by
  have a := keyIndex_getElem ks k i h
  have b := keyIndex_getElem ks k' i h'
  rw [a] at b; exact Option.some.inj b

/-- **A write to `k` changes slot `k` and no other slot**; a later read returns the value last written. -/
theorem get_set (t : TableImpl) {α : Type} (tv tv' : TableVal α) (k k' : Bytes) (x : α)
    (hs : t.set tv k x = some tv') :
    t.index tv' k' = if k' = k then some x else t.index tv k' := by
  unfold TableImpl.set at hs
  unfold TableImpl.index
  cases hk : keyIndex t.keys k with
  | none => simp [hk] at hs
  | some i =>
    simp only [hk] at hs
    split at hs
    · next hlt =>
      cases hs
      by_cases hkk : k' = k
      · subst hkk; simp [hk, hlt]
      · simp only [hkk, ↓reduceIte]
        cases hk' : keyIndex t.keys k' with
        | none => rfl
        | some j =>
          have hij : i ≠ j := fun e => hkk (keyIndex_inj t.keys k' k j hk' (e ▸ hk))
          simp [hij]
    · cases hs

/-- a write succeeds exactly for enabled variants (the table has one slot per key) -/
theorem set_some_iff (t : TableImpl) {α : Type} (tv : TableVal α) (hl : tv.length = t.keys.length) (k : Bytes) (x : α) :
    (∃ tv', t.set tv k x = some tv' ∧ tv'.length = t.keys.length) ↔ k ∈ t.keys := by
  unfold TableImpl.set
  constructor
  · rintro ⟨tv', h, _⟩
    cases hk : keyIndex t.keys k with
    | none => simp [hk] at h
    | some i =>
      have := keyIndex_getElem t.keys k i hk
      exact List.mem_of_getElem? this
  · intro hm
    obtain ⟨i, hi⟩ := keyIndex_some_of_mem t.keys k hm
    have := keyIndex_lt t.keys k i hi
    refine ⟨tv.set i x, by simp [hi, hl, this], by simp [hl]⟩

/-- **`new(..)` takes the slots in declaration order** -/
theorem new_order (t : TableImpl) {α : Type} (xs : List α) (k : Bytes) (i : Nat) (hi : keyIndex t.keys k = some i) :
    t.index (t.new xs) k = xs[i]? := by
  simp [TableImpl.index, TableImpl.new, hi]

/-- **`filled(x)[k] == x`** -/
theorem filled_get (t : TableImpl) {α : Type} (x : α) (k : Bytes) (hk : k ∈ t.keys) :
    t.index (t.filled x) k = some x := by
  obtain ⟨i, hi⟩ := keyIndex_some_of_mem t.keys k hk
  have := keyIndex_lt t.keys k i hi
  simp [TableImpl.index, TableImpl.filled, hi, this]

/-- **`from_closure(f)[k] == f(k)`** -/
theorem from_closure_get (t : TableImpl) {α : Type} (f : Bytes → α) (k : Bytes) (hk : k ∈ t.keys) :
    t.index (t.fromClosure f) k = some (f k) := by
  obtain ⟨i, hi⟩ := keyIndex_some_of_mem t.keys k hk
  have hg := keyIndex_getElem t.keys k i hi
  simp [TableImpl.index, TableImpl.fromClosure, hi, hg]

/-- **`transform(f)[k] == f(k, &old[k])`** -/
theorem transform_get (t : TableImpl) {α β : Type} (tv : TableVal α) (hl : tv.length = t.keys.length)
    (f : Bytes → α → β) (k : Bytes) (hk : k ∈ t.keys) :
    t.index (t.transform tv f) k = (t.index tv k).map (f k) := by
  obtain ⟨i, hi⟩ := keyIndex_some_of_mem t.keys k hk
  have hg := keyIndex_getElem t.keys k i hi
  have hlt := keyIndex_lt t.keys k i hi
  simp only [TableImpl.index, TableImpl.transform, hi, List.getElem?_map]
  have h2 : tv[i]? = some (tv[i]'(by omega)) := by simp [hl, hlt]
  have hz : (t.keys.zip tv)[i]? = some (k, tv[i]'(by omega)) := by
    rw [List.getElem?_zip_eq_some]; exact ⟨hg, h2⟩
  rw [hz, h2]; rfl

/-- **`all()` is `Some` iff every slot is `Some`**, and then holds the unwrapped values in order -/
theorem all_iff {α : Type} (tv : TableVal (Option α)) :
    (tableAll tv).isSome = true ↔ ∀ o ∈ tv, o.isSome = true := by
  induction tv with
  | nil => simp [tableAll]
  | cons o rest ih =>
    cases o with
    | none => simp [tableAll]
    | some x =>
      simp only [tableAll, Option.isSome_map, ih, List.mem_cons, forall_eq_or_imp, Option.isSome_some, true_and]

theorem all_values {α : Type} (tv : TableVal (Option α)) (r : TableVal α) (h : tableAll tv = some r) :
    tv = r.map some := by
  induction tv generalizing r with
  | nil => simp [tableAll] at h; subst h; rfl
  | cons o rest ih =>
    cases o with
    | none => simp [tableAll] at h
    | some x =>
      simp only [tableAll, Option.map_eq_some_iff] at h
      obtain ⟨r', hr', rfl⟩ := h
      simp [ih r' hr']

/-- **`all_ok()` returns the first `Err` in declaration order**, else `Ok` of all values -/
theorem all_ok_first_err {α ε : Type} (tv : TableVal (Except ε α)) :
    tableAllOk tv =
      match tv.find? (fun r => match r with | .error _ => true | .ok _ => false) with
      | some (.error e) => .error e
      | _ => .ok (tv.filterMap (fun r => match r with | .ok x => some x | .error _ => none)) := by
  induction tv with
  | nil => rfl
  | cons r rest ih =>
    cases r with
    | error e => simp [tableAllOk]
    | ok x =>
      simp only [tableAllOk, ih, List.find?_cons, List.filterMap_cons]
      cases hf : rest.find? (fun r => match r with | .error _ => true | .ok _ => false) with
      | none => simp
      | some y =>
        cases y with
        | error e => simp
        | ok z => simp

/-- **Indexing with a disabled variant panics**: it has no slot -/
theorem disabled_index_panics (d : EnumDef) (t : TableImpl) (hg : genTable d = .ok t)
    (hid : (d.variants.map (·.ident)).Nodup) (v : Variant) (hv : v ∈ d.variants) (hdis : v.disabled = true)
    {α : Type} (tv : TableVal α) : t.index tv v.ident = none ∧ ∀ x, t.set tv v.ident x = none := by
  have hk : v.ident ∉ t.keys := by
    unfold genTable at hg
    split at hg
    · cases hg
    · split at hg
      · cases hg
      · cases hg
        simp only [List.mem_map, not_exists, not_and]
        intro w hw hwk
        unfold EnumDef.enabled at hw
        simp only [List.mem_filter, Bool.not_eq_eq_eq_not, Bool.not_true] at hw
        have := inj_of_nodup_map (·.ident) d.variants hid w hw.1 v hv hwk
        rw [this, hdis] at hw; exact absurd hw.2 (by simp)
  have := keyIndex_none_of_not_mem t.keys v.ident hk
  exact ⟨by simp [TableImpl.index, this], fun x => by simp [TableImpl.set, this]⟩

/-- the slots are exactly the enabled variants, in declaration order; data-carrying or empty enums are rejected -/
theorem table_keys (d : EnumDef) (t : TableImpl) (hg : genTable d = .ok t) :
    t.keys = d.enabled.map (·.ident) ∧ t.fields = d.enabled.map tableFieldName ∧
    (∀ v ∈ d.enabled, v.fields = .unit) ∧ d.enabled ≠ [] := by
  unfold genTable at hg
  split at hg
  · cases hg
  · next hnu =>
    split at hg
    · cases hg
    · next hne =>
      cases hg
      refine ⟨rfl, rfl, ?_, ?_⟩
      · intro v hv
        have : ¬ (d.enabled.any (fun v => v.fields != .unit) = true) := hnu
        simp only [List.any_eq_true, not_exists, not_and] at this
        have := this v hv
        simpa using this
      · intro h; rw [h] at hne; simp at hne

/-! non-vacuity -/
def tblEnum : EnumDef := { variants := [{ ident := [65] }, { ident := [66], disabled := true }, { ident := [67] }] }
example : ∃ t, genTable tblEnum = .ok t ∧ t.keys = [[65], [67]] ∧ t.keys.Nodup := ⟨_, rfl, rfl, by decide⟩

end Strum

namespace Strum

/-! ### every write/read history behaves like a plain function from keys to values -/

inductive TOp (α : Type)
  | set (k : Bytes) (x : α)
  | get (k : Bytes)

/-- run a history on the generated table; `none` = a panic (index with a key that has no slot) -/
def runTable {α : Type} (t : TableImpl) : TableVal α → List (TOp α) → Option (List α)
  | _, [] => some []
  | tv, .set k x :: ops =>
    match t.set tv k x with
    | none => none
    | some tv' => runTable t tv' ops
  | tv, .get k :: ops =>
    match t.index tv k with
    | none => none
    | some x => (runTable t tv ops).map (x :: ·)

/-- the reference map: a function updated pointwise -/
def runSpec {α : Type} : (Bytes → α) → List (TOp α) → List α
  | _, [] => []
  | f, .set k x :: ops => runSpec (fun k' => if k' = k then x else f k') ops
  | f, .get k :: ops => f k :: runSpec f ops

def TOp.key {α : Type} : TOp α → Bytes
  | .set k _ => k
  | .get k => k

/-- **Refinement to a total map**: on histories that only use enabled variants, the table answers every read
    exactly like the reference function, whatever the order and number of writes. -/
theorem table_refines {α : Type} (t : TableImpl) (ops : List (TOp α)) (hk : ∀ op ∈ ops, op.key ∈ t.keys) :
    ∀ (tv : TableVal α) (f : Bytes → α), tv.length = t.keys.length → (∀ k ∈ t.keys, t.index tv k = some (f k)) →
      runTable t tv ops = some (runSpec f ops) := by
  induction ops with
  | nil => intro tv f _ _; rfl
  | cons op rest ih =>
    intro tv f hl hf
    have hrest : ∀ op ∈ rest, op.key ∈ t.keys := fun o ho => hk o (by simp [ho])
    cases op with
    | get k =>
      have hkm : k ∈ t.keys := hk (.get k) (by simp)
      simp only [runTable, runSpec, hf k hkm, ih hrest tv f hl hf, Option.map_some]
    | set k x =>
      have hkm : k ∈ t.keys := hk (.set k x) (by simp)
      obtain ⟨tv', hs, hl'⟩ := (set_some_iff t tv hl k x).2 hkm
      simp only [runTable, runSpec, hs]
      apply ih hrest tv' _ hl'
      intro k' hk'
      rw [get_set t tv tv' k k' x hs]
      by_cases h : k' = k
      · simp [h]
      · simp [h, hf k' hk']

/-- starting from `from_closure(f)` -/
theorem table_refines_from_closure {α : Type} (t : TableImpl) (f : Bytes → α) (ops : List (TOp α))
    (hk : ∀ op ∈ ops, op.key ∈ t.keys) : runTable t (t.fromClosure f) ops = some (runSpec f ops) :=
  table_refines t ops hk _ f (by simp [TableImpl.fromClosure]) (fun k hkm => from_closure_get t f k hkm)

end Strum
