import StrumModel
namespace Strum
theorem c02_placeholder : True := trivial
end Strum
