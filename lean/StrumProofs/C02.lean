import StrumProofs.C01
import StrumProofs.C03
/-
C02 — printing a variant and parsing the result returns the same variant.
-/
namespace Strum

/-- with no prefix, the canonical (printed) name is one of the variant's own spellings:
    the print side picks one name, the parse side lists all, both with the same `case_style` -/
theorem canonical_mem_serializations (d : EnumDef) (hp : d.pfx = none) (v : Variant) :
    canonical d v ∈ serializations d.style v := by
  rw [← preferredName_eq_canonical, hp]
  exact printed_mem_serializations d.style v

/-- every spelling of a candidate variant parses back to that variant -/
theorem serializations_roundtrip (d : EnumDef) (hphf : d.usePhf = false) (p : FromStrImpl)
    (hg : genFromStr d = .ok p) (hno : NoOverlap d) (v : Variant) (hv : v ∈ d.candidates)
    (sp : Bytes) (hsp : sp ∈ serializations d.style v) :
    parse d sp = .ok (.ok v.ident (payloadOf v)) :=
  parse_accepting d hphf p hg hno sp v hv (accepts_own_spelling d v sp hsp)

/-- **Round trip.**  For an enum without prefix and any enabled, non-default, non-transparent
    variant whose name has no placeholder: whatever string a string-producing derive returns for it
    parses back to the same variant with defaulted payload. -/
theorem roundtrip (d : EnumDef) (hphf : d.usePhf = false) (p : FromStrImpl)
    (hg : genFromStr d = .ok p) (hno : NoOverlap d) (hp : d.pfx = none)
    (hid : (d.variants.map (·.ident)).Nodup)
    (v : Variant) (hv : v ∈ d.candidates) (ht : v.transparent = false)
    (hb : NoPlaceholder (canonical d v)) (dv : NameDerive) (inner : Bytes) (o : ShowOut)
    (ho : (if dv = .display then displayOut d v (fun _ => inner) {} else strOut d dv v inner) = .ok o) :
    ∃ b, o = .text b ∧ parse d b = .ok (.ok v.ident (payloadOf v)) := by
  have hvc := hv
  unfold EnumDef.candidates at hv
  simp only [List.mem_filter, Bool.and_eq_true, Bool.not_eq_eq_eq_not, Bool.not_true] at hv
  obtain ⟨hmem, hen, hnd⟩ := hv
  refine ⟨canonical d v, ?_, serializations_roundtrip d hphf p hg hno v hvc _ (canonical_mem_serializations d hp v)⟩
  split at ho
  · exact displayOut_canonical d hid v hmem hen ht hnd hb _ o ho
  · exact strOut_canonical d hid v hmem hen ht hnd hb dv inner o ho

/-- `EnumMessage::get_serializations` is generated from the same list as the `FromStr` arms
    (enum_messages.rs:36-47): each returned string parses back -/
def getSerializations (d : EnumDef) (v : Variant) : List Bytes := serializations d.style v

theorem get_serializations_roundtrip (d : EnumDef) (hphf : d.usePhf = false) (p : FromStrImpl)
    (hg : genFromStr d = .ok p) (hno : NoOverlap d) (v : Variant) (hv : v ∈ d.candidates) :
    ∀ sp ∈ getSerializations d v, parse d sp = .ok (.ok v.ident (payloadOf v)) :=
  fun sp hsp => serializations_roundtrip d hphf p hg hno v hv sp hsp

/-! non-vacuity: `exampleEnum` of C01 (ci enum, snake_case) satisfies the hypotheses -/
example : parse exampleEnum (canonical exampleEnum { ident := [82, 101, 100] }) = .ok (.ok [82, 101, 100] []) := by rfl

end Strum
