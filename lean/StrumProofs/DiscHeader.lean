import StrumModel.DiscHeader
import StrumProofs.Source
/-
`#[strum_discriminants(..)]` collection and the header of the generated enum: the loop succeeds iff `name` and `vis` are
each written at most once and then equals the declarative reading; derive paths, doc lines and pass-through attributes
keep their source order and do not depend on where they stand relative to one another; the generated enum carries its
`derive` before every pass-through attribute.
-/
namespace Strum

def applyD (p : DiscProps) : DItem → DiscProps
  | .derive ps => { p with derives := p.derives ++ ps }
  | .doc l => { p with docs := p.docs ++ [l] }
  | .other t => { p with others := p.others ++ [t] }
  | .name n => { p with name := some n }
  | .vis v => { p with vis := some v }

def nNames (its : List DItem) : Nat := (its.filterMap DItem.name?).length
def nVis (its : List DItem) : Nat := (its.filterMap DItem.vis?).length

theorem dItems_ok (st st' : DState) (its : List DItem) (h : dItems st its = .ok st') :
    st'.p = its.foldl applyD st.p := by
  induction its generalizing st with
  | nil => simp only [dItems, Except.ok.injEq] at h; subst h; rfl
  | cons it its ih =>
    simp only [dItems] at h
    cases hs : dStep st it with
    | error k => rw [hs] at h; cases h
    | ok st1 =>
      rw [hs] at h
      rw [ih st1 h, List.foldl_cons]
      congr 1
      cases it <;> simp only [dStep] at hs
      · cases hs; rfl
      · split at hs
        · cases hs
        · cases hs; rfl
      · split at hs
        · cases hs
        · cases hs; rfl
      · cases hs; rfl
      · cases hs; rfl

theorem dItems_ok_iff (st : DState) (its : List DItem) :
    (∃ st', dItems st its = .ok st') ↔
      (st.seenName.toNat + nNames its ≤ 1 ∧ st.seenVis.toNat + nVis its ≤ 1) := by
  induction its generalizing st with
  | nil =>
    simp only [dItems, nNames, nVis, List.filterMap_nil, List.length_nil, Nat.add_zero]
    exact ⟨fun _ => ⟨by cases st.seenName <;> simp, by cases st.seenVis <;> simp⟩, fun _ => ⟨st, rfl⟩⟩
  | cons it its ih =>
    cases it with
    | derive ps =>
      simp only [dItems, dStep, nNames, nVis, List.filterMap_cons, DItem.name?, DItem.vis?]
      exact ih _
    | doc l =>
      simp only [dItems, dStep, nNames, nVis, List.filterMap_cons, DItem.name?, DItem.vis?]
      exact ih _
    | other t =>
      simp only [dItems, dStep, nNames, nVis, List.filterMap_cons, DItem.name?, DItem.vis?]
      exact ih _
    | name n =>
      simp only [dItems, dStep, nNames, nVis, List.filterMap_cons, DItem.name?, DItem.vis?, List.length_cons]
      cases hsn : st.seenName with
      | true =>
        simp only [↓reduceIte, Bool.toNat_true]
        constructor
        · rintro ⟨_, h⟩; cases h
        · intro ⟨h, _⟩; omega
      | false =>
        simp only [Bool.false_eq_true, ↓reduceIte, Bool.toNat_false]
        rw [ih]
        simp only [Bool.toNat_true, nNames, nVis]
        constructor <;> (intro ⟨a, b⟩; exact ⟨by omega, b⟩)
    | vis v =>
      simp only [dItems, dStep, nNames, nVis, List.filterMap_cons, DItem.name?, DItem.vis?, List.length_cons]
      cases hsv : st.seenVis with
      | true =>
        simp only [↓reduceIte, Bool.toNat_true]
        constructor
        · rintro ⟨_, h⟩; cases h
        · intro ⟨_, h⟩; omega
      | false =>
        simp only [Bool.false_eq_true, ↓reduceIte, Bool.toNat_false]
        rw [ih]
        simp only [Bool.toNat_true, nNames, nVis]
        constructor <;> (intro ⟨a, b⟩; exact ⟨a, by omega⟩)

theorem foldl_get_append {S I β : Type} (ap : S → I → S) (get : S → List β) (g : I → List β)
    (hset : ∀ s it, get (ap s it) = get s ++ g it) (its : List I) (s : S) :
    get (its.foldl ap s) = get s ++ (its.map g).flatten := by
  induction its generalizing s with
  | nil => simp
  | cons it its ih => rw [List.foldl_cons, ih, hset]; simp

theorem flatten_map_optList {α β : Type} (f : α → Option (List β)) (l : List α) :
    (l.map (fun x => (f x).getD [])).flatten = (l.filterMap f).flatten := by
  induction l with
  | nil => rfl
  | cons a l ih =>
    simp only [List.map_cons, List.flatten_cons, List.filterMap_cons, ih]
    cases f a <;> simp

theorem flatten_map_optSingle {α β : Type} (f : α → Option β) (l : List α) :
    (l.map (fun x => (f x).toList)).flatten = l.filterMap f := by
  induction l with
  | nil => rfl
  | cons a l ih =>
    simp only [List.map_cons, List.flatten_cons, List.filterMap_cons, ih]
    cases f a <;> simp

theorem foldD_eq_declared (its : List DItem) : its.foldl applyD {} = discDeclared its := by
  have e1 := foldl_get_append applyD DiscProps.derives (fun it => (DItem.derive? it).getD [])
    (by intro p it; cases it <;> simp [applyD, DItem.derive?]) its {}
  have e2 := foldl_get_append applyD DiscProps.docs (fun it => (DItem.doc? it).toList)
    (by intro p it; cases it <;> simp [applyD, DItem.doc?]) its {}
  have e3 := foldl_get_append applyD DiscProps.others (fun it => (DItem.other? it).toList)
    (by intro p it; cases it <;> simp [applyD, DItem.other?]) its {}
  have e4 := foldl_get_last applyD DiscProps.name DItem.name?
    (by intro p it; cases it <;> simp [applyD, DItem.name?]) its {}
  have e5 := foldl_get_last applyD DiscProps.vis DItem.vis?
    (by intro p it; cases it <;> simp [applyD, DItem.vis?]) its {}
  rw [flatten_map_optList] at e1
  rw [flatten_map_optSingle] at e2 e3
  unfold discDeclared
  generalize its.foldl applyD {} = p at *
  cases p
  simp only [List.nil_append, Option.or_none] at *
  simp only [DiscProps.mk.injEq]
  exact ⟨e1, e4, e5, e2, e3⟩

theorem discCollectable_iff (its : List DItem) : discCollectable its = true ↔ nNames its ≤ 1 ∧ nVis its ≤ 1 := by
  simp [discCollectable, nNames, nVis]

/-- **The `strum_discriminants` loop succeeds iff `name` and `vis` are each written at most once - wherever, in whichever
    attribute list - and then yields the declarative reading**: ALL derive paths, ALL doc lines and ALL pass-through
    attributes, each in source order, none of them depending on where the others stand. -/
theorem collectDisc_ok_iff (attrs : List (List DItem)) (p : DiscProps) :
    collectDisc attrs = .ok p ↔ discCollectable attrs.flatten = true ∧ p = discDeclared attrs.flatten := by
  rw [discCollectable_iff]
  have hiff := dItems_ok_iff {} attrs.flatten
  simp only [Bool.toNat_false, Nat.zero_add] at hiff
  unfold collectDisc
  cases hc : dItems {} attrs.flatten with
  | error k =>
    simp only [reduceCtorEq, false_iff, not_and]
    intro hcond
    obtain ⟨st', hst⟩ := hiff.mpr hcond
    rw [hc] at hst; cases hst
  | ok st =>
    have hp := dItems_ok _ _ _ hc
    rw [foldD_eq_declared] at hp
    simp only [Except.ok.injEq]
    constructor
    · intro h; exact ⟨hiff.mp ⟨st, hc⟩, by rw [← h, hp]⟩
    · intro ⟨_, h⟩; rw [h, hp]

theorem collectDisc_error_iff (attrs : List (List DItem)) :
    (∃ k, collectDisc attrs = .error k) ↔ discCollectable attrs.flatten = false := by
  constructor
  · rintro ⟨k, hk⟩
    cases hc : discCollectable attrs.flatten with
    | false => rfl
    | true =>
      have := (collectDisc_ok_iff attrs _).mpr ⟨hc, rfl⟩
      rw [this] at hk; cases hk
  · intro hc
    cases h : collectDisc attrs with
    | error k => exact ⟨k, rfl⟩
    | ok p => rw [((collectDisc_ok_iff attrs p).mp h).1] at hc; cases hc

/-! ### the emitted header -/

/-- every pass-through attribute is emitted, in source order, AFTER the derive attribute (a passed-through helper
    attribute such as `strum(..)` needs the derive that declares it to come first), and the doc lines before it -/
theorem header_order (en ev : Bytes) (reprs : List Bytes) (p : DiscProps) :
    ∃ pre, (discHeader en ev reprs p).attrs =
      p.docs.map (kwDoc ++ ·) ++ (kwDerive ++ stdDerives ++ commaSep p.derives ++ [41]) :: pre ++ p.others ∧
      pre.length ≤ 1 := by
  unfold discHeader
  by_cases hr : reprs.isEmpty = true
  · exact ⟨[], by simp [hr], by simp⟩
  · exact ⟨[kwRepr ++ commaSep reprs ++ [41]], by simp [hr], by simp⟩

/-- the pass-through attributes of the header are exactly the written ones, in source order, whatever else is written
    between or before them (in particular: before or after any `derive(..)`) -/
theorem header_others (en ev : Bytes) (reprs : List Bytes) (attrs : List (List DItem)) (p : DiscProps)
    (h : collectDisc attrs = .ok p) :
    p.others = attrs.flatten.filterMap DItem.other? ∧ p.derives = (attrs.flatten.filterMap DItem.derive?).flatten ∧
    p.docs = attrs.flatten.filterMap DItem.doc? := by
  obtain ⟨_, rfl⟩ := (collectDisc_ok_iff attrs p).mp h
  exact ⟨rfl, rfl, rfl⟩

theorem header_name_vis (en ev : Bytes) (reprs : List Bytes) (p : DiscProps) :
    (discHeader en ev reprs p).name = (match p.name with | some n => n | none => en ++ sufDiscriminants) ∧
    (discHeader en ev reprs p).vis = (match p.vis with | some v => v | none => ev) ∧
    ((discHeader en ev reprs p).intoDisc = true ↔ (p.vis = none ∨ p.vis = some kwPub)) := by
  refine ⟨?_, ?_, ?_⟩
  · cases h : p.name <;> simp [discHeader, h]
  · cases h : p.vis <;> simp [discHeader, h]
  · cases h : p.vis <;> simp [discHeader, h]

/-! ### variant attributes -/

/-- the attributes of a generated variant: the whitelisted ones verbatim, `strum_discriminants(x)` as `x`, everything
    else dropped - in source order -/
theorem variantAttrs_spec (as : List VAttr) (ts : List Bytes) (h : variantAttrsOut as = .ok ts) :
    ts = as.filterMap (fun a => match variantAttrOut a with | some (.ok t) => some t | _ => none) ∧
    ∀ a ∈ as, variantAttrOut a ≠ some (.error ()) := by
  induction as generalizing ts with
  | nil => simp only [variantAttrsOut, Except.ok.injEq] at h; subst h; simp
  | cons a as ih =>
    simp only [variantAttrsOut] at h
    cases ha : variantAttrOut a with
    | none =>
      rw [ha] at h
      obtain ⟨h1, h2⟩ := ih ts h
      refine ⟨by simp [List.filterMap_cons, ha, ← h1], ?_⟩
      intro b hb
      rcases List.mem_cons.mp hb with rfl | hb'
      · simp [ha]
      · exact h2 b hb'
    | some r =>
      cases r with
      | error u => rw [ha] at h; cases h
      | ok t =>
        rw [ha] at h
        simp only at h
        cases hr : variantAttrsOut as with
        | error u => rw [hr] at h; cases h
        | ok ts' =>
          rw [hr] at h
          simp only [Except.ok.injEq] at h
          obtain ⟨h1, h2⟩ := ih ts' hr
          refine ⟨by simp [List.filterMap_cons, ha, ← h1, ← h], ?_⟩
          intro b hb
          rcases List.mem_cons.mp hb with rfl | hb'
          · simp [ha]
          · exact h2 b hb'

theorem variantAttrs_error_iff (as : List VAttr) :
    variantAttrsOut as = .error () ↔ ∃ a ∈ as, variantAttrOut a = some (.error ()) := by
  induction as with
  | nil => simp [variantAttrsOut]
  | cons a as ih =>
    simp only [variantAttrsOut, List.mem_cons, exists_eq_or_imp]
    cases ha : variantAttrOut a with
    | none => simp [ih]
    | some r =>
      cases r with
      | error u => simp
      | ok t =>
        simp only [reduceCtorEq, false_or]
        cases hr : variantAttrsOut as with
        | error u => simp [← ih, hr]
        | ok ts => simp [← ih, hr]

/-! ### non-vacuity -/

example : collectDisc [[.other [115]], [.derive [[72]], .name [75]], [.other [116], .derive [[79], [80]]]] =
    .ok { derives := [[72], [79], [80]], name := some [75], others := [[115], [116]] } := rfl
example : collectDisc [[.name [75]], [.doc [34, 34], .name [76]]] = .error .name := rfl

end Strum
