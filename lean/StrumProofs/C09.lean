import StrumProofs.C06
import StrumProofs.DiscHeader
import StrumProofs.Agree
/-
C09 — EnumDiscriminants mirrors the enum: same variants, order, repr, discriminants.
Model: `genDiscriminants`, `discFromArms`, `discOf` (StrumModel/Repr.lean) mirroring enum_discriminants.rs.
-/
namespace Strum

def visOf (d : EnumDef) : DiscVis := if d.discVis = 0 then .inherit else if d.discVis = 1 then .pub else .restricted

/-- **Same names, same order, same explicit discriminant values, same `#[repr]`.** -/
theorem disc_variants (d : EnumDef) (n : Option Bytes) (vis : DiscVis) :
    (genDiscriminants d n vis).variants.map (·.1) = d.variants.map (·.ident) ∧
    (genDiscriminants d n vis).variants.map (·.2) = d.variants.map (·.discr) ∧
    (genDiscriminants d n vis).asEnum.reprHints = d.reprHints ∧
    (genDiscriminants d n vis).asEnum.repr = d.repr ∧
    (genDiscriminants d n vis).variants.length = d.variants.length := by
  have hh : (genDiscriminants d n vis).asEnum.reprHints = d.reprHints := by
    unfold genDiscriminants DiscEnum.asEnum EnumDef.reprHints enumRepr
    by_cases he : d.reprAttrs.isEmpty = true
    · have : d.reprAttrs = [] := by simpa using he
      simp [this]
    · simp [he]
  refine ⟨?_, ?_, hh, ?_, ?_⟩
  · simp [genDiscriminants, Function.comp_def]
  · simp [genDiscriminants, Function.comp_def]
  · unfold EnumDef.repr; rw [hh]
  · simp [genDiscriminants]

/-- the generated enum carries a `#[repr(..)]` attribute iff the source enum has one, holding the hints of ALL of them
    in source order (`#[repr(u8)] #[repr(align(4))]` is mirrored as `#[repr(u8, align(4))]`) -/
theorem disc_repr_attr (d : EnumDef) (n : Option Bytes) (vis : DiscVis) :
    (genDiscriminants d n vis).repr = if d.reprAttrs = [] then none else some d.reprHints := by
  unfold genDiscriminants enumRepr EnumDef.reprHints
  by_cases he : d.reprAttrs = [] <;> simp [he]

/-- F9 regression witness: the pinned revision copied only the last attribute: `#[repr(u8)] #[repr(align(4))]` was
    mirrored as `#[repr(align(4))]`, an enum whose discriminant type is no longer `u8` -/
theorem pinned_disc_repr_wrong :
    enumReprPinned { reprAttrs := [[.int .u8], [.align 4]] } = some [.align 4] ∧
    intHint [ReprHint.align 4] = none ∧
    (EnumDef.repr { reprAttrs := [[.int .u8], [.align 4]] }) = some .u8 := by decide

/-- the discriminant rule only looks at the explicit values -/
theorem discrFrom_congr (f : Variant → Variant) (hf : ∀ v, (f v).discr = v.discr) (prev : Option Int)
    (vs : List Variant) : discrFrom prev (vs.map f) = discrFrom prev vs := by
  induction vs generalizing prev with
  | nil => rfl
  | cons v vs ih => simp [discrFrom, hf, ih]

/-- **Equal integer values.**  rustc numbers the generated enum exactly as it numbers the source enum:
    `EDiscriminants::V as R == (E::V{..} discriminant)` for every variant. -/
theorem disc_values (d : EnumDef) (n : Option Bytes) (vis : DiscVis) :
    rustcDiscr (genDiscriminants d n vis).asEnum = rustcDiscr d := by
  unfold rustcDiscr DiscEnum.asEnum genDiscriminants
  simp only [List.map_map]
  exact discrFrom_congr ((fun p => ({ ident := p.fst, discr := p.snd } : Variant)) ∘ fun v => (v.ident, v.discr)) (fun _ => rfl) none d.variants

theorem discOf_eq (vs : List Variant) (v : Variant) (hv : v ∈ vs) :
    ((vs.map (fun v => (v.ident, v.ident))).find? (fun p => p.1 == v.ident)).map (·.2) = some v.ident := by
  induction vs with
  | nil => simp at hv
  | cons x xs ih =>
    simp only [List.map_cons, List.find?_cons]
    by_cases hx : (x.ident == v.ident) = true
    · simp only [hx, Option.map_some, Option.some.injEq]; simpa using hx
    · simp only [hx]
      simp only [List.mem_cons] at hv
      rcases hv with rfl | hv
      · simp at hx
      · exact ih hv

/-- **`From<E>`, `From<&E>` and `IntoDiscriminant::discriminant` return the variant with `e`'s variant
    name** (one shared match body; `discriminant` delegates to `From<&Self>`). -/
theorem disc_from (d : EnumDef) (v : Variant) (hv : v ∈ d.variants) : discOf d v.ident = some v.ident := by
  unfold discOf discFromArms
  exact discOf_eq d.variants v hv

/-- `IntoDiscriminant` is implemented iff the visibility is not overridden or is `pub` -/
theorem into_discriminant_iff (d : EnumDef) (n : Option Bytes) (vis : DiscVis) :
    (genDiscriminants d n vis).hasIntoDiscriminant = true ↔ vis ≠ .restricted := by
  cases vis <;> simp [genDiscriminants]

/-- the generated type's name: the override, else `<Enum>Discriminants` -/
theorem disc_name (d : EnumDef) (vis : DiscVis) :
    (genDiscriminants d none vis).name = d.name ++ "Discriminants".toList.map (·.toNat) ∧
    ∀ n, (genDiscriminants d (some n) vis).name = n := by
  constructor
  · simp only [genDiscriminants, Option.getD_none]
    congr 1
  · intro n; rfl

/-- hence: converting any value and casting to the integer type gives the value's own discriminant -/
theorem disc_value_of_variant (d : EnumDef) (n : Option Bytes) (vis : DiscVis) (i : Nat) (hi : i < d.variants.length) :
    discOf d d.variants[i].ident = some d.variants[i].ident ∧
    (rustcDiscr (genDiscriminants d n vis).asEnum)[i]? = (rustcDiscr d)[i]? := by
  exact ⟨disc_from d _ (List.getElem_mem _), by rw [disc_values]⟩

/-! non-vacuity -/
example : (genDiscriminants { name := [69], variants := [{ ident := [65], discr := some 5 }, { ident := [66], fields := .tuple 2 }] } none .inherit).variants
    = [([65], some 5), ([66], none)] := by decide
example : rustcDiscr (genDiscriminants { name := [69], variants := [{ ident := [65], discr := some 5 }, { ident := [66], fields := .tuple 2 }] } none .inherit).asEnum = [5, 6] := by decide

end Strum
