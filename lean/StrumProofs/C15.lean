import StrumProofs.Lemmas.Bytes
import StrumProofs.Collect
import StrumProofs.Source
/-
C15 — EnumProperty returns the declared value for (variant, key, type), else None.
Model: `getProp` (StrumModel/Message.lean): outer match over enabled variants (plus `_ => None` when a
variant is disabled), inner `match prop { "key" => Some(value), .., _ => None }` per type bucket,
mirroring enum_properties.rs:34-75.
-/
namespace Strum

theorem find_enabled (d : EnumDef) (hid : (d.variants.map (·.ident)).Nodup) (v : Variant) (hv : v ∈ d.variants) :
    d.enabled.find? (fun w => w.ident == v.ident) = if v.disabled then none else some v := by
  unfold EnumDef.enabled
  generalize d.variants = vs at hid hv
  induction vs with
  | nil => simp at hv
  | cons x xs ih =>
    simp only [List.map_cons, List.nodup_cons, List.mem_map, not_exists, not_and] at hid
    simp only [List.mem_cons] at hv
    rcases hv with rfl | hv
    · cases hd : v.disabled
      · simp [hd]
      · simp only [List.filter_cons, hd, Bool.not_true, Bool.false_eq_true, ↓reduceIte]
        apply List.find?_eq_none.2
        intro w hw
        simp only [List.mem_filter] at hw
        simp only [beq_iff_eq]
        exact fun e => hid.1 w hw.1 e
    · have hne : (x.ident == v.ident) = false := by
        simp only [beq_eq_false_iff_ne, ne_eq]; exact fun e => hid.1 v hv e.symm
      simp only [List.filter_cons]
      split
      · simp only [List.find?_cons, hne]; exact ih hid.2 hv
      · exact ih hid.2 hv

/-- **The getter of type `T` returns the first declared `(key, T)` entry of that variant, `None` for
    a disabled variant, an unknown key, a key of another variant or a key declared with another type.** -/
theorem get_spec (t : PropTy) (d : EnumDef) (hid : (d.variants.map (·.ident)).Nodup)
    (v : Variant) (hv : v ∈ d.variants) (key : Bytes) :
    getProp t d v.ident key =
      if v.disabled then none
      else ((v.props.filter (fun p => p.2.ty == t)).find? (fun p => p.1 == key)).map (·.2) := by
  unfold getProp
  rw [find_enabled d hid v hv]
  cases v.disabled <;> simp [propInner]

/-- the returned value always has the getter's type (`get_str` never yields an integer, ...) -/
theorem get_type (t : PropTy) (d : EnumDef) (k key : Bytes) (x : PropVal) (h : getProp t d k key = some x) :
    x.ty = t := by
  unfold getProp at h
  split at h
  · cases h
  · next v _ =>
    simp only [Option.map_eq_some_iff] at h
    obtain ⟨p, hp, rfl⟩ := h
    have := List.mem_of_find?_eq_some hp
    simp only [propInner, List.mem_filter, beq_iff_eq] at this
    exact this.2

/-- **iff**, when a variant does not declare the same key twice with the same type -/
theorem get_iff (t : PropTy) (d : EnumDef) (hid : (d.variants.map (·.ident)).Nodup)
    (v : Variant) (hv : v ∈ d.variants) (key : Bytes) (x : PropVal)
    (hu : ∀ p ∈ v.props, ∀ q ∈ v.props, p.1 = q.1 → p.2.ty = q.2.ty → p = q) :
    getProp t d v.ident key = some x ↔ v.disabled = false ∧ (key, x) ∈ v.props ∧ x.ty = t := by
  rw [get_spec t d hid v hv key]
  cases hd : v.disabled
  · simp only [Bool.false_eq_true, ↓reduceIte, Option.map_eq_some_iff, true_and]
    constructor
    · rintro ⟨p, hp, rfl⟩
      have hm := List.mem_of_find?_eq_some hp
      have hk : p.1 = key := by simpa using List.find?_some hp
      simp only [List.mem_filter, beq_iff_eq] at hm
      exact ⟨by rw [← hk]; exact hm.1, hm.2⟩
    · rintro ⟨hm, hty⟩
      cases hf : (v.props.filter (fun p => p.2.ty == t)).find? (fun p => p.1 == key) with
      | none =>
        have := List.find?_eq_none.1 hf (key, x) (by simp [List.mem_filter, hm, hty])
        simp at this
      | some p =>
        have hpm := List.mem_of_find?_eq_some hf
        have hk : p.1 = key := by simpa using List.find?_some hf
        simp only [List.mem_filter, beq_iff_eq] at hpm
        have := hu p hpm.1 (key, x) hm hk (by rw [hpm.2, hty])
        exact ⟨p, rfl, by rw [this]⟩
  · simp

/-- integer values, including negative ones, are returned unchanged -/
theorem int_unchanged (d : EnumDef) (hid : (d.variants.map (·.ident)).Nodup) (v : Variant) (hv : v ∈ d.variants)
    (hen : v.disabled = false) (key : Bytes) (i : Int) (hm : (key, PropVal.int i) ∈ v.props)
    (hu : ∀ p ∈ v.props, ∀ q ∈ v.props, p.1 = q.1 → p.2.ty = q.2.ty → p = q) :
    getProp .int d v.ident key = some (.int i) :=
  (get_iff .int d hid v hv key (.int i) hu).2 ⟨hen, hm, rfl⟩

/-! non-vacuity -/
def propEnum : EnumDef :=
  { variants := [{ ident := [65], props := [([107], .str [118]), ([107], .int (-5)), ([98], .bool true)] },
                 { ident := [66], disabled := true, props := [([107], .str [119])] }] }
example : getProp .int propEnum [65] [107] = some (.int (-5)) := by decide
example : getProp .str propEnum [65] [107] = some (.str [118]) := by decide
example : getProp .str propEnum [66] [107] = none := by decide
example : getProp .bool propEnum [65] [107] = none := by decide

/-- **at source level**: the getter of type `T` on a written variant returns the first `(key, T)` entry among ALL `props(..)`
    groups written on that variant, in source order - whatever stands between the groups, whatever other variants carry -/
theorem source_get (t : PropTy) (s : RawSource) (hid : (s.variants.map (·.ident)).Nodup) (r : RawVariant)
    (hr : r ∈ s.variants) (key : Bytes) :
    getProp t s.declared r.ident key =
      if r.isDisabled then none
      else (((propsOf r.attrs.flatten).filter (fun p => p.2.ty == t)).find? (fun p => p.1 == key)).map (·.2) :=
  get_spec t s.declared (source_nodup s hid) r.declared (source_mem s r hr) key

end Strum
