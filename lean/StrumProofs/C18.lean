import StrumModel
namespace Strum
theorem c18_placeholder : True := trivial
end Strum
