import StrumProofs.C01
/-
C18 — a custom parse error is the user's function applied to the exact rejected input.
-/
namespace Strum

/-- **Rejected input ⇒ `Err(f(s))` with `f` called exactly once, on the caller's `s` itself.** -/
theorem custom_err (d : EnumDef) (hphf : d.usePhf = false) (p : FromStrImpl) (hg : genFromStr d = .ok p)
    (hc : d.customErr = true) (hnd : d.defaults = []) (s : Bytes)
    (hrej : ∀ v ∈ d.candidates, accepts d v s = false) :
    parse d s = .ok (.errCustom s) ∧ (ParseOut.errCustom s).callLog = [s] := by
  refine ⟨?_, rfl⟩
  rw [parse_other d hphf p hg s hrej]
  rcases fall_spec d hphf p hg with ⟨_, hf⟩ | ⟨v, hd, _, _⟩
  · rw [hf, hc]; rfl
  · rw [hnd] at hd; cases hd

/-- **Accepted input ⇒ `f` is not invoked.** -/
theorem no_call_on_success (d : EnumDef) (hphf : d.usePhf = false) (p : FromStrImpl)
    (hg : genFromStr d = .ok p) (s : Bytes) (v : Variant) (hv : v ∈ d.candidates)
    (ha : accepts d v s = true) (out : ParseOut) (h : parse d s = .ok out) : out.callLog = [] := by
  rw [parse_first_match d hphf p hg s] at h
  cases hc : d.candidates.find? (fun v => accepts d v s) with
  | none =>
    have := List.find?_eq_none.1 hc v hv
    simp [ha] at this
  | some w =>
    rw [hc] at h
    simp only [Except.ok.injEq] at h
    rw [← h]; rfl

/-- **Without the attributes the error is always `ParseError::VariantNotFound`.** -/
theorem std_err (d : EnumDef) (hphf : d.usePhf = false) (p : FromStrImpl) (hg : genFromStr d = .ok p)
    (hc : d.customErr = false) (hnd : d.defaults = []) (s : Bytes)
    (hrej : ∀ v ∈ d.candidates, accepts d v s = false) : parse d s = .ok .errStd := by
  rw [parse_other d hphf p hg s hrej]
  rcases fall_spec d hphf p hg with ⟨_, hf⟩ | ⟨v, hd, _, _⟩
  · rw [hf, hc]; rfl
  · rw [hnd] at hd; cases hd

/-- the error is never the custom one unless the attributes are present -/
theorem custom_only_if_declared (d : EnumDef) (hphf : d.usePhf = false) (p : FromStrImpl)
    (hg : genFromStr d = .ok p) (s a : Bytes) (h : parse d s = .ok (.errCustom a)) :
    d.customErr = true ∧ a = s := by
  have := ((parse_err_iff d hphf p hg s).2 a).1 h
  exact ⟨this.2.2.1, this.2.2.2⟩

/-- **`FromStr::Err` / `TryFrom::Error`**: the declared type, unless there is a default variant
    (then parsing cannot fail and the macro reverts to `strum::ParseError`). -/
theorem err_types (d : EnumDef) (hphf : d.usePhf = false) (p : FromStrImpl) (hg : genFromStr d = .ok p) :
    p.errTy = if d.customErr = true ∧ d.defaults = [] then .custom else .strumParseError := by
  rw [genFromStr_nophf d hphf] at hg
  split at hg
  · next h0 => cases hg; cases d.customErr <;> simp [h0]
  · next v h1 =>
    split at hg
    · cases hg; simp [h1]
    · cases hg
  · cases hg

/-! non-vacuity -/
def exampleErrEnum : EnumDef :=
  { customErr := true, ci := true, variants := [{ ident := [65] }, { ident := [66], ci := some false }] }
example : parse exampleErrEnum [98] = .ok (.errCustom [98]) := by rfl
example : parse exampleErrEnum [97] = .ok (.ok [65] []) := by rfl

end Strum
