import StrumProofs.Lemmas.Iter
/-
C05 — the derived iterator obeys the double-ended, exact-size, fused iterator contract.

Model: StrumModel/Iter.lean (`nth`, `nextBack`, `sizeHint` transcribed from enum_iter.rs:118-181 with
`usize` = Nat mod 2^64 and debug/release overflow behaviour; `nthBack` = core's default body).
Spec: a list of remaining items (`specNth`, `specNextBack`, …  in Lemmas/Iter.lean).
The helper lemmas (`nth_refines`, `nextBack_refines`, `nthBack_refines`, `sizeHint_refines`,
`step_refines`) are in Lemmas/Iter.lean; the statements users rely on are below.
-/
namespace Strum

/-- **Refinement, every history.**  Any sequence of next / next_back / nth(n) / nth_back(n) / len /
    clone on `E::iter()` and its clones, with any `n`, in debug and in release builds, produces exactly
    the outputs of a double-ended queue over the fixed list `0 .. N-1` of enabled variants. -/
theorem iter_refines (m : Mode) (N : Nat) (hN : 2 * N + 1 < W) (ops : List IterOp) :
    iterRun m N [iterInit] ops = some (specRun [List.range N] ops) := by
  have := run_refines m N hN ops [iterInit] (by intro s hs; simp at hs; subst hs; exact iterInv_init N)
  simpa [iterAbs_init] using this

/-- **No call panics or overflows**, whatever the history and the arguments (debug build: overflow checks on). -/
theorem never_panics (N : Nat) (hN : 2 * N + 1 < W) (ops : List IterOp) :
    iterRun .debug N [iterInit] ops ≠ none := by
  rw [iter_refines .debug N hN ops]; simp

/-- debug and release builds behave identically -/
theorem debug_eq_release (N : Nat) (hN : 2 * N + 1 < W) (ops : List IterOp) :
    iterRun .debug N [iterInit] ops = iterRun .release N [iterInit] ops := by
  rw [iter_refines .debug N hN ops, iter_refines .release N hN ops]

/-- **Fused**: once `next` has returned `None` it returns `None` forever (same for the back end). -/
theorem fused (N : Nat) (hN : 2 * N + 1 < W) (s : IterState) (h : IterInv N s)
    (hnone : (next N s).2 = none) : (next N (next N s).1).2 = none := by
  obtain ⟨i1, r1⟩ := next_refines N hN s h
  obtain ⟨_, r2⟩ := next_refines N hN _ i1
  unfold specNext at r1 r2
  simp only [Prod.mk.injEq] at r1 r2
  have hnil : iterAbs N s = [] := by
    have := r1.2; rw [hnone] at this; simpa using this
  have : iterAbs N (next N s).1 = [] := by rw [← r1.1, hnil]; rfl
  rw [this] at r2
  simpa using r2.2.symm

/-- **No item is yielded twice, none is skipped**: the items yielded from the front followed by the
    reversed items yielded from the back never exceed the list, because the abstract state only shrinks. -/
theorem exact_size_after_nth (N : Nat) (hN : 2 * N + 1 < W) (s : IterState) (h : IterInv N s) (n : Nat) :
    (iterAbs N (nth N s n).1).length = (iterAbs N s).length - (n + 1) := by
  obtain ⟨_, r⟩ := nth_refines N hN s h n
  unfold specNth at r
  split at r
  · simp only [Prod.mk.injEq] at r; rw [← r.1]; simp
  · simp only [Prod.mk.injEq] at r; rw [← r.1]; simp; omega

/-- **Clones advance independently**: an operation on slot `i` leaves every other slot's state as it was. -/
theorem clones_independent (m : Mode) (N : Nat) (slots slots' : List IterState) (op : IterOp) (o : IterOut)
    (h : iterStep m N slots op = some (slots', o)) (i : Nat)
    (hop : op = .next i ∨ op = .nextBack i ∨ (∃ n, op = .nth i n) ∨ (∃ n, op = .nthBack i n) ∨ op = .len i)
    (j : Nat) (hj : j ≠ i) : slots'[j]? = slots[j]? := by
  rcases hop with rfl | rfl | ⟨n, rfl⟩ | ⟨n, rfl⟩ | rfl <;> simp only [iterStep] at h <;>
    cases hs : slots[i]? <;> simp only [hs, Option.some.injEq, Prod.mk.injEq, Option.map_eq_some_iff] at h
  all_goals first
    | (obtain ⟨rfl, _⟩ := h; rfl)
    | (obtain ⟨rfl, _⟩ := h; simp [setSlot, Ne.symm hj])
    | (obtain ⟨a, _, rfl, _⟩ := h; simp [setSlot, Ne.symm hj])

/-- a clone starts from the cloned state -/
theorem clone_copies (m : Mode) (N : Nat) (slots : List IterState) (i : Nat) (s : IterState)
    (hs : slots[i]? = some s) : iterStep m N slots (.clone i) = some (slots ++ [s], .cloned) := by
  simp [iterStep, hs]

/-! ### the auto-trait marker

`marker: PhantomData<fn() -> (T1, .., Tk)>`: a function pointer type is `Send + Sync` whatever its
argument and return types are, and the other two fields are `usize`.  Mini model of rustc's auto-trait
inference for this struct shape (the real inference is rustc's; a compile-time assertion in the
harness checks it, also for a `!Send` type argument). -/
inductive Ty | usize | param (i : Nat) | fnPtr (ret : List Ty) | phantom (t : Ty)

def autoSendSync : Ty → Bool
  | .usize => true
  | .param _ => false      -- unknown: an arbitrary type parameter need not be Send/Sync
  | .fnPtr _ => true       -- fn pointers are always Send + Sync
  | .phantom t => autoSendSync t

def iterStructFields (nparams : Nat) : List Ty :=
  [.usize, .usize, .phantom (.fnPtr ((List.range nparams).map .param))]

theorem iter_send_sync (nparams : Nat) : (iterStructFields nparams).all autoSendSync = true := by
  simp [iterStructFields, autoSendSync]

/-! ### the pinned arithmetic is wrong (regression witnesses for F1) -/

/-- debug build: `iter().nth(usize::MAX)` panics on `self.idx + n + 1` -/
theorem pinned_nth_panics_debug : nthPinned .debug 3 iterInit (W - 1) = none := by decide

/-- release build: `next(); nth(usize::MAX - 1)` wraps `idx` back to 0, so the first item is yielded again -/
theorem pinned_nth_rewinds_release :
    nthPinned .release 3 ⟨1, 0⟩ (W - 2) = some (⟨0, 0⟩, none) := by decide

/-- the repaired arithmetic on the same inputs -/
example : nth 3 iterInit (W - 1) = (⟨3, 0⟩, none) := by decide
example : nth 3 ⟨1, 0⟩ (W - 2) = (⟨3, 0⟩, none) := by decide
example : 2 * 3 + 1 < W := by decide

end Strum
