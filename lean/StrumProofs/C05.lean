import StrumModel
namespace Strum
theorem c05_placeholder : True := trivial
end Strum
