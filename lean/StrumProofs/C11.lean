import StrumModel
namespace Strum
theorem c11_placeholder : True := trivial
end Strum
