import StrumProofs.C02
/-
C11 — default and transparent variants capture and forward their inner value verbatim.
The inner field's own `Display` / `AsRef<str>` / `From` impl is a *parameter* (`inner`): the theorems hold
for every function, which is the strongest form of "verbatim".
-/
namespace Strum

/-- **Capture.**  An input that is no candidate's spelling comes back inside the default variant,
    holding exactly that input (`s.into()`). -/
theorem default_captures (d : EnumDef) (hphf : d.usePhf = false) (p : FromStrImpl)
    (hg : genFromStr d = .ok p) (s : Bytes) (hrej : ∀ v ∈ d.candidates, accepts d v s = false)
    (v : Variant) (hd : d.defaults = [v]) :
    parse d s = .ok (.ok v.ident [.captured s]) := by
  rw [parse_other d hphf p hg s hrej]
  rcases fall_spec d hphf p hg with ⟨h0, _⟩ | ⟨w, hw, _, hf⟩
  · rw [h0] at hd; cases hd
  · rw [hw] at hd; cases hd; rw [hf]; rfl

/-- the Display arm of a default variant without `to_string`, and of a transparent variant, hands the
    caller's formatter to the inner field -/
theorem displayArm_forward (d : EnumDef) (v : Variant) (a : NameArm) (h : displayArm d v = .ok a)
    (hf : v.transparent = true ∨ (v.isDefault = true ∧ v.toStr = none)) : a = .forward := by
  unfold displayArm at h
  by_cases ht : v.transparent = true
  · simp only [ht, ↓reduceIte] at h
    split at h
    · cases h; rfl
    · cases h
  · rcases hf with hf | ⟨h1, h2⟩
    · exact absurd hf ht
    · simp only [ht, Bool.false_eq_true, ↓reduceIte, h1, h2, Option.isNone_none, Bool.and_self] at h
      split at h
      · cases h; rfl
      · cases h

theorem asRefArm_forward (d : EnumDef) (v : Variant) (a : NameArm) (h : asRefArm d v = .ok a)
    (ht : v.transparent = true) : a = .forward := by
  unfold asRefArm at h
  simp only [ht, ↓reduceIte] at h
  split at h
  · cases h; rfl
  · cases h

/-- **Forwarding, Display.**  `format!(spec, v)` is `format!(spec, inner)` for every spec: the same
    formatter (width, fill, alignment, precision, flags) reaches the inner value. -/
theorem display_forwards (d : EnumDef) (hid : (d.variants.map (·.ident)).Nodup)
    (v : Variant) (hv : v ∈ d.variants) (hen : v.disabled = false)
    (hf : v.transparent = true ∨ (v.isDefault = true ∧ v.toStr = none))
    (inner : FmtSpec → Bytes) (sp : FmtSpec) (o : ShowOut) (h : displayOut d v inner sp = .ok o) :
    o = .text (inner sp) := by
  unfold displayOut at h
  cases hg : genNames d .display with
  | error e => simp [hg, Except.map] at h
  | ok arms =>
    simp only [hg, Except.map, Except.ok.injEq] at h
    obtain ⟨a, ha, hl⟩ := genNames_lookup d .display arms hg hid v hv hen
    have := displayArm_forward d v a (by simpa [armOf] using ha) hf
    subst this
    rw [← h, hl]; rfl

/-- **Forwarding, AsRefStr / AsStaticStr / IntoStaticStr / into_str.**  A transparent variant returns
    exactly what its inner field returns. -/
theorem str_forwards (d : EnumDef) (hid : (d.variants.map (·.ident)).Nodup)
    (v : Variant) (hv : v ∈ d.variants) (hen : v.disabled = false) (ht : v.transparent = true)
    (dv : NameDerive) (hdv : dv ≠ .display ∧ dv ≠ .toStringDeprecated)
    (inner : Bytes) (o : ShowOut) (h : strOut d dv v inner = .ok o) : o = .text inner := by
  unfold strOut at h
  cases hg : genNames d dv with
  | error e => simp [hg, Except.map] at h
  | ok arms =>
    simp only [hg, Except.map, Except.ok.injEq] at h
    obtain ⟨a, ha, hl⟩ := genNames_lookup d dv arms hg hid v hv hen
    have ha' : asRefArm d v = .ok a := by
      cases dv <;> simp_all [armOf]
    have := asRefArm_forward d v a ha' ht
    subst this
    rw [← h, hl]; rfl

theorem pad_default (s : Bytes) : pad {} s = s := rfl

/-- **`E::from_str(s)?.to_string() == s`** for every `s` that is no other variant's spelling, when the
    default variant's inner type prints a string as itself (`String`, `Box<str>`: `inner spec = pad spec s`). -/
theorem default_roundtrip (d : EnumDef) (hphf : d.usePhf = false) (p : FromStrImpl)
    (hg : genFromStr d = .ok p) (hid : (d.variants.map (·.ident)).Nodup)
    (s : Bytes) (hrej : ∀ v ∈ d.candidates, accepts d v s = false)
    (v : Variant) (hd : d.defaults = [v]) (hts : v.toStr = none)
    (o : ShowOut) (h : displayOut d v (fun sp => pad sp s) {} = .ok o) :
    parse d s = .ok (.ok v.ident [.captured s]) ∧ o = .text s := by
  refine ⟨default_captures d hphf p hg s hrej v hd, ?_⟩
  have hv : v ∈ d.defaults := by rw [hd]; simp
  unfold EnumDef.defaults at hv
  simp only [List.mem_filter, Bool.and_eq_true, Bool.not_eq_eq_eq_not, Bool.not_true] at hv
  have := display_forwards d hid v hv.1 hv.2.1 (Or.inr ⟨hv.2.2, hts⟩) _ {} o h
  rw [this]; rfl

/-! non-vacuity -/
def exampleFwd : EnumDef :=
  { variants := [{ ident := [65] }, { ident := [79], isDefault := true, fields := .tuple 1 },
                 { ident := [84], transparent := true, fields := .named [([105], none)] }] }
example : displayOut exampleFwd { ident := [79], isDefault := true, fields := .tuple 1 } (fun sp => pad sp [120, 121]) {}
    = .ok (.text [120, 121]) := by rfl
example : strOut exampleFwd .asRef { ident := [84], transparent := true, fields := .named [([105], none)] } [122]
    = .ok (.text [122]) := by rfl

end Strum
