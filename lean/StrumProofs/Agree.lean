import StrumProofs.Source
import StrumProofs.DiscHeader
import StrumModel.Validate
/-
Two models of the same loops must agree.  `StrumModel/Validate.lean` (C20) decides "does `get_type_properties` /
`get_variant_properties` fail" by COUNTING item kinds; `StrumModel/Collect.lean` / `DiscHeader.lean` transcribe the loops
with their occurrence state.  Here: the kind-erasure of the items as written, and the proof that the two verdicts
coincide - so C20's reject rules R4 / R8 are statements about the very attribute lists every other property's theorems
start from.
-/
namespace Strum

def PropVal.litKind : PropVal → LitKind
  | .str _ => .str | .int _ => .int | .bool _ => .bool

def VItem.toVarAttr : VItem → VarAttr
  | .message _ => .message
  | .detailed _ => .detailed
  | .serialize _ => .serialize
  | .toStr _ => .toString
  | .transparent => .transparent
  | .disabled => .disabled
  | .default => .default
  | .defaultWith _ => .defaultWith
  | .ci _ => .ci
  | .props ps => .props (ps.map (fun p => p.2.litKind))

def EItem.toEnumAttr : EItem → EnumAttr
  | .serializeAll s => .serializeAll (parseStyle s).isSome
  | .ci => .ci
  | .pfx _ => .pfx
  | .usePhf => .usePhf
  | .parseErrTy => .parseErrTy
  | .parseErrFn => .parseErrFn
  | .constIntoStr => .constIntoStr
  | .cratePath => .crate

def DItem.toDiscAttr : DItem → DiscAttr
  | .derive _ => .derive
  | .name _ => .name
  | .vis _ => .vis
  | .doc _ => .doc
  | .other _ => .other

/-! ### variant level -/

theorem sameKind_iff_kind (a x : VItem) (k : VKind) (ha : a.kind? = some k) :
    VarAttr.sameKind a.toVarAttr x.toVarAttr = (x.kind? == some k) := by
  cases a <;> simp [VItem.kind?] at ha <;> subst ha <;> cases x <;> rfl

theorem singleUse_iff_kind (a : VItem) : a.toVarAttr.singleUse = a.kind?.isSome := by
  cases a <;> rfl

theorem countP_sameKind (a : VItem) (k : VKind) (ha : a.kind? = some k) (its : List VItem) :
    countP (VarAttr.sameKind a.toVarAttr) (its.map VItem.toVarAttr) = (kindsOf its).count k := by
  unfold countP kindsOf
  induction its with
  | nil => rfl
  | cons x xs ih =>
    simp only [List.map_cons, List.filter_cons, sameKind_iff_kind a x k ha, List.filterMap_cons]
    cases hx : x.kind? with
    | none => simpa using ih
    | some k' =>
      by_cases hk : k' = k
      · subst hk; simp [ih]
      · have h1 : (some k' == some k) = false := by simp [hk]
        simp only [h1, Bool.false_eq_true, ↓reduceIte, ih]
        rw [List.count_cons]
        simp [hk]

/-- **the counting verdict = the loop's verdict** for one variant: Validate's `varAttrErr` on the erased items holds iff a
    single-use kind occurs twice, i.e. (by `collectVariant_error_iff`) iff `get_variant_properties`' loop fails -/
theorem varAttrErr_iff (its : List VItem) :
    varAttrErr (its.map VItem.toVarAttr) = true ↔ ¬ (kindsOf its).Nodup := by
  rw [List.nodup_iff_count]
  simp only [varAttrErr, List.any_map, List.any_eq_true, Function.comp_apply, Bool.and_eq_true, decide_eq_true_eq,
    Classical.not_forall, Nat.not_le]
  constructor
  · rintro ⟨a, ha, hs, hc⟩
    rw [singleUse_iff_kind] at hs
    obtain ⟨k, hk⟩ := Option.isSome_iff_exists.mp hs
    rw [countP_sameKind a k hk] at hc
    exact ⟨k, hc⟩
  · rintro ⟨k, hk⟩
    have hpos : 0 < (kindsOf its).count k := by omega
    have hm : k ∈ kindsOf its := List.count_pos_iff.mp hpos
    obtain ⟨a, ha, hak⟩ := List.mem_filterMap.mp hm
    refine ⟨a, ha, ?_, ?_⟩
    · rw [singleUse_iff_kind, hak]; rfl
    · rw [countP_sameKind a k hak]; exact hk

theorem varAttrErr_iff_collect (r : RawVariant) :
    varAttrErr (r.attrs.flatten.map VItem.toVarAttr) = true ↔ ∃ k, collectVariant r = .error k := by
  rw [varAttrErr_iff, collectVariant_error_iff]

/-! ### enum level -/

theorem esameKind_iff_kind (a x : EItem) : EnumAttr.sameKind a.toEnumAttr x.toEnumAttr = (x.kind == a.kind) := by
  cases a <;> cases x <;> rfl

theorem countP_esameKind (a : EItem) (its : List EItem) :
    countP (EnumAttr.sameKind a.toEnumAttr) (its.map EItem.toEnumAttr) = (ekindsOf its).count a.kind := by
  unfold countP ekindsOf
  induction its with
  | nil => rfl
  | cons x xs ih =>
    simp only [List.map_cons, List.filter_cons, esameKind_iff_kind a x, List.count_cons]
    by_cases hk : x.kind = a.kind
    · simp [hk, ih]
    · have : (x.kind == a.kind) = false := by simp [hk]
      simp [this, ih]

theorem badStyle_iff (its : List EItem) :
    (its.map EItem.toEnumAttr).any (fun a => a == .serializeAll false) = true ↔ its.all styleOk = false := by
  induction its with
  | nil => simp
  | cons x xs ih =>
    simp only [List.map_cons, List.any_cons, List.all_cons, Bool.or_eq_true, Bool.and_eq_false_iff]
    rw [ih]
    have : (x.toEnumAttr == EnumAttr.serializeAll false) = true ↔ styleOk x = false := by
      cases x <;> simp [EItem.toEnumAttr, styleOk]
      all_goals (try decide)
    rw [this]

theorem dupKind_iff (its : List EItem) :
    (its.map EItem.toEnumAttr).any (fun a => decide (2 ≤ countP (EnumAttr.sameKind a) (its.map EItem.toEnumAttr))) = true ↔
      ¬ (ekindsOf its).Nodup := by
  rw [List.nodup_iff_count]
  simp only [List.any_map, List.any_eq_true, Function.comp_apply, decide_eq_true_eq, Classical.not_forall, Nat.not_le]
  constructor
  · rintro ⟨a, _, hc⟩
    rw [countP_esameKind] at hc
    exact ⟨a.kind, hc⟩
  · rintro ⟨k, hk⟩
    have hm : k ∈ ekindsOf its := List.count_pos_iff.mp (by omega)
    obtain ⟨a, ha, hak⟩ := List.mem_map.mp hm
    exact ⟨a, ha, by rw [countP_esameKind, hak]; exact hk⟩

theorem discCount_name (its : List DItem) : countP (· == DiscAttr.name) (its.map DItem.toDiscAttr) = nNames its := by
  unfold countP nNames
  induction its with
  | nil => rfl
  | cons x xs ih => cases x <;> simp [DItem.toDiscAttr, DItem.name?, List.filter_cons, List.filterMap_cons, ih]

theorem discCount_vis (its : List DItem) : countP (· == DiscAttr.vis) (its.map DItem.toDiscAttr) = nVis its := by
  unfold countP nVis
  induction its with
  | nil => rfl
  | cons x xs ih => cases x <;> simp [DItem.toDiscAttr, DItem.vis?, List.filter_cons, List.filterMap_cons, ih]

/-- the item (C20's input) that a source as written erases to -/
def RawSource.toItem (s : RawSource) (dattrs : List (List DItem)) (lifetimes : Nat) (fieldDw : List (List Nat)) : RawItem :=
  { kind := .enum, lifetimes := lifetimes,
    enumAttrs := s.hdr.attrs.flatten.map EItem.toEnumAttr,
    discAttrs := dattrs.flatten.map DItem.toDiscAttr,
    varAttrs := s.variants.map (fun r => r.attrs.flatten.map VItem.toVarAttr),
    fieldDw := fieldDw, d := s.declared }

/-- **`typeErr` (C20: R4 enum level, R8) holds iff `get_type_properties`' two loops fail**: the `strum` loop (`collectEnum`)
    or the `strum_discriminants` loop (`collectDisc`) -/
theorem typeErr_iff_collect (s : RawSource) (dattrs : List (List DItem)) (lt : Nat) (fdw : List (List Nat)) :
    typeErr (s.toItem dattrs lt fdw) = true ↔
      ((∃ e, collectEnum s.hdr [] = .error e) ∨ (∃ k, collectDisc dattrs = .error k)) := by
  rw [collectEnum_error_iff, collectDisc_error_iff]
  unfold typeErr RawSource.toItem
  simp only [Bool.or_eq_true, decide_eq_true_eq]
  rw [badStyle_iff, dupKind_iff, discCount_name, discCount_vis]
  have hd : discCollectable dattrs.flatten = false ↔ (2 ≤ nNames dattrs.flatten ∨ 2 ≤ nVis dattrs.flatten) := by
    have := discCollectable_iff dattrs.flatten
    constructor
    · intro h
      have hn : ¬ (nNames dattrs.flatten ≤ 1 ∧ nVis dattrs.flatten ≤ 1) := by
        intro hc; rw [this.mpr hc] at h; cases h
      omega
    · intro h
      cases hc : discCollectable dattrs.flatten with
      | false => rfl
      | true => have := this.mp hc; omega
  rw [hd]
  constructor
  · rintro (((h | h) | h) | h)
    · exact .inl (.inl h)
    · exact .inl (.inr h)
    · exact .inr (.inl h)
    · exact .inr (.inr h)
  · rintro ((h | h) | (h | h))
    · exact .inl (.inl (.inl h))
    · exact .inl (.inl (.inr h))
    · exact .inl (.inr h)
    · exact .inr h

/-- **`anyVarAttrErr` (C20: R4 variant level) holds iff `get_variant_properties` fails on some written variant** -/
theorem anyVarAttrErr_iff_collect (s : RawSource) (dattrs : List (List DItem)) (lt : Nat) (fdw : List (List Nat)) :
    anyVarAttrErr (s.toItem dattrs lt fdw) = true ↔ ∃ r ∈ s.variants, ∃ k, collectVariant r = .error k := by
  unfold anyVarAttrErr RawSource.toItem
  simp only [List.any_map, List.any_eq_true, Function.comp_apply]
  constructor
  · rintro ⟨r, hr, h⟩; exact ⟨r, hr, (varAttrErr_iff_collect r).mp h⟩
  · rintro ⟨r, hr, h⟩; exact ⟨r, hr, (varAttrErr_iff_collect r).mpr h⟩

/-- **C20 on the source as written**: a derive that reads both the type and the variant properties rejects every source
    that `collectAll` rejects -/
theorem validate_rejects_uncollectable (dv : Derive) (s : RawSource) (dattrs : List (List DItem)) (lt : Nat)
    (fdw : List (List Nat)) (ht : dv.readsTypeProps = true) (hv : dv.readsVariantProps = true)
    (h : s.collectable = false) : validate dv (s.toItem dattrs lt fdw) = .reject := by
  have hcases : (∃ e, collectEnum s.hdr [] = .error e) ∨ ∃ r ∈ s.variants, ∃ k, collectVariant r = .error k := by
    by_cases he : ∃ e, collectEnum s.hdr [] = .error e
    · exact .inl he
    · right
      have hc : ¬ (s.hdr.attrs.flatten.all styleOk = true ∧ (ekindsOf s.hdr.attrs.flatten).Nodup ∧
          ∀ r ∈ s.variants, (kindsOf r.attrs.flatten).Nodup) := by
        intro hh; rw [(collectable_iff s).mpr hh] at h; cases h
      have hhdr : s.hdr.attrs.flatten.all styleOk = true ∧ (ekindsOf s.hdr.attrs.flatten).Nodup := by
        by_cases h1 : s.hdr.attrs.flatten.all styleOk = true
        · by_cases h2 : (ekindsOf s.hdr.attrs.flatten).Nodup
          · exact ⟨h1, h2⟩
          · exact absurd ((collectEnum_error_iff s.hdr []).mpr (.inr h2)) he
        · exact absurd ((collectEnum_error_iff s.hdr []).mpr (.inl (by simpa using h1))) he
      have : ¬ ∀ r ∈ s.variants, (kindsOf r.attrs.flatten).Nodup := fun hall => hc ⟨hhdr.1, hhdr.2, hall⟩
      simp only [Classical.not_forall] at this
      obtain ⟨r, hr, hn⟩ := this
      exact ⟨r, hr, (collectVariant_error_iff r).mpr hn⟩
  unfold validate
  have hk : ((s.toItem dattrs lt fdw).kind != ItemKind.enum) = false := by simp [RawSource.toItem]
  simp only [hk, Bool.false_eq_true, ↓reduceIte, ht, hv, Bool.true_and]
  rcases hcases with he | hr
  · have := (typeErr_iff_collect s dattrs lt fdw).mpr (.inl he)
    simp [this]
  · have := (anyVarAttrErr_iff_collect s dattrs lt fdw).mpr hr
    by_cases hte : typeErr (s.toItem dattrs lt fdw) = true
    · simp [hte]
    · simp [hte, this]

/-! ### non-vacuity -/

example : validate .display (({ hdr := { attrs := [[.ci, .pfx [112]], [.ci]] } } : RawSource).toItem [] 0 []) = .reject := by decide
example : (({ hdr := {}, variants := [{ ident := [65], attrs := [[.toStr [97], .serialize [98]], [.toStr [99]]] }] } : RawSource).collectable) = false := by
  decide
example : validate .enumMessage (({ hdr := {}, variants := [{ ident := [65], attrs := [[.toStr [97], .serialize [98]], [.toStr [99]]] }] } : RawSource).toItem [] 0 [])
    = .reject := validate_rejects_uncollectable _ _ _ _ _ rfl rfl (by decide)

end Strum

namespace Strum

/-! ### the two models of `EnumDiscriminants`' header agree -/

/-- the visibility class C09's value-level model (`genDiscriminants`) works with, read off the collected `vis(..)` item -/
def discVisOf (p : DiscProps) : DiscVis :=
  match p.vis with
  | none => .inherit
  | some v => if v == kwPub then .pub else .restricted

/-- **the header model (token level, `discHeader`) and the value-level model (`genDiscriminants`, StrumModel/Repr.lean) give the
    generated enum the same name and decide `IntoDiscriminant` alike**, whatever the source enum's own visibility, repr
    attributes, doc lines, derives and pass-through attributes are -/
theorem header_agrees_with_gen (d : EnumDef) (ev : Bytes) (reprs : List Bytes) (p : DiscProps) :
    (discHeader d.name ev reprs p).name = (genDiscriminants d p.name (discVisOf p)).name ∧
    (discHeader d.name ev reprs p).intoDisc = (genDiscriminants d p.name (discVisOf p)).hasIntoDiscriminant := by
  constructor
  · cases h : p.name <;> simp [discHeader, genDiscriminants, h, sufDiscriminants]
  · unfold discHeader genDiscriminants discVisOf
    cases h : p.vis with
    | none => rfl
    | some v => by_cases hv : (v == kwPub) = true <;> simp [hv]

end Strum
