import StrumModel.Collect
/-
Attribute collection (`get_variant_properties`): what the one-pass loop computes, when it fails, and that neither the
grouping of items into `#[strum(..)]` lists nor the order of independent items matters.
-/
namespace Strum

/-- the update an item performs, without the occurrence check -/
def applyItem (v : Variant) : VItem → Variant
  | .serialize s => { v with serialize := v.serialize ++ [s] }
  | .props ps => { v with props := v.props ++ ps }
  | .message s => { v with message := some s }
  | .detailed s => { v with detailed := some s }
  | .toStr s => { v with toStr := some s }
  | .transparent => { v with transparent := true }
  | .disabled => { v with disabled := true }
  | .default => { v with isDefault := true }
  | .defaultWith f => { v with defaultWith := some f }
  | .ci b => { v with ci := some b }

/-- does the occurrence check fire for this item, given the kinds already seen -/
def dupOf (seen : List VKind) (it : VItem) : Option VKind :=
  match it.kind? with
  | some k => if seen.contains k then some k else none
  | none => none

def seenAfter (seen : List VKind) (it : VItem) : List VKind :=
  match it.kind? with
  | some k => k :: seen
  | none => seen

theorem collectStep_eq (st : CollectState) (it : VItem) :
    collectStep st it = (match dupOf st.seen it with
      | some k => .error k
      | none => .ok { v := applyItem st.v it, seen := seenAfter st.seen it }) := by
  cases it <;> simp only [collectStep, dupOf, VItem.kind?, seenAfter, applyItem] <;> split <;> simp_all

/-- the kinds of the single-use items of a list, in order -/
def kindsOf (its : List VItem) : List VKind := its.filterMap VItem.kind?

/-- **success = a fold of the plain updates**: when the loop finishes, its result is the left fold of `applyItem` -/
theorem collectItems_ok (st st' : CollectState) (its : List VItem) (h : collectItems st its = .ok st') :
    st'.v = its.foldl applyItem st.v ∧ st'.seen = (kindsOf its).reverse ++ st.seen := by
  induction its generalizing st with
  | nil => simp only [collectItems, Except.ok.injEq] at h; subst h; simp [kindsOf]
  | cons it its ih =>
    simp only [collectItems, collectStep_eq] at h
    cases hd : dupOf st.seen it with
    | some k => simp [hd] at h
    | none =>
      simp only [hd] at h
      obtain ⟨h1, h2⟩ := ih _ h
      refine ⟨by simpa using h1, ?_⟩
      rw [h2]
      cases hk : it.kind? <;> simp [kindsOf, seenAfter, hk, List.filterMap_cons]

/-- **failure = a repeated single-use kind**: the loop fails iff some kind occurs twice among the items (or once more
    than already seen) -/
theorem collectItems_error_iff (st : CollectState) (its : List VItem) (hs : st.seen.Nodup) :
    (∃ k, collectItems st its = .error k) ↔ ¬ ((kindsOf its).reverse ++ st.seen).Nodup := by
  induction its generalizing st with
  | nil => simp [collectItems, kindsOf, hs]
  | cons it its ih =>
    simp only [collectItems, collectStep_eq]
    cases hk : it.kind? with
    | none =>
      have hd : dupOf st.seen it = none := by simp [dupOf, hk]
      simp only [hd]
      rw [ih _ (by simpa [seenAfter, hk] using hs)]
      simp [kindsOf, List.filterMap_cons, hk, seenAfter]
    | some k =>
      have hl : (kindsOf (it :: its)).reverse ++ st.seen = (kindsOf its).reverse ++ (k :: st.seen) := by
        simp [kindsOf, List.filterMap_cons, hk]
      rw [hl]
      by_cases hc : st.seen.contains k = true
      · have hd : dupOf st.seen it = some k := by simp only [dupOf, hk, hc, if_true]
        simp only [hd]
        have hm : k ∈ st.seen := List.contains_iff_mem.mp hc
        constructor
        · intro _ hn
          exact (List.nodup_cons.mp (List.nodup_append.mp hn).2.1).1 hm
        · intro _; exact ⟨k, rfl⟩
      · have hd : dupOf st.seen it = none := by simp only [dupOf, hk]; rw [if_neg hc]
        simp only [hd]
        have hnm : k ∉ st.seen := fun hm => hc (List.contains_iff_mem.mpr hm)
        rw [ih _ (by simpa [seenAfter, hk] using List.nodup_cons.mpr ⟨hnm, hs⟩)]
        simp [seenAfter, hk]

/-- either the loop fails or it succeeds (it never gets stuck) and the two cases exclude each other -/
theorem collectItems_total (st : CollectState) (its : List VItem) :
    (∃ k, collectItems st its = .error k) ∨ ∃ st', collectItems st its = .ok st' := by
  cases h : collectItems st its with
  | error k => exact .inl ⟨k, rfl⟩
  | ok st' => exact .inr ⟨st', rfl⟩

def baseVariant (r : RawVariant) : Variant := { ident := r.ident, fields := r.fields, discr := r.discr, docs := r.docs }

/-- **`get_variant_properties` fails iff a single-use kind is written twice** anywhere on the variant -/
theorem collectVariant_error_iff (r : RawVariant) :
    (∃ k, collectVariant r = .error k) ↔ ¬ (kindsOf r.attrs.flatten).Nodup := by
  have h := collectItems_error_iff { v := baseVariant r } r.attrs.flatten List.nodup_nil
  simp only [List.append_nil] at h
  rw [(List.reverse_perm _).nodup_iff] at h
  rw [← h]
  unfold collectVariant baseVariant
  constructor
  · rintro ⟨k, hk⟩
    split at hk
    · rename_i k' hk'; exact ⟨k', hk'⟩
    · simp at hk
  · rintro ⟨k, hk⟩
    exact ⟨k, by simp [hk]⟩

/-- **otherwise the result is the fold of the plain updates** over the items in source order -/
theorem collectVariant_ok (r : RawVariant) (h : (kindsOf r.attrs.flatten).Nodup) :
    collectVariant r = .ok (r.attrs.flatten.foldl applyItem (baseVariant r)) := by
  rcases collectItems_total { v := baseVariant r } r.attrs.flatten with ⟨k, hk⟩ | ⟨st', hs⟩
  · have := (collectItems_error_iff { v := baseVariant r } r.attrs.flatten List.nodup_nil).mp ⟨k, hk⟩
    simp only [List.append_nil] at this
    rw [(List.reverse_perm _).nodup_iff] at this
    exact absurd h this
  · have := (collectItems_ok _ _ _ hs).1
    unfold collectVariant
    simp only [baseVariant] at hs this ⊢
    rw [hs]
    simp [this]

/-- **grouping is irrelevant**: only the flattened item sequence matters, not how it is split into `#[strum(..)]` lists -/
theorem collect_regroup (r r' : RawVariant) (hi : r.ident = r'.ident) (hf : r.fields = r'.fields) (hd : r.discr = r'.discr)
    (hdoc : r.docs = r'.docs) (h : r.attrs.flatten = r'.attrs.flatten) : collectVariant r = collectVariant r' := by
  unfold collectVariant; rw [hi, hf, hd, hdoc, h]

/-! ### what the fold computes -/

theorem fold_serialize (its : List VItem) (v : Variant) :
    (its.foldl applyItem v).serialize = v.serialize ++ serializesOf its := by
  induction its generalizing v with
  | nil => simp [serializesOf]
  | cons it its ih =>
    simp only [List.foldl_cons, ih]
    cases it <;> simp [applyItem, serializesOf, List.filterMap_cons]

theorem fold_props (its : List VItem) (v : Variant) :
    (its.foldl applyItem v).props = v.props ++ propsOf its := by
  induction its generalizing v with
  | nil => simp [propsOf]
  | cons it its ih =>
    simp only [List.foldl_cons, ih]
    cases it <;> simp [applyItem, propsOf, List.filterMap_cons]

theorem fold_frame (its : List VItem) (v : Variant) :
    (its.foldl applyItem v).ident = v.ident ∧ (its.foldl applyItem v).fields = v.fields ∧
    (its.foldl applyItem v).discr = v.discr ∧ (its.foldl applyItem v).docs = v.docs := by
  induction its generalizing v with
  | nil => simp
  | cons it its ih =>
    simp only [List.foldl_cons]
    obtain ⟨a, b, c, d⟩ := ih (applyItem v it)
    rw [a, b, c, d]
    cases it <;> simp [applyItem]

theorem fold_disabled (its : List VItem) (v : Variant) :
    (its.foldl applyItem v).disabled = (v.disabled || its.contains .disabled) := by
  induction its generalizing v with
  | nil => simp
  | cons it its ih =>
    simp only [List.foldl_cons, ih]
    cases it <;> simp [applyItem, List.contains_cons]
    all_goals (try cases v.disabled <;> simp)

theorem fold_default (its : List VItem) (v : Variant) :
    (its.foldl applyItem v).isDefault = (v.isDefault || its.contains .default) := by
  induction its generalizing v with
  | nil => simp
  | cons it its ih =>
    simp only [List.foldl_cons, ih]
    cases it <;> simp [applyItem, List.contains_cons]
    all_goals (try cases v.isDefault <;> simp)

theorem fold_transparent (its : List VItem) (v : Variant) :
    (its.foldl applyItem v).transparent = (v.transparent || its.contains .transparent) := by
  induction its generalizing v with
  | nil => simp
  | cons it its ih =>
    simp only [List.foldl_cons, ih]
    cases it <;> simp [applyItem, List.contains_cons]
    all_goals (try cases v.transparent <;> simp)

/-- two items are independent unless both are `serialize`, both are `props`, or both have the same single-use kind -/
def independent (a b : VItem) : Bool :=
  match a, b with
  | .serialize _, .serialize _ => false
  | .props _, .props _ => false
  | _, _ => a.kind? != b.kind? || (a.kind? == none && b.kind? == none)

theorem applyItem_comm (v : Variant) (a b : VItem) (h : independent a b = true) :
    applyItem (applyItem v a) b = applyItem (applyItem v b) a := by
  cases a <;> cases b <;> simp_all [independent, applyItem, VItem.kind?]

/-- **order is irrelevant** for independent neighbours: swapping them anywhere in the item sequence changes nothing -/
theorem fold_swap (pre post : List VItem) (a b : VItem) (v : Variant) (h : independent a b = true) :
    (pre ++ a :: b :: post).foldl applyItem v = (pre ++ b :: a :: post).foldl applyItem v := by
  simp only [List.foldl_append, List.foldl_cons, applyItem_comm _ a b h]

theorem kindsOf_swap_nodup (pre post : List VItem) (a b : VItem) :
    (kindsOf (pre ++ a :: b :: post)).Nodup ↔ (kindsOf (pre ++ b :: a :: post)).Nodup := by
  have hp : (kindsOf (pre ++ a :: b :: post)).Perm (kindsOf (pre ++ b :: a :: post)) := by
    unfold kindsOf
    exact List.Perm.filterMap _ (List.Perm.append_left pre (List.Perm.swap b a post))
  exact hp.nodup_iff

/-- the same for the whole derive-facing function: the collected properties (or the failure) of a variant do not depend on
    the order of two independent neighbouring items -/
theorem collect_swap (r : RawVariant) (pre post : List VItem) (a b : VItem) (h : independent a b = true)
    (hr : r.attrs.flatten = pre ++ a :: b :: post) :
    (collectVariant r).toOption = (collectVariant { r with attrs := [pre ++ b :: a :: post] }).toOption := by
  by_cases hn : (kindsOf r.attrs.flatten).Nodup
  · have hn' : (kindsOf ({ r with attrs := [pre ++ b :: a :: post] } : RawVariant).attrs.flatten).Nodup := by
      simpa [hr] using (kindsOf_swap_nodup pre post a b).mp (by simpa [hr] using hn)
    rw [collectVariant_ok r hn, collectVariant_ok _ hn']
    simp only [hr, List.flatten_cons, List.flatten_nil, List.append_nil, baseVariant, fold_swap pre post a b _ h]
  · have hn' : ¬ (kindsOf ({ r with attrs := [pre ++ b :: a :: post] } : RawVariant).attrs.flatten).Nodup := by
      intro hc
      apply hn
      simpa [hr] using (kindsOf_swap_nodup pre post a b).mpr (by simpa using hc)
    obtain ⟨k, hk⟩ := (collectVariant_error_iff r).mpr hn
    obtain ⟨k', hk'⟩ := (collectVariant_error_iff _).mpr hn'
    rw [hk, hk']; rfl

/-- **what a derive sees**: for a variant without a repeated single-use item, collection succeeds and
    * `props` is the concatenation of ALL `props(..)` groups in source order, whatever sits between them,
    * `serialize` lists ALL `serialize = ".."` literals in source order,
    * the flags are set iff the item is written anywhere,
    * identifier, fields, discriminant and doc lines are carried over unchanged. -/
theorem collected_spec (r : RawVariant) (h : (kindsOf r.attrs.flatten).Nodup) :
    ∃ v, collectVariant r = .ok v ∧
      v.props = propsOf r.attrs.flatten ∧ v.serialize = serializesOf r.attrs.flatten ∧
      v.disabled = r.attrs.flatten.contains .disabled ∧ v.isDefault = r.attrs.flatten.contains .default ∧
      v.transparent = r.attrs.flatten.contains .transparent ∧
      v.ident = r.ident ∧ v.fields = r.fields ∧ v.discr = r.discr ∧ v.docs = r.docs := by
  refine ⟨_, collectVariant_ok r h, ?_, ?_, ?_, ?_, ?_, ?_⟩
  · simp [fold_props, baseVariant]
  · simp [fold_serialize, baseVariant]
  · simp [fold_disabled, baseVariant]
  · simp [fold_default, baseVariant]
  · simp [fold_transparent, baseVariant]
  · simpa [baseVariant] using fold_frame r.attrs.flatten (baseVariant r)

/-- `props` groups separated by other items, or written in one list with other items between them, merge all the same -/
theorem props_groups_merge (pre mid post : List VItem) (g1 g2 : List (Bytes × PropVal))
    (hm : propsOf mid = []) :
    propsOf (pre ++ VItem.props g1 :: mid ++ VItem.props g2 :: post) = propsOf pre ++ g1 ++ g2 ++ propsOf post := by
  simp only [propsOf, List.filterMap_append, List.filterMap_cons, List.flatten_append, List.flatten_cons] at hm ⊢
  simp [hm]

/-! ### full order-independence -/

def VItem.isSingle (it : VItem) : Bool := it.kind?.isSome

/-- the repeatable part of a list of items, added to a variant -/
def addRep (v : Variant) (its : List VItem) : Variant :=
  { v with serialize := v.serialize ++ serializesOf its, props := v.props ++ propsOf its }

theorem addRep_apply_single (v : Variant) (x : VItem) (rest : List VItem) (hx : x.isSingle = true) :
    addRep (applyItem v x) rest = applyItem (addRep v rest) x := by
  cases x <;> simp_all [VItem.isSingle, VItem.kind?, addRep, applyItem]

/-- the fold splits into the repeatable items (kept in order) and the single-use items -/
theorem fold_split (its : List VItem) (v : Variant) :
    its.foldl applyItem v = (its.filter VItem.isSingle).foldl applyItem (addRep v its) := by
  induction its generalizing v with
  | nil => simp [addRep, serializesOf, propsOf]
  | cons x rest ih =>
    by_cases hx : x.isSingle = true
    · simp only [List.foldl_cons, List.filter_cons, hx, ↓reduceIte]
      rw [ih, addRep_apply_single v x rest hx]
      have : addRep v (x :: rest) = addRep v rest := by
        cases x <;> simp_all [VItem.isSingle, VItem.kind?, addRep, serializesOf, propsOf, List.filterMap_cons]
      rw [this]
    · simp only [List.foldl_cons, List.filter_cons, hx, Bool.false_eq_true, ↓reduceIte]
      rw [ih]
      congr 1
      cases x <;> simp_all [VItem.isSingle, VItem.kind?, addRep, applyItem, serializesOf, propsOf, List.filterMap_cons, List.append_assoc]

theorem kind_inj_of_nodup : ∀ (l : List VItem), (kindsOf l).Nodup → ∀ x ∈ l, ∀ y ∈ l, x.kind? = y.kind? → x.kind?.isSome = true → x = y
  | [], _, _, hx, _, _, _, _ => by simp at hx
  | a :: l, hn, x, hx, y, hy, hk, hs => by
    cases ha : a.kind? with
    | none =>
      have hn' : (kindsOf l).Nodup := by simpa [kindsOf, List.filterMap_cons, ha] using hn
      have hxa : x ≠ a := by intro h; rw [h, ha] at hs; simp at hs
      have hya : y ≠ a := by intro h; rw [h, ha] at hk; rw [hk] at hs; simp at hs
      have hx' : x ∈ l := by simpa [hxa] using hx
      have hy' : y ∈ l := by simpa [hya] using hy
      exact kind_inj_of_nodup l hn' x hx' y hy' hk hs
    | some k =>
      have hn2 : (k :: kindsOf l).Nodup := by simpa [kindsOf, List.filterMap_cons, ha] using hn
      obtain ⟨hk_notin, hn'⟩ := List.nodup_cons.mp hn2
      have memk : ∀ z ∈ l, z.kind? = some k → False := by
        intro z hz hzk
        apply hk_notin
        simp only [kindsOf, List.mem_filterMap]
        exact ⟨z, hz, hzk⟩
      rcases List.mem_cons.mp hx with rfl | hx'
      · rcases List.mem_cons.mp hy with rfl | hy'
        · rfl
        · exact absurd (by rw [← hk, ha]) (memk y hy')
      · rcases List.mem_cons.mp hy with rfl | hy'
        · exact absurd (by rw [hk, ha]) (memk x hx')
        · exact kind_inj_of_nodup l hn' x hx' y hy' hk hs

theorem kindsOf_filter_single (its : List VItem) : kindsOf (its.filter VItem.isSingle) = kindsOf its := by
  induction its with
  | nil => rfl
  | cons x rest ih =>
    cases hk : x.kind? <;> simp [kindsOf, List.filter_cons, VItem.isSingle, hk, List.filterMap_cons] at ih ⊢ <;> exact ih

/-- **The order of the items is irrelevant**, except for the relative order of the `serialize` literals and of the
    `props` entries: two variants whose item sequences are permutations of each other with the same serialize and props
    subsequences collect to the same properties (or both fail). -/
theorem collect_perm (r r' : RawVariant) (hi : r.ident = r'.ident) (hf : r.fields = r'.fields) (hd : r.discr = r'.discr)
    (hdoc : r.docs = r'.docs) (hp : r.attrs.flatten.Perm r'.attrs.flatten)
    (hs : serializesOf r.attrs.flatten = serializesOf r'.attrs.flatten)
    (hpr : propsOf r.attrs.flatten = propsOf r'.attrs.flatten) :
    (collectVariant r).toOption = (collectVariant r').toOption := by
  have hkp : (kindsOf r.attrs.flatten).Perm (kindsOf r'.attrs.flatten) := List.Perm.filterMap _ hp
  by_cases hn : (kindsOf r.attrs.flatten).Nodup
  · have hn' : (kindsOf r'.attrs.flatten).Nodup := hkp.nodup_iff.mp hn
    rw [collectVariant_ok r hn, collectVariant_ok r' hn']
    simp only [Except.toOption]
    rw [fold_split r.attrs.flatten, fold_split r'.attrs.flatten]
    have hb : addRep (baseVariant r) r.attrs.flatten = addRep (baseVariant r') r'.attrs.flatten := by
      simp [addRep, baseVariant, hi, hf, hd, hdoc, hs, hpr]
    rw [hb]
    have hfp : (r.attrs.flatten.filter VItem.isSingle).Perm (r'.attrs.flatten.filter VItem.isSingle) := hp.filter _
    refine congrArg some (List.Perm.foldl_eq' hfp ?_ _)
    intro x hx y hy z
    by_cases hxy : x = y
    · rw [hxy]
    · have hxs : x.isSingle = true := (List.mem_filter.mp hx).2
      have hys : y.isSingle = true := (List.mem_filter.mp hy).2
      have hkn : x.kind? ≠ y.kind? := by
        intro hk
        exact hxy (kind_inj_of_nodup _ (by rw [kindsOf_filter_single]; exact hn) x hx y hy hk hxs)
      apply applyItem_comm
      cases x <;> cases y <;> simp_all [independent, VItem.kind?, VItem.isSingle]
  · have hn' : ¬ (kindsOf r'.attrs.flatten).Nodup := fun h => hn (hkp.nodup_iff.mpr h)
    obtain ⟨k, hk⟩ := (collectVariant_error_iff r).mpr hn
    obtain ⟨k', hk'⟩ := (collectVariant_error_iff r').mpr hn'
    rw [hk, hk']; rfl

/-! ### enum level -/

def ekindsOf (its : List EItem) : List EKind := its.map EItem.kind

theorem collectEStep_pos (st : ECollectState) (it : EItem) (hc : st.seen.contains it.kind = true) :
    collectEStep st it = .error (.dup it.kind) := by unfold collectEStep; rw [if_pos hc]

theorem collectEStep_neg (st : ECollectState) (it : EItem) (hc : ¬ st.seen.contains it.kind = true) :
    collectEStep st it = .ok { applyEItem st it with seen := it.kind :: st.seen } := by unfold collectEStep; rw [if_neg hc]

theorem foldl_applyEItem_seen : ∀ (l : List EItem) (a : ECollectState) (sn : List EKind),
    l.foldl applyEItem { a with seen := sn } = { l.foldl applyEItem a with seen := sn }
  | [], _, _ => rfl
  | x :: xs, a, sn => by
    have : applyEItem { a with seen := sn } x = { applyEItem a x with seen := sn } := by cases x <;> rfl
    simp only [List.foldl_cons]
    rw [this, foldl_applyEItem_seen xs]

theorem collectEItems_ok (st st' : ECollectState) (its : List EItem) (h : collectEItems st its = .ok st') :
    st' = { its.foldl applyEItem st with seen := (ekindsOf its).reverse ++ st.seen } := by
  induction its generalizing st with
  | nil => simp only [collectEItems, Except.ok.injEq] at h; subst h; simp [ekindsOf]
  | cons it its ih =>
    by_cases hc : st.seen.contains it.kind = true
    · simp only [collectEItems, collectEStep_pos st it hc] at h
      exact absurd h (by simp)
    · simp only [collectEItems, collectEStep_neg st it hc] at h
      rw [ih _ h, List.foldl_cons, foldl_applyEItem_seen]
      simp [ekindsOf]

theorem collectEItems_error_iff (st : ECollectState) (its : List EItem) (hs : st.seen.Nodup) :
    (∃ e, collectEItems st its = .error e) ↔ ¬ ((ekindsOf its).reverse ++ st.seen).Nodup := by
  induction its generalizing st with
  | nil => simp [collectEItems, ekindsOf, hs]
  | cons it its ih =>
    have hl : (ekindsOf (it :: its)).reverse ++ st.seen = (ekindsOf its).reverse ++ (it.kind :: st.seen) := by
      simp [ekindsOf]
    rw [hl]
    by_cases hc : st.seen.contains it.kind = true
    · simp only [collectEItems, collectEStep_pos st it hc]
      have hm : it.kind ∈ st.seen := List.contains_iff_mem.mp hc
      constructor
      · intro _ hn
        exact (List.nodup_cons.mp (List.nodup_append.mp hn).2.1).1 hm
      · intro _; exact ⟨_, rfl⟩
    · simp only [collectEItems, collectEStep_neg st it hc]
      have hnm : it.kind ∉ st.seen := fun hm => hc (List.contains_iff_mem.mpr hm)
      have hs' : ({ applyEItem st it with seen := it.kind :: st.seen } : ECollectState).seen.Nodup :=
        List.nodup_cons.mpr ⟨hnm, hs⟩
      rw [ih _ hs']

def baseEnum (r : RawEnum) (variants : List Variant) : ECollectState :=
  { d := { name := r.name, reprAttrs := r.reprAttrs, discName := r.discName, discVis := r.discVis, variants := variants } }

theorem collectEnum_eq (r : RawEnum) (vs : List Variant) :
    collectEnum r vs = (if r.attrs.flatten.all styleOk = true then
      (match collectEItems (baseEnum r vs) r.attrs.flatten with
       | .error e => .error e
       | .ok st => .ok { st.d with customErr := st.hasTy && st.hasFn })
      else .error .badStyle) := by
  unfold collectEnum baseEnum
  by_cases h : r.attrs.flatten.all styleOk = true
  · rw [if_pos h]; simp only [h, Bool.not_true, Bool.false_eq_true, ↓reduceIte]; rfl
  · rw [if_neg h]
    have : r.attrs.flatten.all styleOk = false := by simpa using h
    simp only [this, Bool.not_false, ↓reduceIte]

theorem collectEItems_nodup_iff (r : RawEnum) (vs : List Variant) :
    (∃ e, collectEItems (baseEnum r vs) r.attrs.flatten = .error e) ↔ ¬ (ekindsOf r.attrs.flatten).Nodup := by
  have h := collectEItems_error_iff (baseEnum r vs) r.attrs.flatten List.nodup_nil
  simp only [baseEnum, List.append_nil] at h
  rw [(List.reverse_perm _).nodup_iff] at h
  exact h

/-- **`get_type_properties` fails iff a style string is unknown or an item is written twice** (every enum-level item is
    single-use) -/
theorem collectEnum_error_iff (r : RawEnum) (vs : List Variant) :
    (∃ e, collectEnum r vs = .error e) ↔ (r.attrs.flatten.all styleOk = false ∨ ¬ (ekindsOf r.attrs.flatten).Nodup) := by
  rw [collectEnum_eq]
  by_cases hsty : r.attrs.flatten.all styleOk = true
  · rw [if_pos hsty, ← collectEItems_nodup_iff r vs]
    constructor
    · rintro ⟨e, he⟩
      right
      cases hc : collectEItems (baseEnum r vs) r.attrs.flatten with
      | error e' => exact ⟨e', rfl⟩
      | ok st => rw [hc] at he; simp at he
    · rintro (h | ⟨e, he⟩)
      · rw [hsty] at h; exact absurd h (by simp)
      · exact ⟨e, by rw [he]⟩
  · rw [if_neg hsty]
    have : r.attrs.flatten.all styleOk = false := by simpa using hsty
    exact ⟨fun _ => .inl this, fun _ => ⟨_, rfl⟩⟩

theorem applyEItem_comm (st : ECollectState) (a b : EItem) (h : a.kind ≠ b.kind) :
    applyEItem (applyEItem st a) b = applyEItem (applyEItem st b) a := by
  cases a <;> cases b <;> simp_all [EItem.kind, applyEItem]

theorem ekind_inj_of_nodup : ∀ (l : List EItem), (ekindsOf l).Nodup → ∀ x ∈ l, ∀ y ∈ l, x.kind = y.kind → x = y
  | [], _, _, hx, _, _, _ => by simp at hx
  | a :: l, hn, x, hx, y, hy, hk => by
    have hn0 : (a.kind :: ekindsOf l).Nodup := hn
    obtain ⟨hnot, hn'⟩ := List.nodup_cons.mp hn0
    have memk : ∀ z ∈ l, z.kind = a.kind → False := fun z hz hzk => hnot (List.mem_map.mpr ⟨z, hz, hzk⟩)
    rcases List.mem_cons.mp hx with rfl | hx'
    · rcases List.mem_cons.mp hy with rfl | hy'
      · rfl
      · exact absurd hk.symm (fun h => memk y hy' h)
    · rcases List.mem_cons.mp hy with rfl | hy'
      · exact absurd hk (fun h => memk x hx' h)
      · exact ekind_inj_of_nodup l hn' x hx' y hy' hk

/-- **On the enum every item is single-use, so neither the grouping into `#[strum(..)]` lists nor the ORDER of the items
    matters at all**: permuted item sequences collect to the same enum properties (or both fail). -/
theorem collectEnum_perm (r r' : RawEnum) (vs : List Variant) (hn : r.name = r'.name) (hr : r.reprAttrs = r'.reprAttrs)
    (hdn : r.discName = r'.discName) (hdv : r.discVis = r'.discVis) (hp : r.attrs.flatten.Perm r'.attrs.flatten) :
    (collectEnum r vs).toOption = (collectEnum r' vs).toOption := by
  have hsty : r.attrs.flatten.all styleOk = r'.attrs.flatten.all styleOk := by
    rw [Bool.eq_iff_iff]
    simp only [List.all_eq_true]
    exact ⟨fun h x hx => h x (hp.symm.subset hx), fun h x hx => h x (hp.subset hx)⟩
  have hkp : (ekindsOf r.attrs.flatten).Perm (ekindsOf r'.attrs.flatten) := hp.map _
  by_cases hok : r.attrs.flatten.all styleOk = true ∧ (ekindsOf r.attrs.flatten).Nodup
  · obtain ⟨h1, h2⟩ := hok
    have h1' : r'.attrs.flatten.all styleOk = true := hsty ▸ h1
    have h2' : (ekindsOf r'.attrs.flatten).Nodup := hkp.nodup_iff.mp h2
    have ok1 : ∃ st, collectEItems (baseEnum r vs) r.attrs.flatten = .ok st := by
      cases hc : collectEItems (baseEnum r vs) r.attrs.flatten with
      | ok st => exact ⟨st, rfl⟩
      | error e =>
        exact absurd h2 ((collectEItems_nodup_iff r vs).mp ⟨e, hc⟩)
    have ok2 : ∃ st, collectEItems (baseEnum r' vs) r'.attrs.flatten = .ok st := by
      cases hc : collectEItems (baseEnum r' vs) r'.attrs.flatten with
      | ok st => exact ⟨st, rfl⟩
      | error e =>
        exact absurd h2' ((collectEItems_nodup_iff r' vs).mp ⟨e, hc⟩)
    obtain ⟨st1, hs1⟩ := ok1
    obtain ⟨st2, hs2⟩ := ok2
    have e1 := collectEItems_ok _ _ _ hs1
    have e2 := collectEItems_ok _ _ _ hs2
    have hb : baseEnum r vs = baseEnum r' vs := by simp [baseEnum, hn, hr, hdn, hdv]
    have hfold : r.attrs.flatten.foldl applyEItem (baseEnum r vs) = r'.attrs.flatten.foldl applyEItem (baseEnum r' vs) := by
      rw [hb]
      apply List.Perm.foldl_eq' hp
      intro x hx y hy z
      by_cases hxy : x = y
      · rw [hxy]
      · exact applyEItem_comm z x y (fun hk => hxy (ekind_inj_of_nodup _ h2 x hx y hy hk))
    rw [collectEnum_eq, collectEnum_eq, if_pos h1, if_pos h1', hs1, hs2]
    simp only [Except.toOption]
    rw [e1, e2, hfold]
  · have hbad : r.attrs.flatten.all styleOk = false ∨ ¬ (ekindsOf r.attrs.flatten).Nodup := by
      by_cases h1 : r.attrs.flatten.all styleOk = true
      · right; intro h2; exact hok ⟨h1, h2⟩
      · left; simpa using h1
    have hbad' : r'.attrs.flatten.all styleOk = false ∨ ¬ (ekindsOf r'.attrs.flatten).Nodup := by
      rcases hbad with h | h
      · left; rw [← hsty]; exact h
      · right; intro h2; exact h (hkp.nodup_iff.mpr h2)
    obtain ⟨e, he⟩ := (collectEnum_error_iff r vs).mpr hbad
    obtain ⟨e', he'⟩ := (collectEnum_error_iff r' vs).mpr hbad'
    rw [he, he']; rfl

example : collectEnum { name := [69], attrs := [[.ci], [.pfx [112], .serializeAll "snake_case"], [.parseErrFn, .parseErrTy]] } []
    = .ok { name := [69], ci := true, pfx := some [112], style := some .snake, customErr := true } := by rfl
example : collectEnum { name := [69], attrs := [[.serializeAll "snake"]] } [] = .error .badStyle := by rfl
example : collectEnum { name := [69], attrs := [[.ci], [.usePhf, .ci]] } [] = .error (.dup .ci) := by rfl

/-! ### non-vacuity -/
example : collectVariant { ident := [65], attrs := [[.serialize [97], .disabled], [.props [([107], .int 1)]], [.message [109]], [.props [([108], .bool true)]]] }
    = .ok { ident := [65], serialize := [[97]], disabled := true, message := some [109], props := [([107], .int 1), ([108], .bool true)] } := by rfl
example : collectVariant { ident := [65], attrs := [[.disabled], [.message [109], .disabled]] } = .error .disabled := by rfl

end Strum
