import StrumModel.Collect
/-
Attribute collection (`get_variant_properties`): what the one-pass loop computes, when it fails, and that neither the
grouping of items into `#[strum(..)]` lists nor the order of independent items matters.
-/
namespace Strum

/-- the update an item performs, without the occurrence check -/
def applyItem (v : Variant) : VItem → Variant
  | .serialize s => { v with serialize := v.serialize ++ [s] }
  | .props ps => { v with props := v.props ++ ps }
  | .message s => { v with message := some s }
  | .detailed s => { v with detailed := some s }
  | .toStr s => { v with toStr := some s }
  | .transparent => { v with transparent := true }
  | .disabled => { v with disabled := true }
  | .default => { v with isDefault := true }
  | .defaultWith f => { v with defaultWith := some f }
  | .ci b => { v with ci := some b }

/-- does the occurrence check fire for this item, given the kinds already seen -/
def dupOf (seen : List VKind) (it : VItem) : Option VKind :=
  match it.kind? with
  | some k => if seen.contains k then some k else none
  | none => none

def seenAfter (seen : List VKind) (it : VItem) : List VKind :=
  match it.kind? with
  | some k => k :: seen
  | none => seen

theorem collectStep_eq (st : CollectState) (it : VItem) :
    collectStep st it = (match dupOf st.seen it with
      | some k => .error k
      | none => .ok { v := applyItem st.v it, seen := seenAfter st.seen it }) := by
  cases it <;> simp only [collectStep, dupOf, VItem.kind?, seenAfter, applyItem] <;> split <;> simp_all

/-- the kinds of the single-use items of a list, in order -/
def kindsOf (its : List VItem) : List VKind := its.filterMap VItem.kind?

/-- **success = a fold of the plain updates**: when the loop finishes, its result is the left fold of `applyItem` -/
theorem collectItems_ok (st st' : CollectState) (its : List VItem) (h : collectItems st its = .ok st') :
    st'.v = its.foldl applyItem st.v ∧ st'.seen = (kindsOf its).reverse ++ st.seen := by
  induction its generalizing st with
  | nil => simp only [collectItems, Except.ok.injEq] at h; subst h; simp [kindsOf]
  | cons it its ih =>
    simp only [collectItems, collectStep_eq] at h
    cases hd : dupOf st.seen it with
    | some k => simp [hd] at h
    | none =>
      simp only [hd] at h
      obtain ⟨h1, h2⟩ := ih _ h
      refine ⟨by simpa using h1, ?_⟩
      rw [h2]
      cases hk : it.kind? <;> simp [kindsOf, seenAfter, hk, List.filterMap_cons]

/-- **failure = a repeated single-use kind**: the loop fails iff some kind occurs twice among the items (or once more
    than already seen) -/
theorem collectItems_error_iff (st : CollectState) (its : List VItem) (hs : st.seen.Nodup) :
    (∃ k, collectItems st its = .error k) ↔ ¬ ((kindsOf its).reverse ++ st.seen).Nodup := by
  induction its generalizing st with
  | nil => simp [collectItems, kindsOf, hs]
  | cons it its ih =>
    simp only [collectItems, collectStep_eq]
    cases hk : it.kind? with
    | none =>
      have hd : dupOf st.seen it = none := by simp [dupOf, hk]
      simp only [hd]
      rw [ih _ (by simpa [seenAfter, hk] using hs)]
      simp [kindsOf, List.filterMap_cons, hk, seenAfter]
    | some k =>
      have hl : (kindsOf (it :: its)).reverse ++ st.seen = (kindsOf its).reverse ++ (k :: st.seen) := by
        simp [kindsOf, List.filterMap_cons, hk]
      rw [hl]
      by_cases hc : st.seen.contains k = true
      · have hd : dupOf st.seen it = some k := by simp only [dupOf, hk, hc, if_true]
        simp only [hd]
        have hm : k ∈ st.seen := List.contains_iff_mem.mp hc
        constructor
        · intro _ hn
          exact (List.nodup_cons.mp (List.nodup_append.mp hn).2.1).1 hm
        · intro _; exact ⟨k, rfl⟩
      · have hd : dupOf st.seen it = none := by simp only [dupOf, hk]; rw [if_neg hc]
        simp only [hd]
        have hnm : k ∉ st.seen := fun hm => hc (List.contains_iff_mem.mpr hm)
        rw [ih _ (by simpa [seenAfter, hk] using List.nodup_cons.mpr ⟨hnm, hs⟩)]
        simp [seenAfter, hk]

/-- either the loop fails or it succeeds (it never gets stuck) and the two cases exclude each other -/
theorem collectItems_total (st : CollectState) (its : List VItem) :
    (∃ k, collectItems st its = .error k) ∨ ∃ st', collectItems st its = .ok st' := by
  cases h : collectItems st its with
  | error k => exact .inl ⟨k, rfl⟩
  | ok st' => exact .inr ⟨st', rfl⟩

def baseVariant (r : RawVariant) : Variant := { ident := r.ident, fields := r.fields, discr := r.discr, docs := r.docs }

/-- **`get_variant_properties` fails iff a single-use kind is written twice** anywhere on the variant -/
theorem collectVariant_error_iff (r : RawVariant) :
    (∃ k, collectVariant r = .error k) ↔ ¬ (kindsOf r.attrs.flatten).Nodup := by
  have h := collectItems_error_iff { v := baseVariant r } r.attrs.flatten List.nodup_nil
  simp only [List.append_nil] at h
  rw [(List.reverse_perm _).nodup_iff] at h
  rw [← h]
  unfold collectVariant baseVariant
  constructor
  · rintro ⟨k, hk⟩
    split at hk
    · rename_i k' hk'; exact ⟨k', hk'⟩
    · simp at hk
  · rintro ⟨k, hk⟩
    exact ⟨k, by simp [hk]⟩

/-- **otherwise the result is the fold of the plain updates** over the items in source order -/
theorem collectVariant_ok (r : RawVariant) (h : (kindsOf r.attrs.flatten).Nodup) :
    collectVariant r = .ok (r.attrs.flatten.foldl applyItem (baseVariant r)) := by
  rcases collectItems_total { v := baseVariant r } r.attrs.flatten with ⟨k, hk⟩ | ⟨st', hs⟩
  · have := (collectItems_error_iff { v := baseVariant r } r.attrs.flatten List.nodup_nil).mp ⟨k, hk⟩
    simp only [List.append_nil] at this
    rw [(List.reverse_perm _).nodup_iff] at this
    exact absurd h this
  · have := (collectItems_ok _ _ _ hs).1
    unfold collectVariant
    simp only [baseVariant] at hs this ⊢
    rw [hs]
    simp [this]

/-- **grouping is irrelevant**: only the flattened item sequence matters, not how it is split into `#[strum(..)]` lists -/
theorem collect_regroup (r r' : RawVariant) (hi : r.ident = r'.ident) (hf : r.fields = r'.fields) (hd : r.discr = r'.discr)
    (hdoc : r.docs = r'.docs) (h : r.attrs.flatten = r'.attrs.flatten) : collectVariant r = collectVariant r' := by
  unfold collectVariant; rw [hi, hf, hd, hdoc, h]

/-! ### what the fold computes -/

theorem fold_serialize (its : List VItem) (v : Variant) :
    (its.foldl applyItem v).serialize = v.serialize ++ serializesOf its := by
  induction its generalizing v with
  | nil => simp [serializesOf]
  | cons it its ih =>
    simp only [List.foldl_cons, ih]
    cases it <;> simp [applyItem, serializesOf, List.filterMap_cons]

theorem fold_props (its : List VItem) (v : Variant) :
    (its.foldl applyItem v).props = v.props ++ propsOf its := by
  induction its generalizing v with
  | nil => simp [propsOf]
  | cons it its ih =>
    simp only [List.foldl_cons, ih]
    cases it <;> simp [applyItem, propsOf, List.filterMap_cons]

theorem fold_frame (its : List VItem) (v : Variant) :
    (its.foldl applyItem v).ident = v.ident ∧ (its.foldl applyItem v).fields = v.fields ∧
    (its.foldl applyItem v).discr = v.discr ∧ (its.foldl applyItem v).docs = v.docs := by
  induction its generalizing v with
  | nil => simp
  | cons it its ih =>
    simp only [List.foldl_cons]
    obtain ⟨a, b, c, d⟩ := ih (applyItem v it)
    rw [a, b, c, d]
    cases it <;> simp [applyItem]

theorem fold_disabled (its : List VItem) (v : Variant) :
    (its.foldl applyItem v).disabled = (v.disabled || its.contains .disabled) := by
  induction its generalizing v with
  | nil => simp
  | cons it its ih =>
    simp only [List.foldl_cons, ih]
    cases it <;> simp [applyItem, List.contains_cons]
    all_goals (try cases v.disabled <;> simp)

theorem fold_default (its : List VItem) (v : Variant) :
    (its.foldl applyItem v).isDefault = (v.isDefault || its.contains .default) := by
  induction its generalizing v with
  | nil => simp
  | cons it its ih =>
    simp only [List.foldl_cons, ih]
    cases it <;> simp [applyItem, List.contains_cons]
    all_goals (try cases v.isDefault <;> simp)

theorem fold_transparent (its : List VItem) (v : Variant) :
    (its.foldl applyItem v).transparent = (v.transparent || its.contains .transparent) := by
  induction its generalizing v with
  | nil => simp
  | cons it its ih =>
    simp only [List.foldl_cons, ih]
    cases it <;> simp [applyItem, List.contains_cons]
    all_goals (try cases v.transparent <;> simp)

/-- two items are independent unless both are `serialize`, both are `props`, or both have the same single-use kind -/
def independent (a b : VItem) : Bool :=
  match a, b with
  | .serialize _, .serialize _ => false
  | .props _, .props _ => false
  | _, _ => a.kind? != b.kind? || (a.kind? == none && b.kind? == none)

theorem applyItem_comm (v : Variant) (a b : VItem) (h : independent a b = true) :
    applyItem (applyItem v a) b = applyItem (applyItem v b) a := by
  cases a <;> cases b <;> simp_all [independent, applyItem, VItem.kind?]

/-- **order is irrelevant** for independent neighbours: swapping them anywhere in the item sequence changes nothing -/
theorem fold_swap (pre post : List VItem) (a b : VItem) (v : Variant) (h : independent a b = true) :
    (pre ++ a :: b :: post).foldl applyItem v = (pre ++ b :: a :: post).foldl applyItem v := by
  simp only [List.foldl_append, List.foldl_cons, applyItem_comm _ a b h]

theorem kindsOf_swap_nodup (pre post : List VItem) (a b : VItem) :
    (kindsOf (pre ++ a :: b :: post)).Nodup ↔ (kindsOf (pre ++ b :: a :: post)).Nodup := by
  have hp : (kindsOf (pre ++ a :: b :: post)).Perm (kindsOf (pre ++ b :: a :: post)) := by
    unfold kindsOf
    exact List.Perm.filterMap _ (List.Perm.append_left pre (List.Perm.swap b a post))
  exact hp.nodup_iff

/-- the same for the whole derive-facing function: the collected properties (or the failure) of a variant do not depend on
    the order of two independent neighbouring items -/
theorem collect_swap (r : RawVariant) (pre post : List VItem) (a b : VItem) (h : independent a b = true)
    (hr : r.attrs.flatten = pre ++ a :: b :: post) :
    (collectVariant r).toOption = (collectVariant { r with attrs := [pre ++ b :: a :: post] }).toOption := by
  by_cases hn : (kindsOf r.attrs.flatten).Nodup
  · have hn' : (kindsOf ({ r with attrs := [pre ++ b :: a :: post] } : RawVariant).attrs.flatten).Nodup := by
      simpa [hr] using (kindsOf_swap_nodup pre post a b).mp (by simpa [hr] using hn)
    rw [collectVariant_ok r hn, collectVariant_ok _ hn']
    simp only [hr, List.flatten_cons, List.flatten_nil, List.append_nil, baseVariant, fold_swap pre post a b _ h]
  · have hn' : ¬ (kindsOf ({ r with attrs := [pre ++ b :: a :: post] } : RawVariant).attrs.flatten).Nodup := by
      intro hc
      apply hn
      simpa [hr] using (kindsOf_swap_nodup pre post a b).mpr (by simpa using hc)
    obtain ⟨k, hk⟩ := (collectVariant_error_iff r).mpr hn
    obtain ⟨k', hk'⟩ := (collectVariant_error_iff _).mpr hn'
    rw [hk, hk']; rfl

/-- **what a derive sees**: for a variant without a repeated single-use item, collection succeeds and
    * `props` is the concatenation of ALL `props(..)` groups in source order, whatever sits between them,
    * `serialize` lists ALL `serialize = ".."` literals in source order,
    * the flags are set iff the item is written anywhere,
    * identifier, fields, discriminant and doc lines are carried over unchanged. -/
theorem collected_spec (r : RawVariant) (h : (kindsOf r.attrs.flatten).Nodup) :
    ∃ v, collectVariant r = .ok v ∧
      v.props = propsOf r.attrs.flatten ∧ v.serialize = serializesOf r.attrs.flatten ∧
      v.disabled = r.attrs.flatten.contains .disabled ∧ v.isDefault = r.attrs.flatten.contains .default ∧
      v.transparent = r.attrs.flatten.contains .transparent ∧
      v.ident = r.ident ∧ v.fields = r.fields ∧ v.discr = r.discr ∧ v.docs = r.docs := by
  refine ⟨_, collectVariant_ok r h, ?_, ?_, ?_, ?_, ?_, ?_⟩
  · simp [fold_props, baseVariant]
  · simp [fold_serialize, baseVariant]
  · simp [fold_disabled, baseVariant]
  · simp [fold_default, baseVariant]
  · simp [fold_transparent, baseVariant]
  · simpa [baseVariant] using fold_frame r.attrs.flatten (baseVariant r)

/-- `props` groups separated by other items, or written in one list with other items between them, merge all the same -/
theorem props_groups_merge (pre mid post : List VItem) (g1 g2 : List (Bytes × PropVal))
    (hm : propsOf mid = []) :
    propsOf (pre ++ VItem.props g1 :: mid ++ VItem.props g2 :: post) = propsOf pre ++ g1 ++ g2 ++ propsOf post := by
  simp only [propsOf, List.filterMap_append, List.filterMap_cons, List.flatten_append, List.flatten_cons] at hm ⊢
  simp [hm]

/-! ### non-vacuity -/
example : collectVariant { ident := [65], attrs := [[.serialize [97], .disabled], [.props [([107], .int 1)]], [.message [109]], [.props [([108], .bool true)]]] }
    = .ok { ident := [65], serialize := [[97]], disabled := true, message := some [109], props := [([107], .int 1), ([108], .bool true)] } := by rfl
example : collectVariant { ident := [65], attrs := [[.disabled], [.message [109], .disabled]] } = .error .disabled := by rfl

end Strum
