import StrumProofs.C04
import StrumProofs.C03
/-
C08 — COUNT, VariantNames, VariantArray and EnumIter describe the same variant list.
-/
namespace Strum

/-- `COUNT` = number of enabled variants = number of iterated items -/
theorem count_eq (d : EnumDef) (hN : 2 * (iterTable d).length + 1 < W) :
    enumCount d = (d.variants.filter (fun v => !v.disabled)).length ∧
    enumCount d = (collectFuel (iterTable d).length ((iterTable d).length + 2) iterInit).length :=
  ⟨enumCount_eq d, (iter_count d hN).symm⟩

/-- `VariantNames::VARIANTS` has one entry per declared variant -/
theorem names_len (d : EnumDef) : (variantNames d).length = d.variants.length := variant_names_length d

/-- `VariantArray::VARIANTS` (field-less enums) has one entry per declared variant, in order -/
theorem array_spec (d : EnumDef) (l : List Bytes) (h : variantArray d = some l) :
    l = d.variants.map (·.ident) ∧ l.length = d.variants.length ∧ ∀ v ∈ d.variants, v.fields = .unit := by
  unfold variantArray at h
  split at h
  · next hall =>
    cases h
    refine ⟨rfl, by simp, ?_⟩
    intro v hv
    have := List.all_eq_true.1 hall v hv
    simpa using this
  · cases h

/-- a data-carrying variant makes the derive fail (shared with C20) -/
theorem array_rejects_data (d : EnumDef) (v : Variant) (hv : v ∈ d.variants) (hf : v.fields ≠ .unit) :
    variantArray d = none := by
  unfold variantArray
  split
  · next hall =>
    have := List.all_eq_true.1 hall v hv
    simp at this; exact absurd this hf
  · rfl

/-- **Alignment.**  With no disabled variant, position `i` refers to the same variant in all four:
    the i-th iterated item, `VariantArray::VARIANTS[i]` and `VariantNames::VARIANTS[i]`. -/
theorem aligned (d : EnumDef) (hnd : ∀ v ∈ d.variants, v.disabled = false)
    (hN : 2 * (iterTable d).length + 1 < W) (l : List Bytes) (ha : variantArray d = some l) :
    enumCount d = d.variants.length ∧ l.length = d.variants.length ∧
    (variantNames d).length = d.variants.length ∧
    (collectFuel (iterTable d).length ((iterTable d).length + 2) iterInit).length = d.variants.length ∧
    ∀ i (hi : i < d.variants.length),
      l[i]? = some d.variants[i].ident ∧
      ((iterTable d)[i]?).map (·.1) = some d.variants[i].ident ∧
      (collectFuel (iterTable d).length ((iterTable d).length + 2) iterInit)[i]? = some i ∧
      (variantNames d)[i]? = some (canonical d d.variants[i]) := by
  have hen : d.enabled = d.variants := by
    unfold EnumDef.enabled
    rw [List.filter_eq_self]
    intro v hv; simp [hnd v hv]
  have hlen : (iterTable d).length = d.variants.length := by simp [iterTable, hen]
  obtain ⟨hl, hll, _⟩ := array_spec d l ha
  refine ⟨by rw [enumCount_eq, hen], hll, names_len d, by rw [iter_collect _ hN]; simp [hlen], ?_⟩
  intro i hi
  refine ⟨by rw [hl]; simp [hi], by simp [iterTable, hen, hi], ?_, ?_⟩
  · rw [iter_collect _ hN, hlen]; simp [hi]
  · simp [variantNames, hi, preferredName_eq_canonical]

/-! non-vacuity -/
example : variantArray { variants := [{ ident := [65] }, { ident := [66] }] } = some [[65], [66]] := by decide

/-- **C08 at source level**: COUNT is the number of variants written without a `disabled` item -/
theorem source_count (s : RawSource) :
    enumCount s.declared = (s.variants.filter (fun r => !r.isDisabled)).length := by
  rw [enumCount_eq, source_enabled, List.length_map]

end Strum
