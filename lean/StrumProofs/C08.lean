import StrumModel
namespace Strum
theorem c08_placeholder : True := trivial
end Strum
