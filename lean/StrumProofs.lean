import StrumModel
