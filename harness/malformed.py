"""Malformed / out-of-domain items for C20: abstract item -> Rust source text and -> model lines."""
import copy
from .spec import ESpec, VSpec, hx, rust_str
from .strcorpus import ALL_STYLE_STRINGS

DERIVES = ['EnumString', 'Display', 'AsRefStr', 'IntoStaticStr', 'AsStaticStr', 'ToString', 'VariantNames', 'VariantArray',
           'EnumIter', 'EnumCount', 'FromRepr', 'EnumIs', 'EnumTryAs', 'EnumTable', 'EnumMessage', 'EnumProperty',
           'EnumDiscriminants']
READS_TYPE = [d for d in DERIVES if d not in ('FromRepr', 'EnumIs', 'EnumTryAs', 'EnumTable')]
READS_VARIANT = [d for d in DERIVES if d not in ('VariantArray', 'EnumDiscriminants')]
UNIT_ONLY = ('VariantArray', 'EnumTable')

ENUM_KIND_CODE = {'serialize_all': None, 'ascii_case_insensitive': 'ci', 'crate': 'crate', 'use_phf': 'phf', 'prefix': 'pfx',
                  'parse_err_ty': 'pty', 'parse_err_fn': 'pfn', 'const_into_str': 'cis'}
VAR_KIND_CODE = {'message': 'msg', 'detailed_message': 'det', 'serialize': 'ser', 'to_string': 'ts', 'transparent': 'tr',
                 'disabled': 'dis', 'default': 'def', 'default_with': 'dw', 'ascii_case_insensitive': 'ci'}
LIT_CODE = {'s': 's', 'i': 'i', 'b': 'b', 'f': 'f', 'c': 'c', 'y': 'y', 'Y': 'Y'}


def item_text(it):
    k = it[0]
    if k in ('transparent', 'disabled', 'default', 'use_phf', 'const_into_str'):
        return k
    if k == 'ascii_case_insensitive':
        v = it[1] if len(it) > 1 else None
        return k if v is None else '%s = %s' % (k, 'true' if v else 'false')
    if k in ('parse_err_ty', 'parse_err_fn'):
        return '%s = %s' % (k, it[1])
    if k == 'props':
        return 'props(%s)' % ', '.join('%s = %s' % (key, text) for key, kind, text in it[1])
    if k in ('name', 'vis'):
        return '%s(%s)' % (k, it[1])
    if k == 'derive':
        return 'derive(%s)' % it[1]
    return '%s = %s' % (k, rust_str(it[1]))


def attr_lines(groups, name='strum', indent=''):
    return ['%s#[%s(%s)]' % (indent, name, ', '.join(item_text(i) for i in g)) for g in groups if g]


def render_source(item, derive=None):
    """the item as Rust source (without the #[derive] line: mode A parses it as a DeriveInput directly)"""
    out = []
    out += attr_lines(item.get('eattrs', []))
    out += attr_lines(item.get('dattrs', []), 'strum_discriminants')
    lt = ', '.join("'l%d" % i for i in range(item.get('lifetimes', 0)))
    gen = '<%s>' % lt if lt else ''
    if item['kind'] == 'struct':
        out.append('pub struct %s%s { a: u8, b: &%s str }' % (item['name'], gen, "'l0" if lt else "'static"))
        return '\n'.join(out)
    if item['kind'] == 'union':
        out.append('pub union %s%s { a: u8, b: u32 }' % (item['name'], gen))
        return '\n'.join(out)
    out.append('pub enum %s%s {' % (item['name'], gen))
    used_lt = False
    for v in item['variants']:
        out += attr_lines(v.get('attrs', []), indent='    ')
        if v['kind'] == 'unit':
            body = v['ident']
        elif v['kind'] == 'tuple':
            fs = []
            for i, t in enumerate(v['ftypes']):
                fa = ' '.join(attr_lines(v.get('fattrs', [[]] * len(v['ftypes']))[i]))
                fs.append((fa + ' ' if fa else '') + t)
            body = '%s(%s)' % (v['ident'], ', '.join(fs))
        else:
            fs = []
            for i, (n, t) in enumerate(zip(v['fnames'], v['ftypes'])):
                fa = ' '.join(attr_lines(v.get('fattrs', [[]] * len(v['ftypes']))[i]))
                fs.append((fa + ' ' if fa else '') + '%s: %s' % (n, t))
            body = '%s { %s }' % (v['ident'], ', '.join(fs))
        out.append('    %s,' % body)
    if lt:
        out.append("    %sLtCarrier(&'l0 str)," % ('#[strum(disabled)] ' if item.get('lt_carrier_disabled') else ''))
    out.append('}')
    return '\n'.join(out)


def flat(groups):
    return [i for g in groups for i in g]


def resolve(item):
    """(ESpec of the resolved definition, raw model lines)"""
    e = ESpec(id=item['id'], name=item['name'])
    ea = flat(item.get('eattrs', []))
    codes = []
    for it in ea:
        k = it[0]
        if k == 'serialize_all':
            ok = it[1] in ALL_STYLE_STRINGS
            codes.append('sa1' if ok else 'sa0')
            if ok:
                e.style = it[1]
        else:
            codes.append(ENUM_KIND_CODE[k])
            if k == 'ascii_case_insensitive':
                e.ci = True
            elif k == 'prefix':
                e.prefix = it[1]
            elif k == 'use_phf':
                e.phf = True
            elif k == 'const_into_str':
                e.cis = True
    has_ty = any(i[0] == 'parse_err_ty' for i in ea)
    has_fn = any(i[0] == 'parse_err_fn' for i in ea)
    e.err = has_ty and has_fn
    da = flat(item.get('dattrs', []))
    dcodes = [i[0] if i[0] in ('derive', 'name', 'vis', 'doc') else 'other' for i in da]
    raw = ['raw %s kind=%s lt=%d eattrs=%s dattrs=%s' % (item['id'], item['kind'], item.get('lifetimes', 0),
                                                         ','.join(codes) or '-', ','.join(dcodes) or '-')]
    for v in item.get('variants', []):
        vs = VSpec(ident=v['ident'], kind=v['kind'], ftypes=['u8'] * len(v.get('ftypes', [])),
                   fnames=list(v.get('fnames', [])), fdw=[None] * len(v.get('ftypes', [])))
        vcodes = []
        for it in flat(v.get('attrs', [])):
            k = it[0]
            if k == 'props':
                vcodes.append('props:' + '.'.join(LIT_CODE[kind] for _, kind, _ in it[1]))
                for key, kind, text in it[1]:
                    if kind == 's':
                        vs.props.append((key, 's', text[1:-1]))
                    elif kind == 'i':
                        vs.props.append((key, 'i', int(text)))
                    elif kind == 'b':
                        vs.props.append((key, 'b', text == 'true'))
                continue
            vcodes.append(VAR_KIND_CODE[k])
            if k == 'serialize':
                vs.ser.append(it[1])
            elif k == 'to_string':
                vs.ts = it[1]
            elif k == 'message':
                vs.msg = it[1]
            elif k == 'detailed_message':
                vs.det = it[1]
            elif k == 'transparent':
                vs.tr = True
            elif k == 'disabled':
                vs.dis = True
            elif k == 'default':
                vs.default = True
            elif k == 'default_with':
                vs.dw = it[1]
            elif k == 'ascii_case_insensitive':
                vs.ci = True if len(it) < 2 or it[1] is None else it[1]
        fdw = []
        for i, fg in enumerate(v.get('fattrs', [[]] * len(v.get('ftypes', [])))):
            n = sum(1 for it in flat(fg) if it[0] == 'default_with')
            fdw.append(n)
            if n and v['kind'] == 'named':
                vs.fdw[i] = [it[1] for it in flat(fg) if it[0] == 'default_with'][-1]
        e.variants.append(vs)
        raw.append('rawv %s attrs=%s fdw=%s' % (item['id'], ','.join(vcodes) or '-', '.'.join(map(str, fdw)) or '-'))
    if item.get('lifetimes', 0) and item['kind'] == 'enum':
        e.variants.append(VSpec(ident='LtCarrier', kind='tuple', ftypes=['u8'], dis=bool(item.get('lt_carrier_disabled'))))
        raw.append('rawv %s attrs=%s fdw=0' % (item['id'], 'dis' if item.get('lt_carrier_disabled') else '-'))
    return e, raw


# ---------------------------------------------------------------------------------------------------
def unit(ident, *groups):
    return {'ident': ident, 'kind': 'unit', 'attrs': [list(g) for g in groups]}


def tup(ident, types, *groups, fattrs=None):
    return {'ident': ident, 'kind': 'tuple', 'ftypes': list(types), 'attrs': [list(g) for g in groups],
            'fattrs': fattrs or [[] for _ in types]}


def named(ident, fields, *groups, fattrs=None):
    return {'ident': ident, 'kind': 'named', 'ftypes': [t for _, t in fields], 'fnames': [n for n, _ in fields],
            'attrs': [list(g) for g in groups], 'fattrs': fattrs or [[] for _ in fields]}


def base_variants(derive):
    if derive in UNIT_ONLY:
        return [unit('Alpha'), unit('Beta', [('serialize', 'b')]), unit('Gamma'), unit('Delta', [('disabled',)])]
    return [unit('Alpha'), tup('Beta', ['u8'], [('serialize', 'b')]), named('Gamma', [('x', 'u8'), ('y', 'String')]),
            unit('Delta', [('disabled',)]), tup('Eps', ['String', 'u8'])]


class Cases:
    def __init__(self):
        self.items = []
        self.n = 0

    def add(self, derive, item, rule, must):
        """must: 'reject' (a rule instance: the property demands a compile error), 'accept' (in-domain control), None"""
        item = copy.deepcopy(item)
        item['id'] = 'm%d' % self.n
        item['name'] = 'Mf%d' % self.n
        self.n += 1
        self.items.append({'derive': derive, 'item': item, 'rule': rule, 'must': must})

    def enum(self, derive, variants, eattrs=(), dattrs=(), lifetimes=0):
        return {'kind': 'enum', 'lifetimes': lifetimes, 'eattrs': [list(g) for g in eattrs], 'dattrs': [list(g) for g in dattrs],
                'variants': variants}


def insert_at(base, v, pos):
    vs = copy.deepcopy(base)
    p = {'first': 0, 'middle': len(vs) // 2, 'last': len(vs)}[pos]
    vs.insert(p, v)
    return vs


def generate(tier):
    cs = Cases()
    positions = ['first', 'middle', 'last']
    for d in DERIVES:
        base = base_variants(d)
        # controls: the base enum is in every derive's domain; repeatable attributes may repeat
        cs.add(d, cs.enum(d, base), 'control-valid', 'accept')
        cs.add(d, cs.enum(d, insert_at(base, unit('Rep', [('serialize', 'r1'), ('serialize', 'r2')], [('serialize', 'r3')]), 'middle')), 'control-repeatable', 'accept')
        cs.add(d, cs.enum(d, insert_at(base, unit('Rp', [('props', [('k', 's', '"v"')])], [('props', [('k2', 'i', '3')])]), 'last')), 'control-repeatable', 'accept')
        # R1 struct / union
        cs.add(d, {'kind': 'struct', 'lifetimes': 0}, 'R1-struct', 'reject')
        cs.add(d, {'kind': 'union', 'lifetimes': 0}, 'R1-union', 'reject')
        cs.add(d, {'kind': 'struct', 'lifetimes': 1}, 'R1-struct', 'reject')
        # R3 lifetimes
        if d in ('EnumIter', 'FromRepr', 'EnumTable'):
            cs.add(d, cs.enum(d, [unit('Alpha'), unit('Beta')], lifetimes=1), 'R3-lifetime', 'reject')
            cs.add(d, cs.enum(d, [unit('Alpha'), unit('Beta')], lifetimes=2), 'R3-lifetime', 'reject')
            it = cs.enum(d, [unit('Alpha'), unit('Beta')], lifetimes=1)
            it['lt_carrier_disabled'] = True   # the only data-carrying variant is disabled: still a lifetime parameter
            cs.add(d, it, 'R3-lifetime-disabled-carrier', 'reject' if d != 'EnumTable' else None)
        elif d not in UNIT_ONLY:
            cs.add(d, cs.enum(d, [unit('Alpha'), unit('Beta')], lifetimes=1), 'control-lifetime', None)
        # R2 data-carrying variants
        if d in UNIT_ONLY:
            for pos in positions:
                cs.add(d, cs.enum(d, insert_at(base, tup('Data', ['u8']), pos)), 'R2-data-variant', 'reject')
                cs.add(d, cs.enum(d, insert_at(base, named('Data', [('x', 'u8')]), pos)), 'R2-data-variant', 'reject')
                cs.add(d, cs.enum(d, insert_at(base, tup('Data', []), pos)), 'R2-empty-tuple', None)
            if d == 'EnumTable':
                # the macro skips disabled variants before its unit-only test, but the `E::Data => panic!(..)` arm it emits for
                # Index is not a valid pattern for a tuple variant: rustc rejects the item (E0532).  Macro-level accept, so the
                # item is kept for mode A only (observed quirk; the enum is not field-less, hence outside C10 as well).
                cs.add(d, cs.enum(d, insert_at(base, tup('Data', ['u8'], [('disabled',)]), 'middle')), 'R2-disabled-data-variant-modeA-only', None)
                cs.items[-1]['rustc_rejects'] = True
                cs.add(d, cs.enum(d, insert_at(base, named('Data', [('x', 'u8')], [('disabled',)]), 'last')), 'R2-disabled-data-variant-modeA-only', None)
                cs.items[-1]['rustc_rejects'] = True
                cs.add(d, cs.enum(d, [unit('OnlyOff', [('disabled',)])]), 'R2-no-enabled-variant', None)
        # R4 repeated single-use attributes, enum level
        for kind, val in (('serialize_all', 'snake_case'), ('ascii_case_insensitive', None), ('use_phf', None), ('prefix', 'p'),
                          ('crate', 'strum'), ('parse_err_ty', 'PErr'), ('parse_err_fn', 'perr'), ('const_into_str', None)):
            it = (kind,) if val is None else (kind, val)
            applies = d in READS_TYPE
            must = 'reject' if applies else None
            # 'apart': another item stands between the two occurrences (a check that only compares neighbours misses it)
            between = ('prefix', 'q') if kind != 'prefix' else ('serialize_all', 'snake_case')
            for layout in ('within', 'across', 'within-apart', 'across-apart', 'first-and-last'):
                ea = {'within': [[it, it]], 'across': [[it], [it]], 'within-apart': [[it, between, it]],
                      'across-apart': [[it], [between], [it]],
                      'first-and-last': [[it, between], [('ascii_case_insensitive',) if kind != 'ascii_case_insensitive' else ('use_phf',), it]]}[layout]
                if kind in ('parse_err_ty', 'parse_err_fn'):
                    other = ('parse_err_fn', 'perr') if kind == 'parse_err_ty' else ('parse_err_ty', 'PErr')
                    ea = ea + [[other]]
                cs.add(d, cs.enum(d, base, eattrs=ea), 'R4-enum-%s-%s' % (kind, layout), must)
        for kind, val in (('name', 'Nm'), ('vis', 'pub')):
            applies = d in READS_TYPE
            cs.add(d, cs.enum(d, base, dattrs=[[(kind, val), (kind, val)]]), 'R4-disc-%s-within' % kind, 'reject' if (applies and d == 'EnumDiscriminants') else None)
            cs.add(d, cs.enum(d, base, dattrs=[[(kind, val)], [(kind, val)]]), 'R4-disc-%s-across' % kind, 'reject' if (applies and d == 'EnumDiscriminants') else None)
            cs.add(d, cs.enum(d, base, dattrs=[[(kind, val), ('derive', 'Hash'), (kind, val)]]), 'R4-disc-%s-within-apart' % kind, 'reject' if (applies and d == 'EnumDiscriminants') else None)
            cs.add(d, cs.enum(d, base, dattrs=[[(kind, val)], [('derive', 'Hash')], [('doc', 'd')], [(kind, val)]]), 'R4-disc-%s-across-apart' % kind, 'reject' if (applies and d == 'EnumDiscriminants') else None)
        # R4 variant level
        for kind, val in (('message', 'm'), ('detailed_message', 'dm'), ('to_string', 't'), ('transparent', None), ('disabled', None),
                          ('default', None), ('default_with', 'f'), ('ascii_case_insensitive', None)):
            it = (kind,) if val is None else (kind, val)
            applies = d in READS_VARIANT
            sep = ('serialize', 'zz')
            for layout in ('within', 'across', 'within-apart', 'across-apart'):
                groups = {'within': [[it, it]], 'across': [[it], [it]], 'within-apart': [[it, sep, it]], 'across-apart': [[it], [sep], [it]]}[layout]
                for pos in (positions if tier == 'thorough' or kind in ('disabled', 'to_string') else ['middle']):
                    for vk in (('unit',) if d in UNIT_ONLY else ('unit', 'tuple1')):
                        v = unit('Bad', *groups) if vk == 'unit' else tup('Bad', ['String'], *groups)
                        cs.add(d, cs.enum(d, insert_at(base, v, pos)), 'R4-variant-%s-%s' % (kind, layout), 'reject' if applies else None)
            # mixed: same kind with different syntax (ascii_case_insensitive and ascii_case_insensitive = false)
        cs.add(d, cs.enum(d, insert_at(base, unit('Bad', [('ascii_case_insensitive', None), ('ascii_case_insensitive', False)]), 'middle')),
               'R4-variant-ci-mixed-syntax', 'reject' if d in READS_VARIANT else None)
        # repeated attribute on a disabled variant is still an error
        cs.add(d, cs.enum(d, insert_at(base, unit('Bad', [('disabled',), ('message', 'a'), ('message', 'b')]), 'last')),
               'R4-variant-on-disabled', 'reject' if d in READS_VARIANT else None)
        # R8 unknown style
        for style in ('snake', 'Snake_Case', 'camelcase', '', 'SCREAMING_KEBAB_CASE'):
            cs.add(d, cs.enum(d, base, eattrs=[[('serialize_all', style)]]), 'R8-unknown-style', 'reject' if d in READS_TYPE else None)
        for style in ALL_STYLE_STRINGS[:4]:
            cs.add(d, cs.enum(d, base, eattrs=[[('serialize_all', style)]]), 'control-style', 'accept')
    # R4 field level (EnumString, named fields of candidate variants)
    dw = ('default_with', 'mk')
    for pos in positions:
        cs.add('EnumString', cs.enum('EnumString', insert_at(base_variants('EnumString'), named('Bad', [('x', 'u8'), ('y', 'u8')], fattrs=[[[dw, dw]], []]), pos)), 'R4-field-default_with-within', 'reject')
        cs.add('EnumString', cs.enum('EnumString', insert_at(base_variants('EnumString'), named('Bad', [('x', 'u8'), ('y', 'u8')], fattrs=[[], [[dw], [dw]]]), pos)), 'R4-field-default_with-across', 'reject')
    cs.add('EnumString', cs.enum('EnumString', insert_at(base_variants('EnumString'), named('Ok', [('x', 'u8')], fattrs=[[[dw]]]), 'middle')), 'control-field-default_with', 'accept')
    # R5 two defaults
    for p1, p2 in (('first', 'last'), ('middle', 'last'), ('first', 'middle')):
        vs = insert_at(insert_at(base_variants('EnumString'), tup('D1', ['String'], [('default',)]), p1), named('D2', [('s', 'String')], [('default',)]), p2)
        cs.add('EnumString', cs.enum('EnumString', vs), 'R5-two-defaults', 'reject')
    for p1, p2 in (('first', 'last'), ('middle', 'last'), ('first', 'middle')):
        vs = insert_at(insert_at(base_variants('EnumString'), named('D1', [('s', 'String')], [('default',)]), p1), tup('D2', ['String'], [('default',)]), p2)
        cs.add('EnumString', cs.enum('EnumString', vs), 'R5-two-defaults-named-first', 'reject')
        vs = insert_at(insert_at(base_variants('EnumString'), named('D1', [('s', 'String')], [('default',)]), p1), named('D2', [('t', 'String')], [('default',)]), p2)
        cs.add('EnumString', cs.enum('EnumString', vs), 'R5-two-defaults-both-named', 'reject')
    vs = insert_at(insert_at(base_variants('EnumString'), tup('D1', ['String'], [('default',)]), 'first'), tup('D2', ['String'], [('default',), ('disabled',)]), 'last')
    cs.add('EnumString', cs.enum('EnumString', vs), 'control-second-default-disabled', 'accept')
    # R6 default / transparent on a variant without exactly one field
    for shape in ('unit', 'tuple0', 'tuple2', 'named2'):
        def mkv(attr):
            if shape == 'unit':
                return unit('Bad', [attr])
            if shape == 'tuple0':
                return tup('Bad', [], [attr])
            if shape == 'tuple2':
                return tup('Bad', ['String', 'u8'], [attr])
            return named('Bad', [('a', 'String'), ('b', 'u8')], [attr])
        for pos in positions:
            for d in ('EnumString', 'Display', 'ToString'):
                cs.add(d, cs.enum(d, insert_at(base_variants(d), mkv(('default',)), pos)), 'R6-default-shape-%s' % shape, 'reject')
            for d in ('Display', 'AsRefStr', 'IntoStaticStr', 'AsStaticStr'):
                cs.add(d, cs.enum(d, insert_at(base_variants(d), mkv(('transparent',)), pos)), 'R6-transparent-shape-%s' % shape, 'reject')
    for d in ('EnumString', 'Display'):
        cs.add(d, cs.enum(d, insert_at(base_variants(d), tup('Good', ['String'], [('default',)]), 'middle')), 'control-default', 'accept')
        cs.add(d, cs.enum(d, insert_at(base_variants(d), named('Good', [('s', 'String')], [('default',)]), 'last')), 'control-default', 'accept')
    for d in ('Display', 'AsRefStr', 'IntoStaticStr'):
        inner_ty = "&'static str" if d == 'IntoStaticStr' else 'String'   # IntoStaticStr forwards through From<&Inner> for &'static str
        cs.add(d, cs.enum(d, insert_at(base_variants(d), tup('Good', [inner_ty], [('transparent',)]), 'middle')), 'control-transparent', 'accept')
    # R7 placeholders on a unit variant; empty braces on a tuple variant
    for lit in ('{0}', '{x}', 'a{}b', 'pre {name:>4}', '{{{0}}}', '日本語{x}', 'ééé {0}', 'é{0}', '{x}日本'):
        for pos in positions:
            cs.add('Display', cs.enum('Display', insert_at(base_variants('Display'), unit('Bad', [('to_string', lit)]), pos)), 'R7-unit-placeholder', 'reject')
    for pos in positions:
        # the placeholder may come from serialize or from the enum-level prefix, not only from to_string
        cs.add('Display', cs.enum('Display', insert_at(base_variants('Display'), unit('Bad', [('serialize', 'dot at {x}')]), pos)), 'R7-unit-placeholder-serialize', 'reject')
        cs.add('Display', cs.enum('Display', insert_at(base_variants('Display'), unit('Bad', [('serialize', 's'), ('serialize', 'longer {0}')]), pos)), 'R7-unit-placeholder-serialize', 'reject')
    cs.add('Display', cs.enum('Display', [unit('Alpha'), unit('Beta')], eattrs=[[('prefix', '{p}')]]), 'R7-unit-placeholder-prefix', 'reject')
    cs.add('Display', cs.enum('Display', [unit('Alpha', [('to_string', 'a')]), unit('Beta')], eattrs=[[('prefix', 'pre{0}-')]]), 'R7-unit-placeholder-prefix', 'reject')
    for lit in ('{}', 'a {} b', '{:>4}'):
        cs.add('Display', cs.enum('Display', insert_at(base_variants('Display'), tup('Bad', ['u8'], [('to_string', lit)]), 'middle')), 'R7-empty-placeholder', None)
    for lit in ('{{escaped}}', 'plain', '}}{{', '日本語{{x}}'):
        cs.add('Display', cs.enum('Display', insert_at(base_variants('Display'), unit('Fine', [('to_string', lit)]), 'middle')), 'control-escaped', 'accept')
    for lit in ('{', 'a}b', '{a{b}}'):
        cs.add('Display', cs.enum('Display', insert_at(base_variants('Display'), unit('Odd', [('to_string', lit)]), 'middle')), 'R7-unbalanced', None)
    # R9 half of parse_err
    for ea in ([[('parse_err_ty', 'PErr')]], [[('parse_err_fn', 'perr')]]):
        cs.add('EnumString', cs.enum('EnumString', base_variants('EnumString'), eattrs=ea), 'R9-half-parse-err', 'reject')
    cs.add('EnumString', cs.enum('EnumString', base_variants('EnumString'), eattrs=[[('parse_err_ty', 'PErr'), ('parse_err_fn', 'perr')]]), 'control-parse-err', 'accept')
    # the values are paths / types: generic arguments, turbofish and module paths are legal
    cs.add('EnumString', cs.enum('EnumString', base_variants('EnumString'), eattrs=[[('parse_err_ty', 'PErrG<u8>'), ('parse_err_fn', 'perr_g::<u8>')]]), 'control-parse-err-generic', 'accept')
    cs.add('EnumString', cs.enum('EnumString', base_variants('EnumString'), eattrs=[[('parse_err_fn', 'errs::perr')], [('parse_err_ty', 'errs::PErr')]]), 'control-parse-err-path', 'accept')
    # R10 unsupported property literals
    for kind, text in (('f', '1.5'), ('c', "'c'"), ('y', "b'x'"), ('Y', 'b"xy"'), ('f', '2e3')):
        for pos in positions:
            for mixed in (False, True):
                props = [('k', kind, text)] if not mixed else [('a', 's', '"v"'), ('k', kind, text), ('z', 'i', '1')]
                cs.add('EnumProperty', cs.enum('EnumProperty', insert_at(base_variants('EnumProperty'), unit('Bad', [('props', props)]), pos)), 'R10-prop-literal', 'reject')
    cs.add('EnumProperty', cs.enum('EnumProperty', insert_at(base_variants('EnumProperty'), unit('Off', [('disabled',), ('props', [('k', 'f', '1.5')])]), 'middle')), 'control-prop-on-disabled', None)
    cs.add('EnumProperty', cs.enum('EnumProperty', insert_at(base_variants('EnumProperty'), unit('Ok', [('props', [('k', 's', '"v"'), ('n', 'i', '-5'), ('t', 'b', 'true')])]), 'middle')), 'control-props', 'accept')
    return cs.items
