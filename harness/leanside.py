"""Lean side: build the model/proofs/driver, audit the property theorems, run the driver."""
import os, subprocess, json, re, fcntl, time

VERIF = os.path.dirname(os.path.dirname(os.path.abspath(__file__)))
LEAN_DIR = os.path.join(VERIF, 'lean')
DRIVER = os.path.join(LEAN_DIR, '.lake', 'build', 'bin', 'driver')
ALLOWED_AXIOMS = {'propext', 'Classical.choice', 'Quot.sound'}
FORBIDDEN = re.compile(r'\bsorry\b|\badmit\b|^\s*axiom\s|native_decide|bv_decide|implemented_by|\bunsafe\s|maxHeartbeats\s+0')


def _lock():
    os.makedirs(os.path.join(LEAN_DIR, '.lake'), exist_ok=True)
    f = open(os.path.join(LEAN_DIR, '.lake', 'verif.lock'), 'w')
    fcntl.flock(f, fcntl.LOCK_EX)
    return f


def lake_build(targets=None, timeout=3600):
    """returns (ok, log, wall_s)"""
    t0 = time.time()
    f = _lock()
    try:
        cmd = ['lake', 'build'] + (targets or [])
        p = subprocess.run(cmd, cwd=LEAN_DIR, stdout=subprocess.PIPE, stderr=subprocess.STDOUT, text=True, timeout=timeout)
        return p.returncode == 0, p.stdout, time.time() - t0
    finally:
        f.close()


def strip_comments(src):
    # remove /- ... -/ (nested) and -- comments
    out = []
    i = 0
    depth = 0
    n = len(src)
    while i < n:
        if src.startswith('/-', i):
            depth += 1
            i += 2
            continue
        if depth > 0 and src.startswith('-/', i):
            depth -= 1
            i += 2
            continue
        if depth > 0:
            if src[i] == '\n':
                out.append('\n')
            i += 1
            continue
        if src.startswith('--', i):
            while i < n and src[i] != '\n':
                i += 1
            continue
        out.append(src[i])
        i += 1
    return ''.join(out)


def grep_forbidden():
    hits = []
    for root, _, files in os.walk(LEAN_DIR):
        if '.lake' in root:
            continue
        for fn in files:
            if not fn.endswith('.lean'):
                continue
            p = os.path.join(root, fn)
            src = strip_comments(open(p).read())
            for ln, line in enumerate(src.splitlines(), 1):
                if FORBIDDEN.search(line):
                    hits.append('%s:%d: %s' % (os.path.relpath(p, LEAN_DIR), ln, line.strip()))
    return hits


def theorems_for(pid):
    j = json.load(open(os.path.join(LEAN_DIR, 'theorems.json')))
    return j.get(pid, [])


def audit(pid, module=None):
    """#print axioms for every theorem registered for the property.
    returns dict(theorems=[{name, axioms, ok}], ok, log)"""
    names = theorems_for(pid)
    module = module or ('StrumProofs.' + pid)
    src = 'import %s\n' % module + ''.join('#print axioms %s\n' % n for n in names)
    tmp = os.path.join(LEAN_DIR, '.lake', 'audit_%s_%d.lean' % (pid, os.getpid()))
    with open(tmp, 'w') as f:
        f.write(src)
    try:
        p = subprocess.run(['lake', 'env', 'lean', tmp], cwd=LEAN_DIR, stdout=subprocess.PIPE, stderr=subprocess.STDOUT,
                           text=True, timeout=1200)
    finally:
        os.remove(tmp)
    log = p.stdout
    res = []
    # outputs look like: 'Strum.foo' depends on axioms: [propext, Quot.sound]   or   'Strum.foo' does not depend on any axioms
    flat = re.sub(r'\s+', ' ', log)
    for n in names:
        m = re.search(r"'%s' (does not depend on any axioms|depends on axioms: \[([^\]]*)\])" % re.escape(n), flat)
        if not m:
            res.append({'name': n, 'axioms': None, 'ok': False})
            continue
        ax = [] if m.group(2) is None else [a.strip() for a in m.group(2).split(',') if a.strip()]
        res.append({'name': n, 'axioms': ax, 'ok': set(ax) <= ALLOWED_AXIOMS})
    ok = p.returncode == 0 and all(r['ok'] for r in res) and len(res) > 0
    return {'theorems': res, 'ok': ok, 'log': log[-3000:]}


def leanchecker(module, timeout=1800):
    t0 = time.time()
    p = subprocess.run(['lake', 'env', 'leanchecker', module], cwd=LEAN_DIR, stdout=subprocess.PIPE, stderr=subprocess.STDOUT,
                       text=True, timeout=timeout)
    return p.returncode == 0, p.stdout, time.time() - t0


def run_driver(lines, timeout=1200):
    inp = '\n'.join(lines) + '\n'
    p = subprocess.run([DRIVER], input=inp, stdout=subprocess.PIPE, stderr=subprocess.PIPE, text=True, timeout=timeout)
    if p.returncode != 0:
        raise RuntimeError('lean driver failed: ' + p.stderr[-2000:])
    return p.stdout.splitlines()
