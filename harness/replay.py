"""./check replay <file>: re-run one recorded violation against the current tree."""
import json, sys
from . import runner, leanside, rustgen, modea, core
from .spec import espec_from_json, hx


def main(path):
    j = json.load(open(path))
    kind = j.get('kind')
    pid = j.get('property')
    print('replay of %s: property=%s kind=%s\n  %s' % (path, pid, kind, j.get('what')))
    if kind in ('proof_broken', 'audit'):
        res = core.Result(pid, 'quick', 0)
        ok = core.proof_stage(res, pid)
        print('proof stage now: %s' % ('ok' if ok else 'STILL BROKEN'))
        for t in (res.proof or {}).get('theorems', []):
            print('  %s axioms=%s ok=%s' % (t['name'], t['axioms'], t['ok']))
        return 0 if ok else 1
    if j.get('label') == 'modeA' and 'source' in j:
        ok, err, wall, binp = modea.build()
        if not ok:
            print('mode A build failed:\n' + err)
            return 2
        line = 'derive %s %s' % (j['derive'], hx(j['source']))
        out = modea.run(binp, [line])[0]
        print('  source:\n' + j['source'])
        print('  implementation now: %s   (recorded: %s; model: %s)' % (out[:200], str(j.get('impl'))[:200], j.get('model')))
        cls = {'ok': 'accept', 'err': 'reject', 'panic': 'panic'}.get(out.split(' ')[0], out)
        same = (cls == j.get('model')) if j.get('model') in ('accept', 'reject', 'panic') else None
        print('  agrees with the model now: %s' % same)
        return 0 if same else 1
    if j.get('label') == 'modeA' and 'op' in j:
        ok, err, wall, binp = modea.build()
        out = modea.run(binp, [j['op']])[0]
        m = leanside.run_driver([j['op']])[0]
        print('  %s\n  model: %s\n  impl : %s' % (j['op'], m, out))
        return 0 if m == out else 1
    if isinstance(j.get('shrunk'), dict):
        print('  (replaying the shrunk case: %d -> %d variants)' % (j['shrunk']['variants_before'], j['shrunk']['variants_after']))
        print(j['shrunk']['rust'])
        j = dict(j, enum=j['shrunk']['enum'], op=j['shrunk']['op'], impl=j['shrunk']['impl'])
    if 'enum' in j:
        e = espec_from_json(j['enum'])
        ws = runner.Workspace('replay', features=('derive', 'phf') if e.phf else ('derive',))
        ws.lock()
        try:
            try:
                shard_of, failed, st = runner.build_corpus(ws, [e], nshards=1)
            except runner.BuildError as ex:
                print('  does not build:\n' + str(ex)[:3000])
                return 1
            if failed:
                print('  the definition does not compile:')
                for er in failed[e.id][:3]:
                    print(er['rendered'][:1500])
                return 1
            print('  the definition compiles')
            if 'op' in j:
                impl = runner.run_ops(ws, shard_of, [(e.id, j['op'])])[0]
                model = leanside.run_driver(e.model_lines() + [j['op']])[-1]
                print('  %s\n  model: %s\n  impl : %s   (recorded impl: %s)' % (j['op'], model, impl, j.get('impl')))
                return 0 if impl == model else 1
        finally:
            ws.unlock()
        return 0
    print(json.dumps(j, indent=1)[:3000])
    return 1
