"""Corpora for the list-describing derives (C04, C05, C08)."""
from .spec import ESpec, VSpec, hx
from .strcorpus import FIELD_NAMES

KINDS = [('unit', []), ('tuple', ['u8']), ('named', ['i32', 'String']), ('tuple', ['Host', 'OptU8', 'u16']), ('named', ['u8']),
         ('tuple', []), ('named', [])]   # `V()` and `V {}` are legal variants too

# disabled placements as predicates over (position, n)
PLACEMENTS = {
    'none': lambda i, n: False,
    'first': lambda i, n: i == 0,
    'middle': lambda i, n: i == n // 2,
    'last': lambda i, n: i == n - 1,
    'adjacent': lambda i, n: i in (n // 2, n // 2 + 1),
    'alternating': lambda i, n: i % 2 == 1,
    'first+last': lambda i, n: i in (0, n - 1),
    'all': lambda i, n: True,
}


def make_enum(eid, name, n, placement, kinds=KINDS, generics='', derives=('EnumIter',), feats=('iter',), unit_only=False,
              discr=None, naming=False, style=None):
    e = ESpec(id=eid, name=name, derives=list(derives), feats=list(feats), generics=generics, style=style)
    pl = PLACEMENTS[placement]
    off = sum(map(ord, eid)) % len(kinds)
    for i in range(n):
        kind = ('unit', []) if unit_only else kinds[(i + off) % len(kinds)]
        v = VSpec(ident='V%d%s' % (i, 'abcXYZ'[i % 6] if not unit_only else ''), kind=kind[0], ftypes=list(kind[1]))
        if kind[0] == 'named':
            v.fnames, v.fdw = FIELD_NAMES[:len(kind[1])], [None] * len(kind[1])
        v.dis = bool(pl(i, n))
        if discr:
            v.discr = discr(i)
        if naming:
            m = i % 4
            if m == 1:
                v.ts = 'name-%d' % i
            elif m == 2:
                v.ser = ['s%d' % i, 'longer-%d' % i]
        e.variants.append(v)
    if generics in ('ty', 'where') and not unit_only:
        e.variants.append(VSpec(ident='GenT', kind='tuple', ftypes=['T']))
    elif generics == 'ty_nd' and not unit_only:
        e.variants.append(VSpec(ident='GenNd', kind='tuple', ftypes=['OptT']))
    elif generics == 'const' and not unit_only:
        e.variants.append(VSpec(ident='GenCg', kind='tuple', ftypes=['Cg']))
    e.extra['shape'] = 'n=%d placement=%s gen=%s unit_only=%s' % (n, placement, generics, unit_only)
    return e


def n_enabled(e):
    return sum(1 for v in e.variants if not v.dis)
