"""Mode B: build generated corpora against /repo's working tree with the real derives, run the shard drivers."""
import os, json, subprocess, shutil, time, fcntl, hashlib
from . import rustgen

REPO = os.environ.get('VERIF_REPO', '/repo')
VERIF = os.path.dirname(os.path.dirname(os.path.abspath(__file__)))
SCRATCH = os.environ.get('VERIF_SCRATCH', os.path.join(VERIF, '.cache'))
CARGO_ENV = dict(os.environ, CARGO_NET_OFFLINE='true', CARGO_TERM_COLOR='never', RUSTFLAGS=os.environ.get('RUSTFLAGS', ''))


class BuildError(Exception):
    pass


def _write_if_changed(path, content):
    try:
        with open(path) as f:
            if f.read() == content:
                return
    except FileNotFoundError:
        pass
    os.makedirs(os.path.dirname(path), exist_ok=True)
    with open(path, 'w') as f:
        f.write(content)


class Workspace:
    """A cargo workspace of shard binaries.  key: unique name (also prefixes package names)."""

    def __init__(self, key, features=('derive',), default_features=True, profile='dev', dep_name='strum',
                 extra_deps='', target_key='std', edition='2021'):
        self.key = key
        self.features = list(features)
        self.default_features = default_features
        self.profile = profile
        self.dep_name = dep_name
        self.extra_deps = extra_deps
        self.dir = os.path.join(SCRATCH, 'ws', key)
        self.target = os.path.join(SCRATCH, 'target-' + target_key)
        self.edition = edition
        self.nshards = 0
        self.lockf = None

    def kwargs(self):
        return dict(features=tuple(self.features), default_features=self.default_features, profile=self.profile,
                    dep_name=self.dep_name, extra_deps=self.extra_deps, target_key=os.path.basename(self.target)[len('target-'):])

    def lock(self):
        os.makedirs(os.path.join(SCRATCH, 'ws'), exist_ok=True)
        self.lockf = open(os.path.join(SCRATCH, 'ws', self.key + '.lock'), 'w')
        fcntl.flock(self.lockf, fcntl.LOCK_EX)

    def unlock(self):
        if self.lockf:
            fcntl.flock(self.lockf, fcntl.LOCK_UN)
            self.lockf.close()
            self.lockf = None

    def pkg(self, i):
        return '%s_s%d' % (self.key.lower(), i)

    def write(self, shard_files):
        """shard_files: list of {filename: content} (src/ of each shard)"""
        if os.path.isdir(self.dir):
            # remove stale shards / files
            for name in os.listdir(self.dir):
                p = os.path.join(self.dir, name)
                if name.startswith('s') and name[1:].isdigit() and int(name[1:]) >= len(shard_files):
                    shutil.rmtree(p)
        os.makedirs(self.dir, exist_ok=True)
        self.nshards = len(shard_files)
        members = ', '.join('"s%d"' % i for i in range(self.nshards))
        ws = ('[workspace]\nmembers = [%s]\nresolver = "2"\n\n'
              '[profile.dev]\ndebug = false\nopt-level = 0\nincremental = false\noverflow-checks = true\ndebug-assertions = true\n\n'
              '[profile.release]\ndebug = false\nopt-level = 1\nincremental = false\ncodegen-units = 16\n' % members)
        _write_if_changed(os.path.join(self.dir, 'Cargo.toml'), ws)
        _write_if_changed(os.path.join(self.dir, '.cargo', 'config.toml'),
                          '[net]\noffline = true\n[build]\ntarget-dir = "%s"\n' % self.target)
        lock_src = os.path.join(REPO, 'Cargo.lock')
        lock_dst = os.path.join(self.dir, 'Cargo.lock')
        if not os.path.exists(lock_dst):
            shutil.copy(lock_src, lock_dst)
        feats = ', '.join('"%s"' % f for f in self.features)
        for i, files in enumerate(shard_files):
            sdir = os.path.join(self.dir, 's%d' % i)
            dep = '%s = { path = "%s/strum", %sfeatures = [%s]%s }' % (
                self.dep_name, REPO, 'package = "strum", ' if self.dep_name != 'strum' else '', feats,
                '' if self.default_features else ', default-features = false')
            toml = ('[package]\nname = "%s"\nversion = "0.0.0"\nedition = "%s"\n\n[dependencies]\n%s\n%s\n'
                    % (self.pkg(i), self.edition, dep, self.extra_deps))
            _write_if_changed(os.path.join(sdir, 'Cargo.toml'), toml)
            src = os.path.join(sdir, 'src')
            if os.path.isdir(src):
                for name in os.listdir(src):
                    if name not in files:
                        os.remove(os.path.join(src, name))
            for name, content in files.items():
                _write_if_changed(os.path.join(src, name), content)

    def cargo_build(self, timeout=1800, lib=False):
        cmd = ['cargo', 'build', '--offline', '--message-format=json', '-q']
        if self.profile == 'release':
            cmd.append('--release')
        t0 = time.time()
        p = subprocess.run(cmd, cwd=self.dir, env=CARGO_ENV, stdout=subprocess.PIPE, stderr=subprocess.PIPE,
                           text=True, timeout=timeout)
        errors = []
        for line in p.stdout.splitlines():
            if not line.startswith('{'):
                continue
            try:
                m = json.loads(line)
            except Exception:
                continue
            if m.get('reason') != 'compiler-message':
                continue
            msg = m['message']
            if msg.get('level') != 'error':
                continue
            files = [s['file_name'] for s in msg.get('spans', []) if s.get('is_primary')]
            for s in msg.get('spans', []):
                # macro expansions: follow to the outermost expansion site
                exp = s.get('expansion')
                while exp:
                    files.append(exp['span']['file_name'])
                    exp = exp['span'].get('expansion')
            lines = [s['line_start'] for s in msg.get('spans', []) if s.get('is_primary')]
            errors.append({'pkg': m.get('package_id', ''), 'message': msg.get('message', ''), 'files': files,
                           'lines': lines, 'code': (msg.get('code') or {}).get('code'),
                           'rendered': (msg.get('rendered') or '')[:2000]})
        return {'ok': p.returncode == 0, 'errors': errors, 'stderr': p.stderr[-4000:], 'wall_s': time.time() - t0}

    def bin_path(self, i):
        return os.path.join(self.target, 'release' if self.profile == 'release' else 'debug', self.pkg(i))

    def run_shard(self, i, lines, timeout=600):
        inp = '\n'.join(lines) + '\n'
        p = subprocess.run([self.bin_path(i)], input=inp, stdout=subprocess.PIPE, stderr=subprocess.PIPE, text=True,
                           timeout=timeout)
        return p.stdout.splitlines(), p.returncode, p.stderr[-2000:]


def enum_id_of_file(fname):
    base = os.path.basename(fname)
    if base.startswith('e_') and base.endswith('.rs'):
        return base[2:-3]
    return None


def build_corpus(ws: Workspace, especs, nshards=16, gen_cls=rustgen.EnumGen, strum_path='strum', max_rounds=4,
                 render=None):
    """Shard, render, build.  Enums whose module fails to compile are dropped (and reported) and the rest rebuilt.
    returns (shard_of: {enum id: shard index}, failed: {enum id: [error dict]}, build stats)"""
    especs = list(especs)
    failed = {}
    stats = {'rounds': 0, 'wall_s': 0.0}
    render = render or (lambda es: rustgen.render_shard(es, strum_path, gen_cls))
    while True:
        stats['rounds'] += 1
        live = [e for e in especs if e.id not in failed]
        n = max(1, min(nshards, (len(live) + 7) // 8))
        shards = [[] for _ in range(n)]
        for k, e in enumerate(live):
            shards[k % n].append(e)
        ws.write([render(s) for s in shards])
        r = ws.cargo_build()
        stats['wall_s'] += r['wall_s']
        if r['ok']:
            shard_of = {}
            for i, s in enumerate(shards):
                for e in s:
                    shard_of[e.id] = i
            return shard_of, failed, stats
        new = 0
        for err in r['errors']:
            ids = set(filter(None, (enum_id_of_file(f) for f in err['files'])))
            for i in ids:
                if i not in failed:
                    new += 1
                failed.setdefault(i, []).append({'message': err['message'], 'code': err['code'], 'rendered': err['rendered']})
        if new == 0 or stats['rounds'] >= max_rounds:
            raise BuildError('cargo build failed and no further enum could be blamed:\n' + r['stderr'] +
                             '\n'.join(e['rendered'] for e in r['errors'][:5]))


def run_ops(ws: Workspace, shard_of, ops):
    """ops: list of (enum id, 'op <id> ...' line).  returns list of output lines aligned with ops (None if enum absent)."""
    per = {}
    for k, (eid, line) in enumerate(ops):
        si = shard_of.get(eid)
        if si is None:
            continue
        per.setdefault(si, []).append((k, line))
    out = [None] * len(ops)
    from concurrent.futures import ThreadPoolExecutor

    def go(si):
        items = per[si]
        lines, rc, err = ws.run_shard(si, [l for _, l in items])
        return si, lines, rc, err

    with ThreadPoolExecutor(max_workers=16) as ex:
        for si, lines, rc, err in ex.map(go, list(per)):
            items = per[si]
            for j, (k, _) in enumerate(items):
                out[k] = lines[j] if j < len(lines) else 'ABORT rc=%s' % rc
    return out
