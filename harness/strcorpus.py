"""Corpus generator for the EnumString family (C01, C02, C11, C12, C16, C18)."""
import itertools
from .spec import ESpec, VSpec, hx, unhx
from .core import Corpus
from . import leanside, textgen

STYLES = [None, 'camelCase', 'PascalCase', 'kebab-case', 'snake_case', 'SCREAMING_SNAKE_CASE', 'SCREAMING-KEBAB-CASE',
          'lowercase', 'UPPERCASE', 'title_case', 'mixed_case', 'Train-Case',
          'camel_case', 'snek_case', 'kebab_case', 'shouty_snake_case', 'shouty_snek_case']
ALL_STYLE_STRINGS = STYLES[1:]

STEMS = ['Red', 'GreenLeaf', 'HTTPServer', 'Foo2Bar', 'XMLHttpRequest', 'A1', 'snake_ident', 'Ab_cD', 'Kiwi', 'Task',
         'IOError', 'Utf8', 'B2B', 'lower', 'UPPER', 'Mixed_Case_9', 'Silk', 'Iris', 'Disk', 'Ski', 'Sketch', 'Kiss',
         'red', 'rr_sched', 'rRaw']

KINDS = [('unit', []), ('tuple', ['u8']), ('tuple', ['String', 'i32']), ('tuple', ['bool', 'Host', 'OptU8']),
         ('named', ['i32']), ('named', ['u8', 'String']), ('named', ['String', 'bool', 'Host']), ('tuple', []), ('named', [])]
NAMINGS = ['none', 'ts', 'ser1', 'ser2', 'ser3', 'ser_ts', 'ser2_ts']
FIELD_NAMES = ['alpha', 'beta', 'gamma']


def literal_variants(stem, k):
    """distinct explicit spellings derived from a unique stem"""
    pool = [stem.lower() + '-lit', stem + 'Alt', 'É' + stem, stem.upper() + '_9', 'x ' + stem, stem + 'ß', '1' + str(k) + '23']
    return pool


def make_variant(k, stem_i, kind, naming, ci, flag='', dw_mode=0, uniq=''):
    stem = STEMS[stem_i % len(STEMS)]
    ident = '%s%s%s' % (stem, chr(65 + k % 26), uniq)
    kname, ftypes = kind
    v = VSpec(ident=ident, kind=kname, ftypes=list(ftypes))
    if kname == 'named':
        v.fnames = FIELD_NAMES[:len(ftypes)]
        v.fdw = [None] * len(ftypes)
    lits = literal_variants(ident, k)
    if naming == 'ts':
        v.ts = lits[0]
    elif naming == 'ser1':
        v.ser = [lits[1]]
    elif naming == 'ser2':
        v.ser = [lits[2], lits[0]]
    elif naming == 'ser3':
        v.ser = [lits[3], lits[4], lits[1]]
    elif naming == 'ser_ts':
        v.ser = [lits[5]]
        v.ts = lits[0]
    elif naming == 'ser2_ts':
        v.ser = [lits[6], lits[2]]
        v.ts = lits[1]
    v.ci = ci
    if flag == 'disabled':
        v.dis = True
    if dw_mode:
        if kname == 'tuple' and len(ftypes) == 1:
            v.dw = 'mk_%s_%s' % (ftypes[0].lower(), ident.lower())
        elif kname == 'named':
            for i in range(len(ftypes)):
                if (dw_mode >> i) & 1:
                    v.fdw[i] = 'mk_%s_%s_%d' % (ftypes[i].lower(), ident.lower(), i)
    return v


def default_variant(k, form, with_ts=False, ty='String'):
    ident = 'Fallback%s' % chr(65 + k % 26)
    if form == 'tuple':
        v = VSpec(ident=ident, kind='tuple', ftypes=[ty], default=True)
    else:
        v = VSpec(ident=ident, kind='named', ftypes=[ty], fnames=['inner'], fdw=[None], default=True)
    if with_ts:
        v.ts = 'fallback-name'
    return v


def variant_shapes(full=True):
    """the per-variant exhaustive core for EnumString: kind x naming x ci x default_with placement"""
    out = []
    for kind in KINDS:
        for naming in NAMINGS:
            for ci in (None, True, False):
                dws = [0]
                if kind[0] == 'tuple' and len(kind[1]) == 1:
                    dws = [0, 1]
                elif kind[0] == 'named':
                    dws = [0, 1, (1 << len(kind[1])) - 1] if len(kind[1]) > 1 else [0, 1]
                for dw in dws:
                    out.append((kind, naming, ci, dw))
    return out


def add_generic_field(e: ESpec):
    """make sure a generic enum uses its parameters"""
    if e.generics in ('ty', 'where'):
        e.variants.append(VSpec(ident='GenT', kind='tuple', ftypes=['T']))
    elif e.generics == 'lt':
        e.variants.append(VSpec(ident='GenLt', kind='tuple', ftypes=['RefStr']))
    elif e.generics == 'const':
        e.variants.append(VSpec(ident='GenCg', kind='tuple', ftypes=['Cg']))
    elif e.generics == 'ty_nd':
        e.variants.append(VSpec(ident='GenNd', kind='tuple', ftypes=['OptT']))
    elif e.generics == 'lt_ty':
        e.variants.append(VSpec(ident='GenLtT', kind='named', ftypes=['RefStr', 'T'], fnames=['r', 't'], fdw=[None, None]))


def build_enums(rng, tier, pid, derives=('EnumString',), feats=('parse',), per_enum=5, with_default='some',
                with_err='some', passes=None, phf=False, styles=None, generics_pool=('', 'ty', 'lt', 'const', 'where', 'lt_ty', 'ty_nd'),
                unit_only=False, prefix_pool=(None,)):
    shapes = variant_shapes()
    if unit_only:
        shapes = [s for s in shapes if s[0][0] == 'unit']
    styles = styles or STYLES
    passes = passes if passes is not None else (1 if tier == 'quick' else 4)
    enums = []
    n = 0
    for ps in range(passes):
        order = list(shapes)
        if ps > 0:
            rng.shuffle(order)
        for i in range(0, len(order), per_enum):
            chunk = order[i:i + per_enum]
            eid = '%s%d' % (pid.lower(), n)
            style = styles[(n + ps * 7) % len(styles)]
            eci = (n // 2 + ps) % 2 == 1
            gen = generics_pool[(n + ps) % len(generics_pool)] if not unit_only else ''
            e = ESpec(id=eid, name='En%s%d' % (pid, n), style=style, ci=eci, generics=gen, derives=list(derives),
                      feats=list(feats), phf=phf, prefix=prefix_pool[n % len(prefix_pool)])
            for k, (kind, naming, ci, dw) in enumerate(chunk):
                flag = 'disabled' if (n + k) % 11 == 0 else ''
                e.variants.append(make_variant(k, n * 3 + k, kind, naming, ci, flag, dw))
            add_generic_field(e)
            if with_default == 'all' or (with_default == 'some' and n % 3 == 0):
                form = 'tuple' if n % 2 == 0 else 'named'
                pos = n % (len(e.variants) + 1)
                if not unit_only or True:
                    e.variants.insert(pos, default_variant(len(e.variants), form, with_ts=(n % 4 == 0)))
            if with_err == 'all' or (with_err == 'some' and n % 2 == 1):
                e.err = True
            e.extra['shape'] = 'style=%s ci=%s gen=%s err=%s dflt=%s' % (style, eci, gen, e.err, any(v.default for v in e.variants))
            enums.append(e)
            n += 1
    return enums


def query_model(enums):
    """ask the model for each enum's non-overlap verdict and each variant's spellings"""
    lines = []
    q = []
    for e in enums:
        lines += e.model_lines()
    for e in enums:
        lines.append('op %s nooverlap' % e.id)
        q.append((e.id, None))
        for v in e.variants:
            lines.append('op %s spellings %s' % (e.id, hx(v.ident)))
            q.append((e.id, v.ident))
    out = leanside.run_driver(lines)
    assert len(out) == len(q), (len(out), len(q))
    info = {}
    for (eid, ident), o in zip(q, out):
        d = info.setdefault(eid, {'nooverlap': None, 'spellings': {}})
        if ident is None:
            d['nooverlap'] = (o == '1')
        else:
            d['spellings'][ident] = [unhx(t).decode('utf-8') for t in o.split(' ') if t.startswith('x')]
    return info


CLASH_IDENTS = ['Ok', 'Err', 'Error', 'Some', 'None', 'Item', 'Iterator', 'Default', 'Output', 'Discriminant', 'Target', 'Iter', 'Table']


def clash_enum(pid, derives, feats, kinds=(('unit', []),), skip=()):
    """variants named like associated items (`Err`, `Error`, `Item`, `Iterator`, `Discriminant`, `Output`) and prelude items"""
    e = ESpec(id='%sclash' % pid.lower(), name='En%sClash' % pid, derives=list(derives), feats=list(feats))
    for i, n in enumerate(x for x in CLASH_IDENTS if x not in skip):
        kind = kinds[i % len(kinds)]
        v = VSpec(ident=n, kind=kind[0], ftypes=list(kind[1]))
        if kind[0] == 'named':
            v.fnames, v.fdw = FIELD_NAMES[:len(kind[1])], [None] * len(kind[1])
        e.variants.append(v)
    e.extra['shape'] = 'variants named like associated / prelude items'
    e.extra['no_noise'] = True
    return e


def overlap_enums(pid, derives=('EnumString',), feats=('parse',)):
    """two variants sharing a byte-identical spelling, one exact and one ASCII-case-insensitive, in both orders; the
    inputs that only the insensitive one accepts are decided pointwise"""
    out = []
    for j, (first_ci, second_ci, enum_ci) in enumerate([(False, True, False), (True, False, False), (None, False, True), (False, None, True),
                                                        (False, False, False)]):
        e = ESpec(id='%sov%d' % (pid.lower(), j), name='En%sOv%d' % (pid, j), ci=enum_ci, derives=list(derives), feats=list(feats))
        e.variants = [VSpec(ident='Milli', ser=['m'], ci=first_ci), VSpec(ident='Mega', ser=['m', 'mega'], ci=second_ci),
                      VSpec(ident='Kibi', ts='kib', ci=second_ci), VSpec(ident='Kilo', ser=['kib'], ci=first_ci, kind='tuple', ftypes=['u8']),
                      VSpec(ident='Other')]
        e.extra['shape'] = 'shared-spelling ci=%s/%s enum_ci=%s' % (first_ci, second_ci, enum_ci)
        e.extra['no_noise'] = True
        out.append(e)
    return out


def shadowed_by_disabled(pid, derives, feats):
    """a disabled variant in front of / behind an enabled variant that is SPELLED like the disabled one's identifier"""
    out = []
    for j, (style, first) in enumerate([(None, True), ('kebab-case', True), (None, False), ('snake_case', False)]):
        e = ESpec(id='%ssd%d' % (pid.lower(), j), name='En%sSd%d' % (pid, j), style=style, derives=list(derives), feats=list(feats))
        dis_name = {'kebab-case': 'old-name', 'snake_case': 'old_name'}.get(style, 'OldName')
        d = VSpec(ident='OldName', dis=True)
        en = VSpec(ident='Renamed', ser=[dis_name] if j % 2 == 0 else [], ts=None if j % 2 == 0 else dis_name)
        e.variants = ([d, en] if first else [en, d]) + [VSpec(ident='Plain')]
        e.extra['shape'] = 'enabled variant spelled like a disabled variant (style=%s, disabled first=%s)' % (style, first)
        e.extra['no_noise'] = True
        out.append(e)
    return out


OVERLAP_INPUTS = ['m', 'M', 'mega', 'MEGA', 'kib', 'KIB', 'Kib', 'kiB', 'other', 'Other', 'OTHER', '']


def pointwise_domain(c):
    """Enums in which two variants share a spelling are outside the GLOBAL non-overlap domain, but every input that at most
    one candidate accepts is still decided (theorems parse_accepting_at / parse_other): those parse ops keep their verdict."""
    ov = [e for e in c.especs if not e.extra.get('in_domain', True)]
    if not ov:
        return 0
    ovids = set(e.id for e in ov)
    lines, idx = [], []
    for e in ov:
        lines += e.model_lines()
    for k, o in enumerate(c.ops):
        if o.eid in ovids:
            t = o.line.split(' ')
            if len(t) >= 4 and t[2] == 'parse':
                lines.append('op %s accepters %s' % (o.eid, t[3]))
                idx.append(k)
            else:
                o.verdict = False
    out = leanside.run_driver(lines)
    assert len(out) == len(idx), (len(out), len(idx))
    n = 0
    for k, r in zip(idx, out):
        ok = r.startswith('n=') and int(r[2:]) <= 1
        c.ops[k].verdict = c.ops[k].verdict and ok
        n += ok
    for e in ov:
        e.extra['in_domain'] = True
        e.extra['pointwise_domain'] = True
    return n


def parse_inputs(rng, e: ESpec, info, tier, max_full=None):
    """(input string, class) pairs for one enum: DESIGN.md §6 C01"""
    max_full = max_full if max_full is not None else (6 if tier == 'quick' else 12)
    sp = info['spellings']
    out = []
    for v in e.variants:
        role = 'disabled' if v.dis else ('default' if v.default else 'cand')
        for s in sp[v.ident]:
            out.append((s, role + '-spelling'))
            flips, full = textgen.case_flips(s, max_full=max_full, rng=rng, nrand=24 if tier == 'quick' else 256)
            for f in flips:
                if f != s:
                    out.append((f, role + '-flip'))
            for nb in textgen.one_edit_neighbours(s, limit=40 if tier == 'quick' else None):
                out.append((nb, role + '-edit'))
            for la in textgen.lookalike_subst(s):
                out.append((la, role + '-lookalike'))
            out.append((' ' + s, role + '-ws'))
            out.append((s + ' ', role + '-ws'))
            out.append((s + '\n', role + '-ws'))
            # the 0x20-neighbours of the ASCII punctuation between the letter ranges: `[ \\ ] ^ _ `` <-> `{ | } ~ DEL @`
            punct = ''.join(chr(ord(ch) ^ 0x20) if ch in '[\\]^_`{|}~@\x7f' else ch for ch in s)
            if punct != s:
                out.append((punct, role + '-punct-fold'))
            if e.prefix:
                out.append((e.prefix + s, role + '-prefixed'))
                out.append((e.prefix + s + 'x', role + '-prefixed-unknown'))
                out.append((e.prefix + e.prefix + s, role + '-prefixed-twice'))
        # the un-cased identifier and every restyling of it when an explicit spelling exists
        if v.ser or v.ts is not None or e.style:
            out.append((v.ident, role + '-rawident'))
    out.append(('', 'empty'))
    if e.prefix:
        out.append((e.prefix, 'prefix-alone'))
        out.append((e.prefix + 'nope', 'prefixed-unknown'))
    for _ in range(6 if tier == 'quick' else 40):
        out.append((textgen.random_ascii(rng), 'random-ascii'))
        out.append((textgen.random_unicode(rng), 'random-unicode'))
    # dedupe keeping first class
    seen = set()
    res = []
    for s, c in out:
        if s not in seen:
            seen.add(s)
            res.append((s, c))
    return res


def restyled_idents(enums):
    """extra enums? no: ask the model for every style's rendering of each identifier (used as inputs)"""
    return []


# ---------------------------------------------------------------------------------------------------
# "attribute soup": random in-domain mixtures of every EnumString-relevant attribute, including the unusual
# combinations a hand-written grid tends to miss (disabled + default, serialize / to_string that differ only in
# case, repeated or empty literals, explicit `ascii_case_insensitive = false` next to case variants, ...)

def soup_literals(rng, stem, k):
    base = stem + str(k)
    pool = [base, base.lower(), base.upper(), base.swapcase(), base + 'x', 'é' + base, 'É' + base, 'Ω' + base.lower(), base.capitalize(), base[::-1] + '_', base + ' ', ' ' + base,
            '{{' + base + '}}', base + '}}{{', 'line\nbreak ' + base, 'nul\0' + base, 'tab\t' + base + ' "quoted" \\',
            (base + '-') * 40]   # control characters, quotes and backslashes, and a literal of a few hundred bytes
    return pool


def soup_variant(rng, k, stem_i, allow_empty, unit_only=False, display=False, plain_braces=False):
    stem = STEMS[stem_i % len(STEMS)]
    ident = '%s%s' % (stem, chr(65 + k % 26))
    kind = ('unit', []) if unit_only else rng.choice(KINDS)
    v = VSpec(ident=ident, kind=kind[0], ftypes=list(kind[1]))
    if kind[0] == 'named':
        v.fnames = FIELD_NAMES[:len(kind[1])]
        v.fdw = [None] * len(kind[1])
    pool = soup_literals(rng, ident, k)
    if plain_braces:
        # without a Display-like derive a `{placeholder}` in to_string / serialize is just text, and a spelling
        pool = pool + [ident + ' is {0}', '{' + ident.lower() + '}', 'sat {sat} ' + ident]
    nser = rng.choice([0, 0, 1, 1, 2, 3])
    v.ser = [rng.choice(pool) for _ in range(nser)]
    if allow_empty and rng.random() < 0.5 and nser:
        v.ser[rng.randrange(nser)] = ''
    if rng.random() < 0.4:
        v.ts = rng.choice(pool)
    v.ci = rng.choice([None, None, True, False])
    r = rng.random()
    if r < 0.15:
        v.dis = True
    if kind[0] == 'tuple' and len(kind[1]) == 1 and rng.random() < 0.3:
        v.dw = 'mk_%s_%s' % (kind[1][0].lower(), ident.lower())
    if kind[0] == 'named' and kind[1] and rng.random() < 0.3:
        i = rng.randrange(len(kind[1]))
        v.fdw[i] = 'mk_%s_%s_%d' % (kind[1][i].lower(), ident.lower(), i)
    v.attr_layout = rng.choice(['one', 'split'])
    return v


def build_soup(rng, tier, pid, derives=('EnumString',), feats=('parse',), n=None, unit_only=False, phf=False,
               with_default=True, with_err=True, prefix_pool=(None,)):
    n = n if n is not None else (40 if tier == 'quick' else 400)
    enums = []
    for j in range(n):
        eid = '%sq%d' % (pid.lower(), j)
        e = ESpec(id=eid, name='En%sq%d' % (pid, j), style=rng.choice(STYLES), ci=rng.random() < 0.4, derives=list(derives),
                  feats=list(feats), phf=phf, prefix=rng.choice(list(prefix_pool)))
        nv = rng.randint(1, 6)
        empty_used = False
        for k in range(nv):
            allow_empty = not empty_used and rng.random() < 0.15
            v = soup_variant(rng, k, j * 7 + k, allow_empty, unit_only=unit_only,
                             plain_braces=not (set(derives) & {'Display', 'ToString', 'AsRefStr', 'IntoStaticStr', 'AsStaticStr', 'VariantNames'}))
            if '' in v.ser:
                empty_used = True
            e.variants.append(v)
        if with_default and rng.random() < 0.45:
            form = rng.choice(['tuple', 'named'])
            dv = default_variant(nv, form, with_ts=rng.random() < 0.3)
            # a default variant may itself be disabled (then it must be ignored entirely), and there may be a
            # second, disabled one
            if rng.random() < 0.3:
                dv.dis = True
            e.variants.insert(rng.randint(0, len(e.variants)), dv)
            if rng.random() < 0.25:
                dv2 = default_variant(nv + 1, rng.choice(['tuple', 'named']), with_ts=False)
                dv2.ident = 'SecondFallback'
                dv2.dis = not dv.dis
                e.variants.insert(rng.randint(0, len(e.variants)), dv2)
        if with_err and rng.random() < 0.4:
            e.err = True
        e.extra['shape'] = 'soup style=%s ci=%s err=%s nv=%d' % (e.style, e.ci, e.err, nv)
        enums.append(e)
    return enums
