"""Shrink a failing (definition, operation) pair: fewer variants, fewer attributes, shorter input."""
import copy, time
from . import runner, leanside, rustgen
from .spec import hx, unhx

TYPE_NEEDS_GENERIC = {'T': ('ty', 'where', 'lt_ty'), 'RefStr': ('lt', 'lt_ty'), 'Cg': ('const',), 'OptT': ('ty_nd',)}


class Shrinker:
    def __init__(self, ws_key, ws_kwargs, gen_cls=rustgen.EnumGen, strum_path='strum', budget_s=120, max_builds=30):
        self.ws = runner.Workspace(ws_key + '_shrink', **ws_kwargs)
        self.gen_cls = gen_cls
        self.sp = strum_path
        self.deadline = time.time() + budget_s
        self.max_builds = max_builds
        self.builds = 0

    def observe(self, e, op):
        """(model answer, implementation answer or 'COMPILE-ERROR: ..')"""
        model = leanside.run_driver(e.model_lines() + [op])[-1] if op else None
        self.builds += 1
        try:
            shard_of, failed, st = runner.build_corpus(self.ws, [e], nshards=1, gen_cls=self.gen_cls, strum_path=self.sp, max_rounds=1)
        except runner.BuildError as ex:
            return model, 'COMPILE-ERROR'
        if failed:
            return model, 'COMPILE-ERROR: ' + failed[e.id][0]['message'][:120]
        if not op:
            return model, 'compiles'
        impl = runner.run_ops(self.ws, shard_of, [(e.id, op)])[0]
        return model, impl

    def still_fails(self, e, op, kind):
        if time.time() > self.deadline or self.builds >= self.max_builds:
            return False
        m, i = self.observe(e, op)
        if kind == 'compile_error':
            return i.startswith('COMPILE-ERROR') and not (m or '').startswith('CE:')
        if i is None or i.startswith('COMPILE-ERROR') or (m or '').startswith('bad-'):
            return False
        return m != i

    def candidates(self, e, op):
        used = op or ''
        # 1. drop variants the operation does not mention
        for k in range(len(e.variants) - 1, -1, -1):
            v = e.variants[k]
            if hx(v.ident) in used:
                continue
            c = copy.deepcopy(e)
            del c.variants[k]
            if self.generics_ok(c):
                yield c
        # 2. per-variant attributes
        for k in range(len(e.variants)):
            v = e.variants[k]
            for field, empty in (('ser', []), ('ts', None), ('ci', None), ('dw', None), ('docs', []), ('props', []), ('msg', None),
                                 ('det', None), ('dis', False), ('discr', None)):
                if getattr(v, field) not in (empty, None, [], False):
                    if field == 'ser' and len(v.ser) > 1:
                        for j in range(len(v.ser)):
                            c = copy.deepcopy(e)
                            del c.variants[k].ser[j]
                            yield c
                    c = copy.deepcopy(e)
                    setattr(c.variants[k], field, empty)
                    if field == 'discr':
                        c.variants[k].discr_expr = None
                    yield c
            if v.kind != 'unit' and not v.default and not v.tr:
                c = copy.deepcopy(e)
                c.variants[k].kind, c.variants[k].ftypes, c.variants[k].fnames, c.variants[k].fdw, c.variants[k].dw = 'unit', [], [], [], None
                if self.generics_ok(c):
                    yield c
        # 3. enum-level attributes
        for field, empty in (('style', None), ('ci', False), ('prefix', None), ('err', False), ('cis', False), ('phf', False)):
            if getattr(e, field) not in (empty,):
                c = copy.deepcopy(e)
                setattr(c, field, empty)
                yield c
        if e.generics:
            c = copy.deepcopy(e)
            c.generics = ''
            if self.generics_ok(c):
                yield c

    @staticmethod
    def generics_ok(e):
        for v in e.variants:
            for t in v.ftypes:
                need = TYPE_NEEDS_GENERIC.get(t)
                if need and e.generics not in need:
                    return False
        if e.generics in ('ty', 'where', 'lt_ty') and not any('T' in v.ftypes for v in e.variants):
            return False
        if e.generics in ('lt', 'lt_ty') and not any('RefStr' in v.ftypes for v in e.variants):
            return False
        if e.generics == 'ty_nd' and not any('OptT' in v.ftypes for v in e.variants):
            return False
        if e.generics == 'const' and not any('Cg' in v.ftypes for v in e.variants):
            return False
        return True

    def input_candidates(self, op):
        t = op.split(' ')
        if len(t) >= 4 and t[2] in ('parse', 'reparse') and t[3].startswith('x'):
            s = unhx(t[3]).decode('utf-8', 'replace')
            for i in range(len(s)):
                yield ' '.join(t[:3] + [hx(s[:i] + s[i + 1:])] + t[4:])

    def run(self, e, op, kind):
        """returns (shrunk espec, shrunk op, model answer, impl answer, builds used)"""
        self.ws.lock()
        try:
            e = copy.deepcopy(e)
            e.extra = dict(e.extra)
            if not self.still_fails(e, op, kind):
                return None  # not reproducible in isolation
            progress = True
            while progress and time.time() < self.deadline and self.builds < self.max_builds:
                progress = False
                for c in self.candidates(e, op):
                    if self.still_fails(c, op, kind):
                        e = c
                        progress = True
                        break
            if op and kind != 'compile_error':
                self.observe(e, op)  # make sure the binary on disk is the current candidate
                changed = True
                while changed and time.time() < self.deadline:
                    changed = False
                    for op2 in self.input_candidates(op):
                        # input shrinking does not need a rebuild: same binary
                        m = leanside.run_driver(e.model_lines() + [op2])[-1]
                        try:
                            shard_of = {e.id: 0}
                            i = runner.run_ops(self.ws, shard_of, [(e.id, op2)])[0]
                        except Exception:
                            break
                        if i is not None and m != i and not m.startswith('bad-'):
                            op = op2
                            changed = True
                            break
                # the binary on disk may belong to an earlier candidate: rebuild for the final observation
            m, i = self.observe(e, op)
            return e, op, m, i, self.builds
        finally:
            self.ws.unlock()
