"""Corpus generator for the string-producing derives (C02, C03, C07, C17)."""
import itertools
from .spec import ESpec, VSpec, hx, unhx
from .strcorpus import STYLES, STEMS, FIELD_NAMES, add_generic_field

KINDS = [('unit', []), ('tuple', ['u8']), ('tuple', ['String', 'i32']), ('tuple', ['bool', 'u8', 'OptU8']),
         ('named', ['i32']), ('named', ['u8', 'String']), ('named', ['String', 'bool', 'u8']), ('tuple', []), ('named', [])]

# naming attribute layouts: (serialize literals as length classes in written order, has to_string)
# S/M/L = short / medium / long literal; E = a literal with as many bytes as M but fewer chars (multi-byte)
NAMINGS = [((), False), ((), True), (('M',), False), (('S', 'L'), False), (('L', 'S'), False),
           (('S', 'M', 'L'), False), (('S', 'L', 'M'), False), (('M', 'S', 'L'), False), (('M', 'L', 'S'), False),
           (('L', 'S', 'M'), False), (('L', 'M', 'S'), False), (('M',), True), (('L', 'S'), True),
           (('U', 'A'), False), (('A', 'U'), False), (('B',), False), (('S', 'B'), False), ((), 'brace'), (('S',), 'brace')]
# out-of-quantifier probes (ties in length): last one wins in the implementation and in the model
TIE_NAMINGS = [(('M', 'N'), False), (('N', 'M'), False), (('M', 'N', 'S'), False)]

PREFIXES = [None, '', 'pre_', 'é-', 'm-', 's', 'long name of ', '{ ', '}}x{{']   # the last three are prefixes OF some canonical names (classes M, S, L)


def lit(cls, ident, k):
    base = ident.lower()
    return {
        'S': 's%d' % k,
        'M': 'm-%s' % base,
        'N': 'n-%s' % base,
        'L': 'long name of %s !' % base,
        'U': 'Éé%d' % (k % 10),        # 5 bytes, 3 chars; an upper-case non-ASCII letter (Unicode lower-casing would change it)
        'A': 'ab%d%d' % (k % 10, k % 7),  # 4 bytes, 4 chars: fewer bytes than U although more chars
        'B': '{{esc %s}} }}{{' % base,    # escaped braces only: a fixed name, printed verbatim by every derive
    }[cls]


def make_variant(k, stem_i, kind, naming, uniq=''):
    stem = STEMS[stem_i % len(STEMS)]
    ident = '%s%s%s' % (stem, chr(65 + k % 26), uniq)
    kname, ftypes = kind
    v = VSpec(ident=ident, kind=kname, ftypes=list(ftypes))
    if kname == 'named':
        v.fnames = FIELD_NAMES[:len(ftypes)]
        v.fdw = [None] * len(ftypes)
    sers, has_ts = naming
    v.ser = [lit(c, ident, k) for c in sers]
    if has_ts == 'brace':
        v.ts = 'begin { %s' % ident      # an opening brace that is never closed: no placeholder, a fixed name for every derive
    elif has_ts:
        v.ts = 'shown as %s' % ident
    return v


def build_enums(rng, tier, pid, derives, feats, passes=None, styles=None, prefixes=PREFIXES, per_enum=6,
                namings=NAMINGS, kinds=KINDS, generics_pool=('',), cis_mode='alt', disabled_some=True, ties=False):
    styles = styles or STYLES
    shapes = [(k, n) for k in kinds for n in namings]
    passes = passes if passes is not None else (3 if tier == 'quick' else 18)
    enums = []
    n = 0
    for ps in range(passes):
        order = list(shapes)
        if ps > 0:
            rng.shuffle(order)
        for i in range(0, len(order), per_enum):
            chunk = order[i:i + per_enum]
            eid = '%s%d' % (pid.lower(), n)
            e = ESpec(id=eid, name='En%s%d' % (pid, n), style=styles[(n + ps * 5) % len(styles)],
                      prefix=prefixes[(n + ps) % len(prefixes)], derives=list(derives), feats=list(feats),
                      generics=generics_pool[n % len(generics_pool)])
            if cis_mode == 'alt' and 'IntoStaticStr' in derives:
                e.cis = n % 2 == 0
            for k, (kind, naming) in enumerate(chunk):
                if naming[1] == 'brace' and '{' in (e.prefix or ''):
                    naming = (naming[0], True)   # `{ ` + `begin { x` would be two opening braces in a row: rejected by Display
                v = make_variant(k, n * 5 + k, kind, naming)
                if disabled_some and (n + k) % 9 == 4:
                    v.dis = True
                e.variants.append(v)
            add_generic_field(e)
            e.extra['shape'] = 'style=%s prefix=%r cis=%s gen=%s' % (e.style, e.prefix, e.cis, e.generics)
            enums.append(e)
            n += 1
    return enums


def naming_class(v: VSpec):
    if v.ts is not None and v.ser:
        return 'ser%d+ts' % len(v.ser)
    if v.ts is not None:
        return 'ts'
    if v.ser:
        lens = [len(s.encode()) for s in v.ser]
        order = 'last-longest' if lens[-1] == max(lens) else ('first-longest' if lens[0] == max(lens) else 'mid-longest')
        if len(set(lens)) != len(lens) and lens.count(max(lens)) > 1:
            order = 'tie'
        return 'ser%d-%s' % (len(v.ser), order)
    return 'ident'
