"""Input-string generators shared by the string properties (C01, C11, C12, C16, C18)."""
import itertools

# Unicode characters whose (Unicode) case mapping lands on / comes from an ASCII letter
LOOKALIKES = {
    'k': ['K'], 'K': ['K'],          # KELVIN SIGN lowercases to k
    's': ['ſ'], 'S': ['ſ'],          # LATIN SMALL LETTER LONG S uppercases to S
    'i': ['ı', 'İ'], 'I': ['İ', 'ı'],  # dotless i / dotted I
}

DICT_IDENTS = ['Red', 'RedBlue', 'HTTPServer', 'Foo2Bar', 'XMLHttpRequest', 'A1', 'snake_ident', 'Ab_cD', 'X', 'x9',
               'ABC', 'aBc', 'Abc_Def', 'Hello2You', 'IOError', 'Utf8', 'B2B', 'lowercase', 'UPPER', 'Mixed_Case_9',
               'Sketchy', 'Kiwi', 'Kiss', 'Iris', 'Ski', 'Task', 'Disk', 'Silk']


def letters_idx(s):
    return [i for i, c in enumerate(s) if c.isascii() and c.isalpha()]


def flip(s, idxs):
    cs = list(s)
    for i in idxs:
        cs[i] = cs[i].swapcase()
    return ''.join(cs)


def case_flips(s, max_full=6, rng=None, nrand=48):
    """every case flip of the ASCII letters of s when there are at most max_full of them, else the two
    extremes, single flips and nrand random ones"""
    li = letters_idx(s)
    k = len(li)
    out = []
    if k <= max_full:
        for mask in range(1 << k):
            out.append(flip(s, [li[j] for j in range(k) if mask >> j & 1]))
        return out, True
    seen = set()
    cand = [s, s.lower() if s.isascii() else flip(s, [i for i in li if s[i].isupper()]),
            flip(s, [i for i in li if s[i].islower()])]
    cand[1] = ''.join(c.lower() if c.isascii() else c for c in s)
    cand[2] = ''.join(c.upper() if c.isascii() else c for c in s)
    for i in li:
        cand.append(flip(s, [i]))
    for _ in range(nrand):
        cand.append(flip(s, [i for i in li if rng.random() < 0.5]))
    for c in cand:
        if c not in seen:
            seen.add(c)
            out.append(c)
    return out, False


EDIT_ALPHABET = ['a', 'A', 'é', ' ', '\x00', '_']


def one_edit_neighbours(s, limit=None):
    out = []
    n = len(s)
    for i in range(n):
        out.append(s[:i] + s[i + 1:])
    for i in range(n + 1):
        for c in EDIT_ALPHABET:
            out.append(s[:i] + c + s[i:])
    for i in range(n):
        for c in EDIT_ALPHABET:
            if s[i] != c:
                out.append(s[:i] + c + s[i + 1:])
    seen = set()
    res = []
    for x in out:
        if x not in seen and x != s:
            seen.add(x)
            res.append(x)
    if limit and len(res) > limit:
        step = len(res) / float(limit)
        res = [res[int(i * step)] for i in range(limit)]
    return res


def lookalike_subst(s):
    out = []
    for i, c in enumerate(s):
        for r in LOOKALIKES.get(c, []):
            out.append(s[:i] + r + s[i + 1:])
    if 'ss' in s.lower():
        j = s.lower().index('ss')
        out.append(s[:j] + 'ß' + s[j + 2:])
    # full Unicode case mappings when they differ from the ASCII fold
    for f in (str.lower, str.upper):
        t = f(s)
        a = ''.join((f(c) if c.isascii() else c) for c in s)
        if t != a:
            out.append(t)
    return out


def random_ascii(rng, maxlen=8):
    n = rng.randint(0, maxlen)
    return ''.join(chr(rng.randint(0x20, 0x7e)) for _ in range(n))


def random_unicode(rng, maxlen=6):
    n = rng.randint(0, maxlen)
    pool = 'aZ09_ -éßıK中\U0001f600́'
    return ''.join(rng.choice(pool) for _ in range(n))
