"""Mode A: a binary that includes strum_macros' helper and macro modules by path and runs them in-process."""
import os, subprocess, shutil, time, fcntl
from .runner import REPO, SCRATCH, VERIF, CARGO_ENV

DIR = os.path.join(SCRATCH, 'ws', 'modea')


def build():
    os.makedirs(os.path.join(DIR, 'src'), exist_ok=True)
    tmpl = open(os.path.join(VERIF, 'modea', 'main.rs.tmpl')).read().replace('@REPO@', REPO)
    from .runner import _write_if_changed
    _write_if_changed(os.path.join(DIR, 'src', 'main.rs'), tmpl)
    _write_if_changed(os.path.join(DIR, 'Cargo.toml'),
                      '[package]\nname = "modea"\nversion = "0.0.0"\nedition = "2021"\n\n[workspace]\n\n[dependencies]\n'
                      'heck = "0.5.0"\nproc-macro2 = "1.0"\nquote = "1.0"\nrustversion = "1.0"\n'
                      'syn = { version = "2.0", features = ["parsing", "full", "extra-traits"] }\n\n'
                      '[profile.dev]\ndebug = false\nopt-level = 1\nincremental = false\n')
    _write_if_changed(os.path.join(DIR, '.cargo', 'config.toml'),
                      '[net]\noffline = true\n[build]\ntarget-dir = "%s"\n' % os.path.join(SCRATCH, 'target-modea'))
    if not os.path.exists(os.path.join(DIR, 'Cargo.lock')):
        shutil.copy(os.path.join(REPO, 'Cargo.lock'), os.path.join(DIR, 'Cargo.lock'))
    # cargo does not track files pulled in through #[path] outside the package for rebuilds reliably: touch main.rs when any
    # macro source is newer than the binary
    binp = os.path.join(SCRATCH, 'target-modea', 'debug', 'modea')
    newest = 0
    for root, _, files in os.walk(os.path.join(REPO, 'strum_macros', 'src')):
        for f in files:
            newest = max(newest, os.path.getmtime(os.path.join(root, f)))
    if os.path.exists(binp) and newest > os.path.getmtime(binp):
        os.utime(os.path.join(DIR, 'src', 'main.rs'))
    t0 = time.time()
    lockf = open(os.path.join(SCRATCH, 'ws', 'modea.lock'), 'w')
    fcntl.flock(lockf, fcntl.LOCK_EX)
    try:
        p = subprocess.run(['cargo', 'build', '--offline', '-q'], cwd=DIR, env=CARGO_ENV, stdout=subprocess.PIPE,
                           stderr=subprocess.PIPE, text=True, timeout=1800)
    finally:
        lockf.close()
    return p.returncode == 0, p.stderr[-6000:], time.time() - t0, binp


def run(binp, lines, timeout=1800):
    p = subprocess.run([binp], input='\n'.join(lines) + '\n', stdout=subprocess.PIPE, stderr=subprocess.PIPE, text=True, timeout=timeout)
    if p.returncode != 0:
        raise RuntimeError('mode A binary failed: rc=%s %s' % (p.returncode, p.stderr[-2000:]))
    return p.stdout.splitlines()
