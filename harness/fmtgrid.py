"""Format-spec grids for the `show` / `fwd` ops: "fill,align,width,prec,zero"."""

def spec_grid(tier, small=False):
    fa = [(0, 0), (0, 1), (0, 2), (0, 3), (1, 1), (1, 2), (1, 3), (2, 1), (2, 2), (2, 3)]
    if tier == 'thorough' and not small:
        widths = list(range(-1, 17))
        precs = list(range(-1, 9))
    elif small:
        widths = [-1, 0, 2, 7]
        precs = [-1, 0, 3]
    else:
        widths = [-1, 0, 1, 3, 5, 8, 16]
        precs = [-1, 0, 1, 2, 4, 8]
    out = []
    for f, a in fa:
        for w in widths:
            for p in precs:
                for z in (0, 1):
                    if w < 0 and (f, a, z) != (0, 0, 0):
                        continue  # without a width, fill/align/zero are unobservable: one representative
                    out.append('%d,%d,%d,%d,%d' % (f, a, w, p, z))
    return out
