"""Verdict logic shared by all property checks (DESIGN.md §2.3)."""
import os, sys, json, time, hashlib, random, traceback
from . import leanside, runner, rustgen
from .spec import ESpec

VERIF = os.path.dirname(os.path.dirname(os.path.abspath(__file__)))
EVIDENCE_DIR = os.path.join(VERIF, 'evidence')
REPLAY_DIR = os.path.join(VERIF, 'replays')
KNOWN = os.path.join(VERIF, 'known_findings.json')

TRUSTED_BASE = [
    'Lean 4.33.0 kernel; axioms limited to propext, Classical.choice, Quot.sound (checked per theorem with #print axioms on every run)',
    'hand-written Lean model of strum_macros (gen) and of the rustc/core semantics of the emitted constructs (eval)',
    'correspondence check: Python generator/renderer/differ, generated Rust drivers, cargo/rustc executing the real derives from /repo working tree',
    'Lean compiler for the model driver executable',
]


class Op:
    __slots__ = ('eid', 'line', 'cls', 'verdict')

    def __init__(self, eid, args, cls='', verdict=True):
        self.eid = eid
        self.line = 'op %s %s' % (eid, args)
        self.cls = cls
        self.verdict = verdict  # False: out-of-domain probe, compared but never raises an alarm


NOISE_DOCS = [' noise doc', 'second noise line', ' {braces} "q"']


def add_noise(e: ESpec):
    """Sprinkle attributes that the enum's derives must ignore or that the model handles anyway (deterministic in the
    enum id): shared helpers parse every attribute for every derive, so a change made for one derive can leak into another."""
    import hashlib
    h = int(hashlib.sha1(e.id.encode()).hexdigest(), 16)
    if e.extra.get('no_noise'):
        return
    # declared through a macro_rules! wrapper that supplies the derives (semantics-preserving, so on every second enum)
    if 'via_macro' not in e.extra and not e.extra.get('pre_items'):
        e.extra['via_macro'] = bool((h >> 66) & 1)
    # `#[strum(crate = "::strum")]` names the crate every other enum uses implicitly
    if 'strum_path' not in e.extra and (h >> 70) % 4 == 0:
        e.extra['strum_path'] = '::strum'
    if h % 2 != 0:
        return
    consumes = set(e.derives)
    for k, v in enumerate(e.variants):
        r = (h >> (k * 5)) & 31
        if 'EnumString' not in consumes and v.ci is None and r & 1:
            v.ci = bool(r & 2)
        if 'EnumMessage' not in consumes:
            if v.msg is None and r & 4:
                v.msg = 'noise message %d' % k
            if v.det is None and r & 8:
                v.det = 'noise detail %d' % k
            if not v.docs and r & 16:
                v.docs = NOISE_DOCS[:1 + k % 3]
        if 'EnumProperty' not in consumes and not v.props and r & 2:
            v.props = [('noise', 's', 'v%d' % k), ('n', 'i', k - 2)]
        if v.attr_layout == 'one':
            v.attr_layout = ['one', 'split', 'rev', 'revsplit'][(r >> 1) % 4]
        # `default` / `transparent` are consumed by EnumString / Display / AsRefStr / IntoStaticStr / ToString only
        if len(v.ftypes) == 1:
            ni = e.extra.setdefault('noise_items', {})
            if r & 1 and not ni and not v.default and not (consumes & {'EnumString', 'Display', 'ToString'}):
                ni[v.ident] = ['default']
            elif r & 16 and not v.tr and v.ident not in ni and not (consumes & {'Display', 'AsRefStr', 'IntoStaticStr', 'AsStaticStr', 'ToString'}):
                ni[v.ident] = ['transparent']
        # `default_with` (variant level for one-field tuples, field level for named fields) is EnumString's alone
        if 'EnumString' not in consumes and r & 4:
            simple = ('u8', 'i32', 'bool', 'String', 'u16', 'i64')
            if v.kind == 'tuple' and len(v.ftypes) == 1 and v.ftypes[0] in simple and v.dw is None:
                v.dw = 'mk_%s_%s' % (v.ftypes[0].lower(), v.ident.lower())
            elif v.kind == 'named' and v.ftypes and v.ftypes[0] in simple and v.fdw and v.fdw[0] is None:
                v.fdw[0] = 'mk_%s_%s_0' % (v.ftypes[0].lower(), v.ident.lower())
        # non-string doc attributes must not disturb attribute collection
        if r & 8:
            e.extra.setdefault('variant_attrs', {}).setdefault(v.ident, []).append(['#[doc(hidden)]', '#[doc(alias = "noise")]'][k % 2])
    if e.err and 'err_form' not in e.extra:
        e.extra['err_form'] = ['plain', 'path', 'generic', 'argfn', 'strumerr', 'assoc'][(h >> 62) % 6]
    if 'gen_default' not in e.extra:
        e.extra['gen_default'] = bool((h >> 60) & 1)
    if 'eattr_layout' not in e.extra:
        e.extra['eattr_layout'] = ['one', 'split', 'rev', 'revsplit'][(h >> 48) % 4]
    # attributes of other tools on fields (before / after a field's own strum attribute), on the enum and on variants
    for k, v in enumerate(e.variants):
        if v.kind == 'named':
            for i in range(len(v.ftypes)):
                if (h >> ((k * 3 + i) % 60)) & 1:
                    e.extra.setdefault('field_attrs', {})['%s.%d' % (v.ident, i)] = ['#[allow(dead_code)]', '#[doc = "field doc"]', '#[cfg_attr(all(), allow(unused))]'][(k + i) % 3]
    if (h >> 52) & 1:
        e.extra['enum_attrs'] = list(e.extra.get('enum_attrs', [])) + ['#[allow(dead_code)]', '#[cfg_attr(all(), non_exhaustive)]'][: 1 + ((h >> 53) & 1)]
    for k, v in enumerate(e.variants):
        if (h >> (56 + k % 8)) & 1:
            lst = e.extra.setdefault('variant_attrs', {}).setdefault(v.ident, [])
            a = ['#[allow(dead_code)]', '#[cfg(all())]', '#[cfg_attr(all(), allow(unused))]', '#[deprecated = "noise note"]'][(k + h) % 4]
            if a not in lst:
                lst.append(a)
    # the enum's own visibility is copied to generated items and decides nothing else
    if 'vis' not in e.extra:
        e.extra['vis'] = ['pub', 'pub(crate)', 'pub(super)', 'pub(in crate)'][(h >> 44) % 4]
    if 'EnumString' not in consumes and (h >> 40) & 1:
        e.ci = True
    if 'EnumString' not in consumes and (h >> 41) & 1:
        e.phf = True   # only EnumString reads `use_phf` (and needs the phf feature for it)
    e.extra['noise'] = True


class Corpus:
    def __init__(self):
        self.especs = []
        self.ops = []
        self.by_id = {}

    def add(self, e: ESpec, in_domain=True):
        assert e.id not in self.by_id, e.id
        # the NAME of the enum's lifetime parameter (generated impl headers add lifetimes of their own): semantics-free, so
        # rotated over every enum of the corpus that has one
        if 'lt_name' not in e.extra and (e.generics in ('lt', 'lt_ty') or any(t == 'RefStr' for v in e.variants for t in v.ftypes)):
            self.n_lt = getattr(self, 'n_lt', 0)
            e.extra['lt_name'] = ['a', 's', 'e', 'de', 'b', 'input'][self.n_lt % 6]
            self.n_lt += 1
        add_noise(e)
        e.extra.setdefault('in_domain', in_domain)
        self.especs.append(e)
        self.by_id[e.id] = e

    def op(self, eid, args, cls='', verdict=True):
        self.ops.append(Op(eid, args, cls, verdict))


def load_known():
    try:
        return json.load(open(KNOWN))
    except FileNotFoundError:
        return {'findings': []}


def write_replay(pid, payload):
    os.makedirs(REPLAY_DIR, exist_ok=True)
    h = hashlib.sha1(json.dumps(payload, sort_keys=True, default=str).encode()).hexdigest()[:12]
    path = os.path.join(REPLAY_DIR, '%s-%s.json' % (pid, h))
    with open(path, 'w') as f:
        json.dump(payload, f, indent=1, default=str)
    return path


class Result:
    """Accumulates what one check run observed."""

    def __init__(self, pid, tier, seed):
        self.pid, self.tier, self.seed = pid, tier, seed
        self.t0 = time.time()
        self.violations = []  # (replay payload, no_failing_input: bool)
        self.known_seen = []
        self.cov = {}
        self.samples = []
        self.assumptions = []
        self.proof = None
        self.notes = []

    def violation(self, payload, no_failing_input=False):
        payload = dict(payload)
        payload.setdefault('property', self.pid)
        payload.setdefault('tier', self.tier)
        payload.setdefault('seed', self.seed)
        self.violations.append((payload, no_failing_input))

    def finish(self, level='proof'):
        """match violations against known findings, print verdict lines, write evidence; returns exit code"""
        known = load_known()
        rc = 0
        printed = set()
        reported = 0
        for payload, nfi in self.violations:
            kf = match_known(self.pid, payload, known)
            if kf is not None:
                key = kf['id']
                if key not in printed:
                    printed.add(key)
                    print('KNOWN-FINDING: property=%s %s' % (self.pid, kf['what']))
                self.known_seen.append(key)
                continue
            rc = 1
            reported += 1
            if reported <= 5:
                path = write_replay(self.pid, payload)
                print('VIOLATION property=%s replay=%s%s' % (self.pid, path, ' no-failing-input-found' if nfi else ''))
        cov = dict(self.cov)
        cov.setdefault('samples', self.samples[:12] or ['(none)'])
        cov['trusted_base'] = TRUSTED_BASE
        cov['known_findings_seen'] = sorted(set(self.known_seen))
        if self.proof is not None:
            cov['obligations'] = len(self.proof['theorems'])
            cov['discharged'] = sum(1 for t in self.proof['theorems'] if t['ok'])
            cov['theorems'] = self.proof['theorems']
            cov['checker_cmd'] = 'cd /verif/lean && lake build StrumProofs.%s driver && lake env lean <#print axioms for each theorem in theorems.json[%s]>' % (self.pid, self.pid)
        ev = {
            'property_id': self.pid, 'tier': self.tier, 'seed': self.seed, 'level': level,
            'coverage': cov, 'assumptions': self.assumptions, 'wall_s': round(time.time() - self.t0, 2),
            'violations': sum(1 for p, _ in self.violations if match_known(self.pid, p, known) is None),
            'notes': self.notes,
        }
        os.makedirs(EVIDENCE_DIR, exist_ok=True)
        with open(os.path.join(EVIDENCE_DIR, '%s.json' % self.pid), 'w') as f:
            json.dump(ev, f, indent=1, default=str)
        if rc == 0:
            print('OK property=%s tier=%s wall=%.1fs %s' % (self.pid, self.tier, time.time() - self.t0,
                                                         ' '.join('%s=%s' % (k, cov[k]) for k in ('programs', 'evaluations', 'distinct_nontrivial', 'obligations', 'discharged') if k in cov)))
        return rc


def match_known(pid, payload, known):
    for kf in known.get('findings', []):
        if kf.get('status') != 'known' or kf.get('property') != pid:
            continue
        sig = kf.get('signature', {})
        if sig.get('kind') and sig['kind'] != payload.get('kind'):
            continue
        mc = sig.get('message_contains')
        if mc and mc not in json.dumps(payload.get('impl', '')) + json.dumps(payload.get('errors', '')):
            continue
        pred = sig.get('pred')
        if pred:
            from . import known_preds
            if not getattr(known_preds, pred)(payload):
                continue
        return kf
    return None


def proof_stage(res: Result, pid, extra_targets=()):
    """lake build of the property's proof module and the driver, grep audit, axiom audit."""
    ok, log, wall = leanside.lake_build(['StrumProofs.%s' % pid, 'driver'] + list(extra_targets))
    res.cov['lean_build_s'] = round(wall, 1)
    if not ok:
        res.proof = {'theorems': [{'name': n, 'axioms': None, 'ok': False} for n in leanside.theorems_for(pid)]}
        res.violation({'kind': 'proof_broken', 'what': 'lake build StrumProofs.%s driver failed' % pid,
                       'theorems': leanside.theorems_for(pid), 'log': log[-6000:]}, no_failing_input=True)
        return False
    hits = leanside.grep_forbidden()
    if hits:
        res.violation({'kind': 'audit', 'what': 'forbidden constructs in Lean sources', 'hits': hits}, no_failing_input=True)
        return False
    a = leanside.audit(pid)
    res.proof = a
    if res.tier == 'thorough':
        # independent re-check of the compiled proof module by the toolchain's leanchecker
        ok2, log2, wall2 = leanside.leanchecker('StrumProofs.%s' % pid)
        res.cov['leanchecker'] = {'module': 'StrumProofs.%s' % pid, 'ok': ok2, 'wall_s': round(wall2, 1)}
        if not ok2:
            res.violation({'kind': 'proof_broken', 'what': 'leanchecker rejected StrumProofs.%s' % pid, 'log': log2[-3000:],
                           'theorems': leanside.theorems_for(pid)}, no_failing_input=True)
            return False
    if not a['ok']:
        res.violation({'kind': 'proof_broken', 'what': 'axiom audit failed', 'theorems': a['theorems'], 'log': a['log']},
                      no_failing_input=True)
        return False
    return True


def correspond(res: Result, corpus: Corpus, ws: runner.Workspace, nshards=16, label='', gen_cls=rustgen.EnumGen,
               strum_path='strum', expect_compile_fail=None, canon=None, model_lines_extra=None):
    """Run the corpus through model and implementation, compare.  Records disagreements as violations.
    Returns dict with outputs for further (property-specific) analysis."""
    especs = corpus.especs
    # model side
    lines = []
    for e in especs:
        lines += e.model_lines()
    lines += [o.line for o in corpus.ops]
    t0 = time.time()
    mout = leanside.run_driver(lines)
    t_model = time.time() - t0
    if len(mout) != len(corpus.ops):
        raise RuntimeError('model driver returned %d lines for %d ops; first lines: %r' % (len(mout), len(corpus.ops), mout[:5]))
    # implementation side
    ws.lock()
    try:
        shard_of, failed, bstats = runner.build_corpus(ws, especs, nshards=nshards, gen_cls=gen_cls, strum_path=strum_path)
        t1 = time.time()
        iout = runner.run_ops(ws, shard_of, [(o.eid, o.line) for o in corpus.ops])
        t_run = time.time() - t1
    finally:
        ws.unlock()
    # compile failures
    model_ce = {}
    for o, m in zip(corpus.ops, mout):
        if m.startswith('CE:'):
            model_ce.setdefault(o.eid, m)
    n_cf = 0
    for eid, errs in failed.items():
        e = corpus.by_id[eid]
        n_cf += 1
        if eid in model_ce:
            continue  # the model predicts a compile error for this definition
        if not e.extra.get('in_domain', True):
            continue
        res.violation({'kind': 'compile_error', 'label': label, 'enum': e.to_json(), 'rust': gen_cls(e, strum_path).render(),
                       'errors': errs[:3], 'what': 'in-domain definition does not compile'})
    for eid, m in model_ce.items():
        e = corpus.by_id[eid]
        if eid not in failed and e.extra.get('in_domain', True):
            res.violation({'kind': 'model_disagreement', 'label': label, 'enum': e.to_json(), 'model': m,
                           'impl': 'compiles', 'what': 'model predicts a compile error, implementation compiles'})
    # compare
    n_cmp = 0
    dis = []
    for k, o in enumerate(corpus.ops):
        if iout[k] is None:
            continue
        a, b = mout[k], iout[k]
        if canon:
            a, b = canon(a), canon(b)
        n_cmp += 1
        if a != b:
            dis.append(k)
    seen_enum = set()
    for k in dis:
        o = corpus.ops[k]
        e = corpus.by_id[o.eid]
        if not o.verdict or not e.extra.get('in_domain', True):
            res.notes.append('out-of-domain difference (no verdict): %s model=%s impl=%s' % (o.line, mout[k], iout[k]))
            continue
        if o.eid in seen_enum and len(seen_enum) > 20:
            continue
        seen_enum.add(o.eid)
        res.violation({'kind': 'disagreement', 'label': label, 'enum': e.to_json(), 'op': o.line, 'cls': o.cls,
                       'model': mout[k], 'impl': iout[k], 'rust': gen_cls(e, strum_path).render(),
                       'what': 'implementation differs from the model (= spec by theorem) on an in-domain input'})
    # shrink the first new (not known) failure to a small definition / input
    try:
        _shrink_first(res, corpus, ws, gen_cls, strum_path, label)
    except Exception as ex:  # shrinking is best effort; it never changes the verdict
        res.notes.append('shrinking failed: %r' % ex)
    res.cov['programs'] = res.cov.get('programs', 0) + len(especs)
    res.cov['evaluations'] = res.cov.get('evaluations', 0) + n_cmp
    res.cov['disagreements_checked'] = res.cov.get('disagreements_checked', 0) + n_cmp
    res.cov['compile_failures'] = res.cov.get('compile_failures', 0) + n_cf
    res.cov.setdefault('timing', {})[label or ws.key] = {'model_s': round(t_model, 2), 'build_s': round(bstats['wall_s'], 1),
                                                          'run_s': round(t_run, 2), 'build_rounds': bstats['rounds']}
    return {'model': mout, 'impl': iout, 'failed': failed, 'disagreements': dis}


def _shrink_first(res, corpus, ws, gen_cls, strum_path, label):
    from . import shrink
    from .spec import espec_from_json
    known = load_known()
    for payload, nfi in res.violations:
        if payload.get('label') != label or payload.get('kind') not in ('disagreement', 'compile_error') or 'enum' not in payload:
            continue
        if payload.get('shrunk') is not None or match_known(res.pid, payload, known) is not None:
            continue
        e = espec_from_json(payload['enum'])
        sh = shrink.Shrinker(ws.key, ws.kwargs(), gen_cls=gen_cls, strum_path=strum_path)
        r = sh.run(e, payload.get('op'), payload['kind'])
        if r is None:
            payload['shrunk'] = 'not reproducible in isolation'
        else:
            e2, op2, m, i, builds = r
            payload['shrunk'] = {'enum': e2.to_json(), 'op': op2, 'model': m, 'impl': i, 'rust': gen_cls(e2, strum_path).enum_source(),
                                 'builds': builds, 'variants_before': len(e.variants), 'variants_after': len(e2.variants)}
        return


def distribution(corpus: Corpus, mout):
    """input-class × model-answer-kind table, and the distinct non-trivial count"""
    table = {}
    distinct = set()
    for o, m in zip(corpus.ops, mout):
        t0 = m.split(' ')[0]
        if t0.startswith('x') or '=' in t0:
            kind = 'text'
        else:
            kind = t0 + ('-' + m.split(' ')[1] if m.startswith('err ') else '')
        key = '%s/%s' % (o.cls or '-', kind)
        table[key] = table.get(key, 0) + 1
        e = corpus.by_id[o.eid]
        shape = e.extra.get('shape', e.id)
        distinct.add((shape, o.cls, kind))
    return table, distinct
