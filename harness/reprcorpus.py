"""Corpora for FromRepr (C06) and EnumDiscriminants (C09)."""
from .spec import ESpec, VSpec, hx
from .strcorpus import FIELD_NAMES
from .itercorpus import PLACEMENTS

REPRS = [None, 'u8', 'i8', 'u16', 'i16', 'u32', 'i32', 'u64', 'i64', 'usize', 'isize']
RANGE = {'u8': (0, 255), 'i8': (-128, 127), 'u16': (0, 65535), 'i16': (-32768, 32767), 'u32': (0, 2 ** 32 - 1),
         'i32': (-2 ** 31, 2 ** 31 - 1), 'u64': (0, 2 ** 64 - 1), 'i64': (-2 ** 63, 2 ** 63 - 1),
         'usize': (0, 2 ** 64 - 1), 'isize': (-2 ** 63, 2 ** 63 - 1),
         # no repr: the enum's discriminants are isize, from_repr takes usize: the common range
         None: (0, 2 ** 63 - 1)}
KINDS = [('unit', []), ('tuple', ['u8']), ('named', ['i32', 'String']), ('unit', []), ('tuple', ['bool', 'u16']), ('tuple', []), ('named', [])]


def layouts(repr_, n):
    """discriminant layouts: list of (value or None, expr text or None) of length n"""
    lo, hi = RANGE[repr_]
    signed = lo < 0
    out = {'implicit': [(None, None)] * n}
    if n >= 1:
        out['first-explicit'] = [(5, None)] + [(None, None)] * (n - 1)
        out['last-max'] = [(None, None)] * (n - 1) + [(hi if repr_ else 1000, None)]
    if n >= 3:
        out['gapped'] = [((i // 2) * 10 + 1, None) if i % 2 == 0 else (None, None) for i in range(n)]
        out['descending'] = [(100 - 10 * i, None) for i in range(n)]
        if repr_ in ('u8', 'i8', 'u16', 'i16'):
            bits = 8 if repr_.endswith('8') else 16
            # `!0`, a shift into the sign bit, MAX / MIN: the value depends on the TYPE the expression is evaluated in
            if not signed:
                out['typed-expr'] = [(None, None)] * (n - 1) + [(hi, '!0')]
            else:
                out['typed-expr'] = ([(lo, '1 << %d' % (bits - 1)), (None, None), (-1, '!0'), (None, None), (hi, '%s::MAX' % repr_)] + [(None, None)] * n)[:n]
                if n > 5:
                    out['typed-expr'] = out['typed-expr'][:4] + [(None, None)] * (n - 5) + [(hi, '%s::MAX' % repr_)]
        out['expr'] = [(8, '1 << 3'), (None, None), (40, 'BASE' if repr_ else '20 * 2'), (None, None)][:n] + [(None, None)] * max(0, n - 4)
        if signed:
            out['negative'] = [(-5, None), (None, None), (None, None), (3, None)][:n] + [(None, None)] * max(0, n - 4)
            out['neg-expr'] = [(-3, '-5 + 2')] + [(None, None)] * (n - 1)
            out['min-first'] = [(lo if repr_ else -1000, None)] + [(None, None)] * (n - 1)
    return out


def discr_values(vs):
    out = []
    prev = None
    for v in vs:
        x = v.discr if v.discr is not None else (0 if prev is None else prev + 1)
        out.append(x)
        prev = x
    return out


def make_enum(eid, name, n, repr_, layout_name, layout, placement, unit_only, derives, feats, generics=''):
    e = ESpec(id=eid, name=name, repr=repr_, derives=list(derives), feats=list(feats), generics=generics)
    pl = PLACEMENTS[placement]
    uses_base = False
    off = sum(map(ord, eid)) % len(KINDS)   # small enums reach every kind (V() and V {} too)
    for i in range(n):
        kind = ('unit', []) if unit_only else KINDS[(i + off) % len(KINDS)]
        v = VSpec(ident='V%d' % i, kind=kind[0], ftypes=list(kind[1]))
        if kind[0] == 'named':
            v.fnames, v.fdw = FIELD_NAMES[:len(kind[1])], [None] * len(kind[1])
        val, expr = layout[i]
        v.discr = val
        if expr:
            v.discr_expr = expr
            uses_base |= 'BASE' in expr
        v.dis = bool(pl(i, n))
        e.variants.append(v)
    if generics in ('ty', 'where', 'ty_nd', 'const'):
        tv = [v for v in e.variants if v.kind == 'tuple' and v.ftypes]
        if tv:
            tv[0].ftypes[0] = {'ty': 'T', 'where': 'T', 'ty_nd': 'OptT', 'const': 'Cg'}[generics]
        else:
            e.generics = ''
    if uses_base:
        e.extra['pre_items'] = ['const BASE: %s = 40;' % (repr_ or 'isize')]
    e.extra['shape'] = 'n=%d repr=%s layout=%s placement=%s unit_only=%s gen=%s' % (n, repr_, layout_name, placement, unit_only, generics)
    return e
