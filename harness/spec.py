"""Abstract enum definitions shared by the Rust renderer and the model-line renderer.

One ESpec is rendered twice: to Rust source (rustgen.py) and to `enum`/`variant` protocol lines for the
Lean driver (to_model_lines below).  All literal strings are Python `str` (valid Unicode); the protocol
carries them as `x<hex of UTF-8>`.
"""
from dataclasses import dataclass, field
from typing import Optional, List, Tuple


def hx(s) -> str:
    if isinstance(s, str):
        s = s.encode('utf-8')
    return 'x' + s.hex()


def unhx(t: str) -> bytes:
    assert t.startswith('x'), t
    return bytes.fromhex(t[1:])


def opt(s):
    return '-' if s is None else hx(s)


def lst(xs):
    return '-' if not xs else ','.join(hx(x) for x in xs)


def rust_str(s: str) -> str:
    """A Rust string literal denoting exactly `s`; the spelling (escapes / literal UTF-8 / raw string) varies with the
    content's hash so that every corpus writes its literals in all three ways."""
    import zlib
    form = zlib.crc32(s.encode('utf-8', 'surrogatepass')) % 5
    plain = all(0x20 <= ord(ch) < 0x7f or ord(ch) >= 0xa0 for ch in s)
    if form == 3 and plain:
        n = 0
        while '"' + '#' * n in s:
            n += 1
        if n or '\\' in s or '"' in s or form == 3:
            return 'r%s"%s"%s' % ('#' * n, s, '#' * n)
    if form == 4 and plain:
        return '"%s"' % s.replace('\\', '\\\\').replace('"', '\\"')
    out = ['"']
    for ch in s:
        o = ord(ch)
        if ch == '"':
            out.append('\\"')
        elif ch == '\\':
            out.append('\\\\')
        elif 0x20 <= o < 0x7f:
            out.append(ch)
        else:
            out.append('\\u{%x}' % o)
    out.append('"')
    return ''.join(out)


# field type palette: key -> (rust type, non-default value expr, second non-default value expr)
PALETTE = {
    'u8': ('u8', '7u8', '9u8'),
    'i32': ('i32', '-3i32', '11i32'),
    'bool': ('bool', 'true', 'true'),
    'String': ('String', 'String::from("dw")', 'String::from("zz")'),
    'OptU8': ('Option<u8>', 'Some(1u8)', 'Some(2u8)'),
    'u16': ('u16', '513u16', '77u16'),
    'i64': ('i64', '-5i64', '6i64'),
    'T': ('T', None, None),  # type parameter, instantiated at u16
    'Host': ('Host', 'Host(7)', 'Host(9)'),  # inherent `default` / `clone` / `to_string` / `eq` that disagree with its trait impls
}


@dataclass
class VSpec:
    ident: str
    kind: str = 'unit'  # unit | tuple | named
    ftypes: List[str] = field(default_factory=list)
    fnames: List[str] = field(default_factory=list)
    fdw: List[Optional[str]] = field(default_factory=list)  # field-level default_with (named only)
    discr: Optional[int] = None
    discr_expr: Optional[str] = None  # Rust text of the discriminant expression (defaults to str(discr))
    ser: List[str] = field(default_factory=list)
    ts: Optional[str] = None
    dis: bool = False
    default: bool = False
    tr: bool = False
    ci: Optional[bool] = None
    dw: Optional[str] = None
    msg: Optional[str] = None
    det: Optional[str] = None
    docs: List[str] = field(default_factory=list)
    props: List[Tuple[str, str, object]] = field(default_factory=list)  # (key, 's'|'i'|'b', value)
    # order in which serialize / to_string attributes are written is ser..., then ts (model is order-insensitive
    # between the two kinds because the macro pushes to_string after all serialize values)
    attr_layout: str = 'one'  # 'one' = single #[strum(..)], 'split' = one attribute per item

    def arity(self):
        return 0 if self.kind == 'unit' else len(self.ftypes)

    def strum_groups(self, e):
        """The #[strum(..)] attributes of this variant AS WRITTEN: (props part, items part), each a list of groups (one
        group = one attribute) of (kind, value) items in source order.  Rendered to Rust by rustgen and handed to the
        Lean model as a `rawvariant` line (StrumModel/Collect.lean collects them the way get_variant_properties does)."""
        items = [('ser', s) for s in self.ser]
        if self.ts is not None:
            items.append(('ts', self.ts))
        if self.dis:
            items.append(('dis', None))
        if self.default:
            items.append(('def', None))
        if self.tr:
            items.append(('tr', None))
        # items no derive of this enum consumes (noise pass)
        items += [({'default': 'def', 'transparent': 'tr'}[x], None) for x in e.extra.get('noise_items', {}).get(self.ident, [])]
        if self.ci is not None:
            items.append(('ci', self.ci))
        if self.dw is not None:
            items.append(('dw', self.dw))
        if self.msg is not None:
            items.append(('msg', self.msg))
        if self.det is not None:
            items.append(('det', self.det))
        pgroups = []
        sizes = e.extra.get('prop_groups', {}).get(self.ident)
        props = list(self.props)
        if props:
            if not sizes:
                sizes = [len(props)]
            # what sits between two props groups: nothing / another (unconsumed) strum item as its own attribute /
            # the groups and that item in ONE list
            inter = e.extra.get('prop_interleave', {}).get(self.ident)
            seps = []
            if inter:
                # every single-use item may occur once per variant
                if 'EnumMessage' not in e.derives and self.det is None:
                    seps.append(('det', 'between groups'))
                if 'EnumMessage' not in e.derives and self.msg is None:
                    seps.append(('msg', 'between groups'))
                if 'EnumString' not in e.derives and self.ci is None:
                    seps.append(('ci', False))
                seps.append(('ser', 'between groups'))
            bodies, i = [], 0
            for gsz in sizes:
                chunk = props[i:i + gsz]
                i += gsz
                if chunk:
                    bodies.append(('props', chunk))
            if seps and inter == 'list' and len(bodies) > 1:
                parts = [bodies[0]]
                for bi, body in enumerate(bodies[1:]):
                    parts += [seps[min(bi, len(seps) - 1)], body]
                pgroups.append(parts)
            else:
                for bi, body in enumerate(bodies):
                    if seps and bi > 0:
                        pgroups.append([seps[min(bi - 1, len(seps) - 1)]])
                    pgroups.append([body])
        if items and self.attr_layout in ('rev', 'revsplit'):
            # reverse the order of the single-use items (the relative order of the serialize literals is observable
            # and therefore kept)
            sers = [i for i in items if i[0] == 'ser']
            rest = [i for i in items if i[0] != 'ser']
            items = list(reversed(rest)) + sers
        igroups = []
        if items:
            igroups = [[it] for it in items] if self.attr_layout in ('split', 'revsplit') else [items]
        return pgroups, igroups

    def raw_attrs_token(self, e):
        pg, ig = self.strum_groups(e)
        def item(it):
            k, val = it
            if k in ('dis', 'def', 'tr'):
                return k
            if k == 'ci':
                return 'ci~%d' % (1 if val else 0)
            if k == 'props':
                return 'props~' + VSpec(ident='', props=list(val)).props_token()
            return '%s~%s' % (k, hx(val))
        return '|'.join(';'.join(item(it) for it in g) for g in pg + ig) or '-'

    def kind_token(self):
        if self.kind == 'unit':
            return 'unit'
        if self.kind == 'tuple':
            return 'tuple:%d' % len(self.ftypes)
        parts = []
        for i, n in enumerate(self.fnames):
            dw = self.fdw[i] if i < len(self.fdw) else None
            parts.append(hx(n) + ('/' + hx(dw) if dw else ''))
        return 'named:' + ','.join(parts)

    def props_token(self):
        if not self.props:
            return '-'
        out = []
        for k, t, v in self.props:
            if t == 's':
                out.append('%s:s:%s' % (hx(k), hx(v)))
            elif t == 'i':
                out.append('%s:i:%d' % (hx(k), v))
            else:
                out.append('%s:b:%d' % (hx(k), 1 if v else 0))
        return ','.join(out)

    def raw_model_line(self, e):
        return ('rawvariant %s ident=%s kind=%s discr=%s doc=%s attrs=%s'
                % (e.id, hx(self.ident), self.kind_token(), '-' if self.discr is None else str(self.discr), lst(self.docs),
                   self.raw_attrs_token(e)))

    def model_line(self, eid):
        b = lambda x: '1' if x else '0'
        ci = '-' if self.ci is None else b(self.ci)
        return ('variant %s ident=%s kind=%s discr=%s ser=%s ts=%s dis=%s def=%s tr=%s ci=%s dw=%s msg=%s det=%s doc=%s props=%s'
                % (eid, hx(self.ident), self.kind_token(), '-' if self.discr is None else str(self.discr),
                   lst(self.ser), opt(self.ts), b(self.dis), b(self.default), b(self.tr), ci, opt(self.dw),
                   opt(self.msg), opt(self.det), lst(self.docs), self.props_token()))


@dataclass
class ESpec:
    id: str
    name: str
    variants: List[VSpec] = field(default_factory=list)
    style: Optional[str] = None  # the serialize_all string as written
    ci: bool = False
    prefix: Optional[str] = None
    phf: bool = False
    err: bool = False  # custom parse error
    repr: Optional[str] = None
    cis: bool = False  # const_into_str
    generics: str = ''  # '' | 'lt' | 'ty' | 'const' | 'where'
    derives: List[str] = field(default_factory=list)
    feats: List[str] = field(default_factory=list)  # driver capabilities to generate
    tags: List[str] = field(default_factory=list)  # free-form labels for the distribution table
    extra: dict = field(default_factory=dict)

    def repr_attrs(self):
        """the #[repr(..)] attributes as written: a list (one entry per attribute) of lists of hints"""
        if self.extra.get('repr_attrs'):
            return [list(a) for a in self.extra['repr_attrs']]
        if self.extra.get('repr_raw'):
            return [[h.strip() for h in self.extra['repr_raw'].split(',')]]
        return [[self.repr]] if self.repr else []

    def strum_groups(self, strum_path='strum', err_forms=None):
        """the enum-level #[strum(..)] attributes AS WRITTEN: list of groups (one per attribute) of (kind, value) items"""
        items = []
        if self.style is not None:
            items.append(('sa', self.style))
        if self.ci:
            items.append(('ci', None))
        if self.prefix is not None:
            items.append(('pfx', self.prefix))
        if self.phf:
            items.append(('phf', None))
        if self.err:
            items += [('pty', None), ('pfn', None)]
        if self.cis:
            items.append(('cis', None))
        if strum_path != 'strum':
            items.append(('crate', strum_path))
        lay = self.extra.get('eattr_layout', 'one')
        if lay in ('rev', 'revsplit'):
            items = list(reversed(items))
        if not items:
            return []
        return [[it] for it in items] if lay in ('split', 'revsplit') else [items]

    def raw_model_line(self):
        def item(it):
            k, val = it
            if k == 'sa':
                return 'sa~' + hx(val)
            if k == 'pfx':
                return 'pfx~' + hx(val)
            if k == 'crate':
                return 'crate'
            return k
        attrs = '|'.join(';'.join(item(it) for it in g) for g in self.strum_groups(self.extra.get('strum_path', 'strum'))) or '-'
        ra = '/'.join('+'.join(h.replace('(', '').replace(')', '') for h in a) for a in self.repr_attrs()) or '-'
        return ('rawenum %s name=%s attrs=%s reprattrs=%s dname=%s dvis=%d'
                % (self.id, hx(self.name), attrs, ra, opt(self.extra.get('dname')), self.extra.get('dvis', 0)))

    def model_lines(self):
        # the enum header as written: the Lean side collects the attributes itself (StrumModel/Collect.lean: collectEnum)
        out = [self.raw_model_line()]
        for v in self.variants:
            # the variant as written: the Lean side collects the attributes itself (StrumModel/Collect.lean)
            out.append(v.raw_model_line(self))
        return out

    def to_json(self):
        import dataclasses
        return dataclasses.asdict(self)


def espec_from_json(j):
    vs = [VSpec(**{**v, 'props': [tuple(p) for p in v.get('props', [])]}) for v in j['variants']]
    j = dict(j)
    j['variants'] = vs
    return ESpec(**j)
