"""Fixed programs: contexts that the generated corpora cannot express (items inside a function body, enums produced by
macro_rules! fragments, field types that are not Clone).  Each is a TEST of the implementation against assertions written
in the program itself - no model involved; it only widens the set of programs under which the property is observed."""
import os, subprocess, shutil
from . import runner


def run_fixed(res, key, main_rs, what, features=('derive',), default_features=True):
    d = os.path.join(runner.SCRATCH, 'ws', key)
    os.makedirs(os.path.join(d, 'src'), exist_ok=True)
    runner._write_if_changed(os.path.join(d, 'src', 'main.rs'), main_rs)
    runner._write_if_changed(os.path.join(d, 'Cargo.toml'),
                             '[package]\nname = "%s"\nversion = "0.0.0"\nedition = "2021"\n\n[workspace]\n\n[dependencies]\n'
                             'strum = { path = "%s/strum", default-features = %s, features = [%s] }\n\n'
                             '[profile.dev]\ndebug = false\nincremental = false\n'
                             % (key, runner.REPO, 'true' if default_features else 'false', ', '.join('"%s"' % f for f in features)))
    runner._write_if_changed(os.path.join(d, '.cargo', 'config.toml'),
                             '[net]\noffline = true\n[build]\ntarget-dir = "%s"\n' % os.path.join(runner.SCRATCH, 'target-' + key))
    if not os.path.exists(os.path.join(d, 'Cargo.lock')):
        shutil.copy(os.path.join(runner.REPO, 'Cargo.lock'), os.path.join(d, 'Cargo.lock'))
    p = subprocess.run(['cargo', 'run', '--offline', '-q'], cwd=d, env=runner.CARGO_ENV, stdout=subprocess.PIPE, stderr=subprocess.PIPE,
                       text=True, timeout=1800)
    res.cov.setdefault('fixed_programs', {})[key] = {'exit': p.returncode, 'what': what}
    if p.returncode != 0:
        res.violation({'kind': 'fixed_program', 'label': key, 'exit': p.returncode, 'stderr': p.stderr[-3000:], 'source': main_rs,
                       'what': 'a fixed program does not build or one of its assertions fails: ' + what})
    return p.returncode == 0


FN_LOCAL = r'''// every item - the enum, its error type, its error function, its default_with function - lives inside a function body
#![allow(warnings)]
use std::str::FromStr;
fn scope() {
    use strum::{EnumCount, EnumMessage, EnumProperty, IntoEnumIterator, VariantNames, IntoDiscriminant};
    #[derive(Debug, PartialEq)]
    struct LocalErr(String);
    fn local_err(s: &str) -> LocalErr { LocalErr(s.to_string()) }
    fn seven() -> u8 { 7 }
    #[derive(Debug, PartialEq, Clone, strum::EnumString, strum::Display, strum::EnumIter, strum::EnumIs, strum::EnumTryAs, strum::AsRefStr, strum::EnumCount,
             strum::VariantNames, strum::FromRepr, strum::EnumMessage, strum::EnumProperty, strum::IntoStaticStr, strum::EnumDiscriminants)]
    #[strum(parse_err_ty = LocalErr, parse_err_fn = local_err, serialize_all = "snake_case")]
    enum Local {
        #[strum(message = "first", props(k = "v"))]
        FirstOne,
        #[strum(serialize = "bee")]
        B,
        #[strum(default_with = "seven")]
        WithData(u8),
        Named { #[strum(default_with = "seven")] x: u8, y: u16 },
    }
    assert_eq!(Local::from_str("bee"), Ok(Local::B));
    assert_eq!(Local::from_str("first_one"), Ok(Local::FirstOne));
    assert_eq!(Local::from_str("with_data"), Ok(Local::WithData(7)));
    assert_eq!(Local::from_str("named"), Ok(Local::Named { x: 7, y: 0 }));
    assert_eq!(Local::from_str("zzz"), Err(LocalErr("zzz".into())));
    assert_eq!(Local::try_from("zzz"), Err(LocalErr("zzz".into())));
    assert_eq!(Local::FirstOne.to_string(), "first_one");
    assert_eq!(Local::iter().count(), Local::COUNT);
    assert_eq!(<Local as VariantNames>::VARIANTS, ["first_one", "bee", "with_data", "named"]);
    assert_eq!(Local::FirstOne.get_message(), Some("first"));
    assert_eq!(Local::FirstOne.get_str("k"), Some("v"));
    assert!(Local::B.is_b() && !Local::B.is_first_one());
    assert_eq!(Local::WithData(3).try_as_with_data(), Some(3));
    assert_eq!(Local::from_repr(1), Some(Local::B));
    assert_eq!(Local::B.discriminant(), LocalDiscriminants::B);
    let s: &'static str = Local::B.into();
    assert_eq!((s, Local::B.as_ref()), ("bee", "bee"));
}
fn main() { scope(); }
'''

MACRO_FRAGMENTS = r'''// enums written by macro_rules!: attribute values, names, types and discriminants arrive as `literal`, `ident`, `ty`, `expr`
// fragments (which reach the derive wrapped in invisible groups)
#![allow(warnings)]
use std::str::FromStr;
use strum::{EnumMessage, EnumProperty, VariantNames};
fn seven() -> u8 { 7 }
macro_rules! mk {
    ($name:ident, $var:ident, $ser:literal, $f:literal, $ty:ty, $d:expr, $style:literal, $msg:literal, $pv:literal) => {
        #[derive(Debug, PartialEq, Clone, strum::EnumString, strum::Display, strum::AsRefStr, strum::VariantNames, strum::EnumMessage, strum::EnumProperty, strum::FromRepr, strum::EnumIs)]
        #[strum(serialize_all = $style)]
        #[repr(u8)]
        enum $name {
            #[strum(serialize = $ser, message = $msg, props(key = $pv))]
            $var = $d,
            PlainOne,
            WithField { #[strum(default_with = $f)] x: $ty, y: u16 },
            #[strum(default_with = $f)]
            Tuple($ty),
        }
    };
}
mk!(M1, Alpha, "aa", "seven", u8, 3, "kebab-case", "hello", "val");
mk!(M2, Beta, "b b", "seven", u8, 1 + 1, "UPPERCASE", "", "7");
fn main() {
    assert_eq!(M1::from_str("aa"), Ok(M1::Alpha));
    assert_eq!(M1::from_str("plain-one"), Ok(M1::PlainOne));
    assert_eq!(M1::from_str("with-field"), Ok(M1::WithField { x: 7, y: 0 }));
    assert_eq!(M1::from_str("tuple"), Ok(M1::Tuple(7)));
    assert_eq!(M1::Alpha.to_string(), "aa");
    assert_eq!(M1::Alpha.get_message(), Some("hello"));
    assert_eq!(M1::Alpha.get_str("key"), Some("val"));
    assert_eq!(M1::from_repr(3), Some(M1::Alpha));
    assert_eq!(M1::from_repr(4), Some(M1::PlainOne));
    assert_eq!(<M1 as VariantNames>::VARIANTS, ["aa", "plain-one", "with-field", "tuple"]);
    assert_eq!(M2::from_str("b b"), Ok(M2::Beta));
    assert_eq!(M2::from_str("PLAINONE"), Ok(M2::PlainOne));
    assert_eq!(M2::Beta.get_message(), Some(""));
    assert_eq!(M2::from_repr(2), Some(M2::Beta));
    assert!(M2::Beta.is_beta());
}
'''

REF_MUT_FIELDS = r'''// fields that are neither Clone nor Copy (`&'a mut T`, a plain struct): generated patterns must borrow, never move
#![allow(warnings)]
use strum::{EnumCount, EnumMessage, EnumProperty, VariantNames, IntoDiscriminant};
#[derive(Debug)]
struct Opaque(u8);
impl core::fmt::Display for Opaque { fn fmt(&self, f: &mut core::fmt::Formatter) -> core::fmt::Result { write!(f, "op{}", self.0) } }
#[derive(strum::Display, strum::AsRefStr, strum::IntoStaticStr, strum::EnumIs, strum::EnumTryAs, strum::EnumDiscriminants, strum::EnumCount, strum::VariantNames,
         strum::EnumMessage, strum::EnumProperty)]
enum Holder<'a> {
    #[strum(to_string = "val={0}", message = "m")]
    Mut(&'a mut u8),
    #[strum(to_string = "n={n} r={r}")]
    Named { r: &'a mut u8, n: u8 },
    #[strum(to_string = "o={0:>5}")]
    Own(Opaque),
    Fixed(&'a mut u8, Opaque),
    Plain,
}
fn main() {
    let (mut a, mut b, mut c) = (1u8, 2u8, 3u8);
    let h = Holder::Mut(&mut a);
    assert_eq!(h.to_string(), "val=1");
    // (AsRefStr / IntoStaticStr never interpolate: the canonical name is the literal itself)
    assert_eq!((h.as_ref(), h.is_mut(), h.get_message()), ("val={0}", true, Some("m")));
    assert!(h.discriminant() == HolderDiscriminants::Mut);
    let s: &'static str = (&h).into();
    assert_eq!(s, "val={0}");
    let n = Holder::Named { r: &mut b, n: 9 };
    assert_eq!(n.to_string(), "n=9 r=2");
    assert_eq!(format!("{:>7}", Holder::Fixed(&mut c, Opaque(4))), "  Fixed");
    assert_eq!(Holder::Own(Opaque(4)).to_string(), format!("o={0:>5}", Opaque(4)));
    let mut m = Holder::Mut(&mut a);
    if let Some(r) = m.try_as_mut_mut() { **r = 5; }
    assert_eq!(m.to_string(), "val=5");
    assert_eq!(Holder::COUNT, 5);
    assert_eq!(<Holder as VariantNames>::VARIANTS.len(), 5);
}
'''
