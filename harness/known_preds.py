"""Predicates that decide whether a violation payload is the listed known finding (and nothing else)."""
import re


def tuple_placeholder_subset(payload):
    """F4: a tuple variant with >= 1 placeholder in its display name that does not reference every positional field"""
    e = payload.get('enum') or {}
    for v in e.get('variants', []):
        if v.get('kind') != 'tuple' or v.get('dis'):
            continue
        name = v.get('ts')
        if name is None and v.get('ser'):
            name = max(reversed(v['ser']), key=lambda s: len(s.encode('utf-8')))
        if name is None:
            continue
        body = name.replace('{{', '').replace('}}', '')
        used = set(m.split(':')[0].strip() for m in re.findall(r'\{([^{}]*)\}', body))
        if not used:
            continue
        n = len(v.get('ftypes', []))
        if any(str(i) not in used for i in range(n)):
            return True
    return False
