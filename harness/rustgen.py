"""Render ESpecs to Rust source: the enum item with real #[derive]s and a per-enum `op` function that the
shard driver dispatches to.  Everything observable is printed in the canonical protocol form."""
from .spec import ESpec, VSpec, PALETTE, hx, rust_str

SUPPORT_RS = r'''
#![allow(warnings)]
use std::sync::atomic::{AtomicUsize, Ordering};
pub static CALLS: AtomicUsize = AtomicUsize::new(0);

pub fn hex(b: &[u8]) -> String {
    let mut s = String::with_capacity(1 + b.len() * 2);
    s.push('x');
    for x in b { s.push_str(&format!("{:02x}", x)); }
    s
}
pub fn unhex(t: &str) -> String {
    let t = &t[1..];
    let mut v = Vec::with_capacity(t.len() / 2);
    let b = t.as_bytes();
    let mut i = 0;
    while i + 1 < b.len() {
        v.push(u8::from_str_radix(&t[i..i + 2], 16).unwrap());
        i += 2;
    }
    String::from_utf8(v).expect("utf8 input")
}
#[derive(Debug, PartialEq, Eq, Clone, Default, Hash)]
pub struct Cg<const N: usize>;
/// a field type whose INHERENT functions are named like trait methods and answer differently: generated code must reach
/// `Default` / `Clone` / `PartialEq` / `Display` through the traits
#[derive(Debug, Hash, Eq)]
pub struct Host(pub u8);
impl Default for Host { fn default() -> Self { Host(3) } }
impl Clone for Host { fn clone(&self) -> Self { Host(self.0) } }
impl PartialEq for Host { fn eq(&self, o: &Self) -> bool { self.0 == o.0 } }
impl core::fmt::Display for Host { fn fmt(&self, f: &mut core::fmt::Formatter) -> core::fmt::Result { write!(f, "host{}", self.0) } }
impl Host {
    pub fn default() -> Self { Host(255) }
    pub fn clone(&self) -> Self { Host(254) }
    pub fn eq(&self, _o: &Self) -> bool { false }
    pub fn ne(&self, _o: &Self) -> bool { true }
    pub fn fmt(&self, _f: &mut core::fmt::Formatter) -> core::fmt::Result { Err(core::fmt::Error) }
    pub fn into(self) -> u8 { 253 }
    pub fn as_ref(&self) -> &'static str { "inherent" }
}
/// a type WITHOUT `Default`: instantiates type parameters that only occur inside `Option<T>`
#[derive(Debug, PartialEq, Eq, Clone, Hash)]
pub struct NoDef(pub u8);
/// a generic error type + constructor (parse_err_ty / parse_err_fn written with generic arguments)
#[derive(Debug, PartialEq, Clone)]
pub struct PErrG<T>(pub String, pub core::marker::PhantomData<T>);
pub fn perr_g<T>(s: &str) -> PErrG<T> { CALLS.fetch_add(1, Ordering::SeqCst); PErrG(s.to_string(), core::marker::PhantomData) }
pub mod errs { pub use super::{PErr, perr}; }
pub static LAST_ARG: std::sync::Mutex<String> = std::sync::Mutex::new(String::new());
pub fn perr_strum(s: &str) -> strum::ParseError { CALLS.fetch_add(1, Ordering::SeqCst); *LAST_ARG.lock().unwrap() = s.to_string(); strum::ParseError::VariantNotFound }
/// a parse_err_fn that is generic over its ARGUMENT (not coercible to one `fn(&str) -> _` pointer)
pub fn perr_any<S: AsRef<str>>(s: S) -> PErr { CALLS.fetch_add(1, Ordering::SeqCst); PErr(s.as_ref().to_string()) }

/// A fixed-capacity, allocation-free string-ish type (used where `String` is not available).
#[derive(Debug, PartialEq, Clone, Default)]
pub struct PErr(pub String);
pub fn perr(s: &str) -> PErr { CALLS.fetch_add(1, Ordering::SeqCst); PErr(s.to_string()) }

#[derive(Debug, PartialEq, Clone, Default, strum::Display, strum::AsRefStr, strum::IntoStaticStr, strum::EnumString)]
pub enum Inner {
    #[default]
    #[strum(serialize = "inner-a")]
    Aa,
    #[strum(to_string = "Inner B")]
    Bb,
    #[strum(serialize = "çé")]
    Cc,
}

/// format `v` with a run-time chosen spec.  fill: 0=' ' 1='*' 2='é'; align: 0 none 1 < 2 ^ 3 >;
/// width: usize; prec: -1 = none; zero: `0` flag
pub fn fmt_with<T: core::fmt::Display>(v: &T, fill: u8, align: u8, width: usize, prec: i64, zero: bool) -> String {
    let p = if prec < 0 { 0usize } else { prec as usize };
    let hp = prec >= 0;
    macro_rules! go {
        ($($f:literal $a:literal => ($s1:literal, $s2:literal, $s3:literal, $s4:literal)),* $(,)?) => {
            match (fill, align, zero, hp) {
                $( ($f, $a, false, false) => format!($s1, v, w = width),
                   ($f, $a, false, true) => format!($s2, v, w = width, p = p),
                   ($f, $a, true, false) => format!($s3, v, w = width),
                   ($f, $a, true, true) => format!($s4, v, w = width, p = p), )*
                _ => String::from("bad-spec"),
            }
        };
    }
    go! {
        0u8 0u8 => ("{:w$}", "{:w$.p$}", "{:0w$}", "{:0w$.p$}"),
        0u8 1u8 => ("{:<w$}", "{:<w$.p$}", "{:<0w$}", "{:<0w$.p$}"),
        0u8 2u8 => ("{:^w$}", "{:^w$.p$}", "{:^0w$}", "{:^0w$.p$}"),
        0u8 3u8 => ("{:>w$}", "{:>w$.p$}", "{:>0w$}", "{:>0w$.p$}"),
        1u8 1u8 => ("{:*<w$}", "{:*<w$.p$}", "{:*<0w$}", "{:*<0w$.p$}"),
        1u8 2u8 => ("{:*^w$}", "{:*^w$.p$}", "{:*^0w$}", "{:*^0w$.p$}"),
        1u8 3u8 => ("{:*>w$}", "{:*>w$.p$}", "{:*>0w$}", "{:*>0w$.p$}"),
        2u8 1u8 => ("{:é<w$}", "{:é<w$.p$}", "{:é<0w$}", "{:é<0w$.p$}"),
        2u8 2u8 => ("{:é^w$}", "{:é^w$.p$}", "{:é^0w$}", "{:é^0w$.p$}"),
        2u8 3u8 => ("{:é>w$}", "{:é>w$.p$}", "{:é>0w$}", "{:é>0w$.p$}"),
    }
}
/// the same with no width at all (`{}` / `{:.p$}`)
pub fn fmt_nowidth<T: core::fmt::Display>(v: &T, prec: i64) -> String {
    if prec < 0 { format!("{}", v) } else { format!("{:.p$}", v, p = prec as usize) }
}
pub fn parse_spec(a: &str) -> (u8, u8, i64, i64, bool) {
    // "f,a,w,p,z" ; w = -1 means no width
    let v: Vec<i64> = a.split(',').map(|x| x.parse::<i64>().unwrap()).collect();
    (v[0] as u8, v[1] as u8, v[2], v[3], v[4] != 0)
}
pub fn fmt_spec<T: core::fmt::Display>(v: &T, a: &str) -> String {
    let (f, al, w, p, z) = parse_spec(a);
    if w < 0 { fmt_nowidth(v, p) } else { fmt_with(v, f, al, w as usize, p, z) }
}
'''

MAIN_RS_HEAD = r'''
#![allow(warnings)]
mod support;
use std::io::{BufRead, Write};
'''

MAIN_RS_TAIL = r'''
fn main() {
    std::panic::set_hook(Box::new(|_| {}));
    let stdin = std::io::stdin();
    let stdout = std::io::stdout();
    let mut out = std::io::BufWriter::new(stdout.lock());
    for line in stdin.lock().lines() {
        let line = line.unwrap();
        let toks: Vec<&str> = line.trim().split(' ').collect();
        if toks.len() < 3 || toks[0] != "op" { continue; }
        let id = toks[1].to_string();
        let args: Vec<String> = toks[2..].iter().map(|s| s.to_string()).collect();
        let r = std::panic::catch_unwind(move || {
            let a: Vec<&str> = args.iter().map(|s| s.as_str()).collect();
            dispatch(&id, &a)
        });
        match r {
            Ok(s) => writeln!(out, "{}", s).unwrap(),
            Err(_) => writeln!(out, "PANIC").unwrap(),
        }
        out.flush().unwrap();
    }
}
'''

GENERIC_DECL = {
    '': ('', '', ''),
    'ty': ('<T: Default + PartialEq + ::core::fmt::Debug + Clone>', '<u16>', ''),
    'where': ('<T>', '<u16>', ' where T: Default + PartialEq + ::core::fmt::Debug + Clone'),
    'lt': ("<'a>", "<'static>", ''),
    'const': ('<const N: usize>', '<3>', ''),
    'lt_ty': ("<'a, T: Default + PartialEq + ::core::fmt::Debug + Clone>", "<'static, u16>", ''),
    # a parameter without a Default bound, instantiated with a type that has no Default (it only occurs inside Option<T>)
    'ty_nd': ('<T: PartialEq + ::core::fmt::Debug + Clone>', '<NoDef>', ''),
}
# spellings of the custom parse error: (parse_err_ty, parse_err_fn, pattern binding the message as `s`)
ERR_FORMS = {'plain': ('PErr', 'perr', 'PErr(s)'), 'path': ('errs::PErr', 'errs::perr', 'PErr(s)'),
             'generic': ('PErrG<u8>', 'perr_g::<u8>', 'PErrG(s, _)'), 'argfn': ('PErr', 'perr_any', 'PErr(s)'),
             # the error TYPE is strum's own ParseError: the user's function still has to be called (it records its argument)
             'strumerr': ('strum::ParseError', 'perr_strum', '_unit'),
             # an associated function of the enum itself
             'assoc': ('PErr', 'Self::perr_assoc', 'PErr(s)')}
# the same parameter lists with defaults (legal on the enum, not allowed in an impl header)
GENERIC_DEFAULTS = {'ty': ' = u16', 'lt_ty': ' = u16', 'ty_nd': ' = NoDef', 'const': ' = 3'}

PALETTE_RS = dict(PALETTE)
PALETTE_RS['RefStr'] = ("&'a str", '"dw"', '"zz"')
PALETTE_RS['StaticStr'] = ("&'static str", '"dw"', '"zz"')
PALETTE_RS['Cg'] = ('Cg<N>', None, None)
PALETTE_RS['BoxStr'] = ('Box<str>', 'Box::<str>::from("dw")', 'Box::<str>::from("zz")')
PALETTE_RS['u32'] = ('u32', '70000u32', '5u32')
PALETTE_RS['T'] = ('T', None, None)
PALETTE_RS['OptT'] = ('Option<T>', 'Some(NoDef(1))', 'Some(NoDef(2))')
PALETTE_RS['Inner'] = ('Inner', 'Inner::Bb', 'Inner::Cc')
PALETTE_RS['Cap'] = ('Cap', 'Cap::from("dw")', 'Cap::from("zz")')
# palette substitution for the #![no_std] (no alloc) configuration
NOSTD_MAP = {'String': 'Cap', 'BoxStr': 'Cap', 'Inner': 'StaticStr'}

SUPPORT_NOSTD_RS = r'''
#![allow(warnings)]
use core::sync::atomic::{AtomicUsize, Ordering};
pub static CALLS: AtomicUsize = AtomicUsize::new(0);
/// fixed-capacity string-ish type: lets `default` variants and string-like fields exist without alloc
#[derive(Debug, PartialEq, Clone, Copy, Default, Hash, Eq)]
pub struct Cap { pub len: usize, pub buf: [u8; 16] }
impl<'a> From<&'a str> for Cap {
    fn from(s: &'a str) -> Cap {
        let mut buf = [0u8; 16];
        let n = if s.len() < 16 { s.len() } else { 16 };
        let mut i = 0;
        while i < n { buf[i] = s.as_bytes()[i]; i += 1; }
        Cap { len: n, buf }
    }
}
impl core::fmt::Display for Cap {
    fn fmt(&self, f: &mut core::fmt::Formatter) -> core::fmt::Result { f.pad(core::str::from_utf8(&self.buf[..self.len]).unwrap_or("?")) }
}
impl AsRef<str> for Cap { fn as_ref(&self) -> &str { core::str::from_utf8(&self.buf[..self.len]).unwrap_or("?") } }
#[derive(Debug, PartialEq, Clone, Default, Hash, Eq)]
pub struct Cg<const N: usize>;
/// a field type whose INHERENT functions are named like trait methods and answer differently: generated code must reach
/// `Default` / `Clone` / `PartialEq` / `Display` through the traits
#[derive(Debug, Hash, Eq)]
pub struct Host(pub u8);
impl Default for Host { fn default() -> Self { Host(3) } }
impl Clone for Host { fn clone(&self) -> Self { Host(self.0) } }
impl PartialEq for Host { fn eq(&self, o: &Self) -> bool { self.0 == o.0 } }
impl core::fmt::Display for Host { fn fmt(&self, f: &mut core::fmt::Formatter) -> core::fmt::Result { write!(f, "host{}", self.0) } }
impl Host {
    pub fn default() -> Self { Host(255) }
    pub fn clone(&self) -> Self { Host(254) }
    pub fn eq(&self, _o: &Self) -> bool { false }
    pub fn ne(&self, _o: &Self) -> bool { true }
    pub fn fmt(&self, _f: &mut core::fmt::Formatter) -> core::fmt::Result { Err(core::fmt::Error) }
    pub fn into(self) -> u8 { 253 }
    pub fn as_ref(&self) -> &'static str { "inherent" }
}
#[derive(Debug, PartialEq, Eq, Clone, Hash)]
pub struct NoDef(pub u8);
#[derive(Debug, PartialEq, Clone)]
pub struct PErrG<T>(pub Cap, pub core::marker::PhantomData<T>);
pub fn perr_g<T>(s: &str) -> PErrG<T> { CALLS.fetch_add(1, Ordering::SeqCst); PErrG(Cap::from(s), core::marker::PhantomData) }
pub mod errs { pub use super::{PErr, perr}; }
pub fn perr_any<S: AsRef<str>>(s: S) -> PErr { CALLS.fetch_add(1, Ordering::SeqCst); PErr(Cap::from(s.as_ref())) }
#[derive(Debug, PartialEq, Clone, Default)]
pub struct PErr(pub Cap);
pub fn perr(s: &str) -> PErr { CALLS.fetch_add(1, Ordering::SeqCst); PErr(Cap::from(s)) }
'''

EXTREME = {'OptT': 'Some(NoDef(255))', 'u8': 'u8::MAX', 'i32': 'i32::MIN', 'i64': 'i64::MIN', 'u16': 'u16::MAX', 'u32': 'u32::MAX', 'bool': 'true',
           'String': 'String::from("a fairly long string with {braces} and \\u{e9}\\u{1f600} in it")', 'OptU8': 'Some(u8::MAX)'}
STRINGY = {'String', 'BoxStr', 'RefStr', 'StaticStr'}

DERIVE_PATH = {
    'EnumString': 'strum::EnumString', 'Display': 'strum::Display', 'AsRefStr': 'strum::AsRefStr',
    'IntoStaticStr': 'strum::IntoStaticStr', 'VariantNames': 'strum::VariantNames',
    'EnumIter': 'strum::EnumIter', 'EnumCount': 'strum::EnumCount', 'FromRepr': 'strum::FromRepr',
    'VariantArray': 'strum::VariantArray', 'EnumMessage': 'strum::EnumMessage',
    'EnumProperty': 'strum::EnumProperty', 'EnumDiscriminants': 'strum::EnumDiscriminants',
    'EnumIs': 'strum::EnumIs', 'EnumTryAs': 'strum::EnumTryAs', 'EnumTable': 'strum::EnumTable',
    'ToString': 'strum::ToString', 'AsStaticStr': 'strum::AsStaticStr',
}


def field_ty(key, inst=False, generics=''):
    t = PALETTE_RS[key][0]
    if inst:
        t = t.replace("'a", "'static").replace('Cg<N>', 'Cg<3>')
        if t == 'T':
            t = 'u16'
        if key == 'OptT':
            t = 'Option<NoDef>'
    return t


def field_val(key, alt):
    """expression of a field value: alt 0 = default, 1/2 = distinct non-default values, 4 = extreme value"""
    if alt == 0:
        return 'Default::default()'
    if alt == 4:
        if key == 'T':
            return '65535u16'
        if key == 'Cg':
            return 'Default::default()'
        return EXTREME.get(key, PALETTE_RS[key][1])
    if key == 'T':
        return '513u16' if alt == 1 else '77u16'
    if key == 'Cg':
        return 'Default::default()'
    return PALETTE_RS[key][alt]


def int_spelling(x, key=''):
    """an integer literal denoting x: decimal, hex / octal / binary, with digit separators or an i64 suffix"""
    f = (len(key) + abs(x)) % 6
    if x < 0 or f == 0:
        return str(x) + ('i64' if f == 5 and x > -2 ** 62 else '')
    return [None, '0x%X' % x, '0o%o' % x, '0b%s' % bin(x)[2:], '%s_i64' % format(x, ',').replace(',', '_'), format(x, ',').replace(',', '_')][f]


class EnumGen:
    palette_map = {}
    generic_bound = None
    defs_only = False
    shadow = False

    def __init__(self, e: ESpec, strum_path='strum'):
        self.e = e
        self.sp = strum_path if strum_path != 'strum' else e.extra.get('strum_path', 'strum')
        if self.palette_map:
            import copy
            self.e = e = copy.deepcopy(e)
            for v in e.variants:
                v.ftypes = [self.palette_map.get(t, t) for t in v.ftypes]
        g = GENERIC_DECL[e.generics]
        self.gdecl, self.ginst, self.gwhere = g
        if e.extra.get('gen_default') and e.generics in GENERIC_DEFAULTS:
            self.gdecl = self.gdecl[:-1] + GENERIC_DEFAULTS[e.generics] + '>'
        if self.generic_bound:
            std = 'Default + PartialEq + ::core::fmt::Debug + Clone'
            self.gdecl = self.gdecl.replace(std, self.generic_bound)
            self.gwhere = self.gwhere.replace(std, self.generic_bound)

    # ----- the enum item -------------------------------------------------------------------------
    @staticmethod
    def strum_item_text(it, ident=''):
        k, val = it
        if k == 'ser':
            return 'serialize = %s' % rust_str(val)
        if k == 'ts':
            return 'to_string = %s' % rust_str(val)
        if k == 'dis':
            return 'disabled'
        if k == 'def':
            return 'default'
        if k == 'tr':
            return 'transparent'
        if k == 'ci':
            return ('ascii_case_insensitive' if val is True and sum(map(ord, ident)) % 2 == 0
                    else 'ascii_case_insensitive = %s' % ('true' if val else 'false'))
        if k == 'dw':
            return 'default_with = %s' % rust_str(val)
        if k == 'msg':
            return 'message = %s' % rust_str(val)
        if k == 'det':
            return 'detailed_message = %s' % rust_str(val)
        if k == 'props':
            return 'props(%s%s)' % (', '.join('%s = %s' % (key, rust_str(x) if t == 's' else (int_spelling(x, key) if t == 'i' else ('true' if x else 'false')))
                                           for key, t, x in val), ',' if len(ident) % 2 else '')
        raise ValueError(k)

    def variant_attrs(self, v: VSpec):
        pgroups, igroups = v.strum_groups(self.e)
        out = []
        tc = ',' if (sum(map(ord, v.ident)) + len(self.e.id)) % 3 == 0 else ''   # a trailing comma is legal in every list
        for g in pgroups:
            out.append('    #[strum(%s%s)]' % (', '.join(self.strum_item_text(it, v.ident) for it in g), tc))
        for dline in v.docs:
            out.append('    #[doc = %s]' % rust_str(dline))
        for a in self.e.extra.get('variant_attrs', {}).get(v.ident, []):
            out.append('    ' + a)
        for g in igroups:
            out.append('    #[strum(%s%s)]' % (', '.join(self.strum_item_text(it, v.ident) for it in g), tc))
        return out

    def variant_decl(self, v: VSpec):
        lines = self.variant_attrs(v)
        if v.kind == 'unit':
            body = v.ident
        elif v.kind == 'tuple':
            body = '%s(%s)' % (v.ident, ', '.join(field_ty(t) for t in v.ftypes))
        else:
            fs = []
            for i, (n, t) in enumerate(zip(v.fnames, v.ftypes)):
                dw = v.fdw[i] if i < len(v.fdw) else None
                a = '#[strum(default_with = %s)] ' % rust_str(dw) if dw else ''
                fa = self.e.extra.get('field_attrs', {}).get('%s.%d' % (v.ident, i))
                if fa:
                    a = (fa + ' ' + a) if (len(v.ident) + i) % 2 else (a + fa + ' ')
                fs.append('%s%s: %s' % (a, n, field_ty(t)))
            body = '%s { %s }' % (v.ident, ', '.join(fs))
        if v.discr is not None or v.discr_expr is not None:
            body += ' = %s' % (v.discr_expr if v.discr_expr is not None else str(v.discr))
        lines.append('    %s,' % body)
        return lines

    def enum_attrs(self):
        e = self.e
        ty, fn, _ = ERR_FORMS[self.err_form()]

        def text(it):
            k, val = it
            return {'sa': lambda: 'serialize_all = %s' % rust_str(val), 'ci': lambda: 'ascii_case_insensitive',
                    'pfx': lambda: 'prefix = %s' % rust_str(val), 'phf': lambda: 'use_phf', 'pty': lambda: 'parse_err_ty = %s' % ty,
                    'pfn': lambda: 'parse_err_fn = %s' % fn, 'cis': lambda: 'const_into_str',
                    'crate': lambda: 'crate = %s' % rust_str(val)}[k]()
        tc = ',' if sum(map(ord, e.id)) % 3 == 0 else ''
        out = ['#[strum(%s%s)]' % (', '.join(text(it) for it in g), tc) for g in e.strum_groups(self.sp)]
        lay = e.extra.get('eattr_layout', 'one')
        if lay in ('rev', 'revsplit'):
            # the strum attributes after #[repr] and the other attributes
            tail, out = out, []
        else:
            tail = []
        for a in e.repr_attrs():
            out.append('#[repr(%s)]' % ', '.join(a))
        for x in e.extra.get('enum_attrs', []):
            out.append(x if self.sp == 'strum' else x.replace('strum::', self.sp + '::'))
        return out + tail

    def dw_fns(self):
        """default_with functions: name -> field type key"""
        fns = {}
        for v in self.e.variants:
            if v.dw and v.kind == 'tuple' and v.ftypes:
                fns[v.dw] = v.ftypes[0]
            if v.kind == 'named':
                for i, t in enumerate(v.ftypes):
                    dw = v.fdw[i] if i < len(v.fdw) else None
                    if dw:
                        fns[dw] = t
        return fns

    def enum_item(self, base_derives=('Debug', 'PartialEq', 'Clone')):
        e = self.e
        out = list(e.extra.get('pre_items', []))
        for fn, t in self.dw_fns().items():
            out.append('fn %s() -> %s { %s }' % (fn, field_ty(t, inst=True) if t in ('T',) else field_ty(t).replace("'a", "'static"), field_val(t, 1)))
        ds = list(base_derives) + [self.sp_derive(d) for d in e.derives]
        via = e.extra.get('via_macro')
        if via:
            # the derives come from a macro_rules! wrapper, the item from its caller: two hygiene contexts
            out.append('macro_rules! __with_derives_%s { ($($item:tt)*) => { #[derive(%s)] $($item)* }; }' % (e.name, ', '.join(ds)))
            out.append('__with_derives_%s! {' % e.name)
        else:
            out.append('#[derive(%s)]' % ', '.join(ds))
        out += self.enum_attrs()
        out.append('%s enum %s%s%s {' % (e.extra.get('vis', 'pub'), e.name, self.gdecl, self.gwhere))
        for v in e.variants:
            out += self.variant_decl(v)
        out.append('}')
        if via:
            out.append('}')
        # (the private-field probe of EnumTable has to live in the module that defines the struct)
        if not self.defs_only and not e.extra.get('no_home') and not e.extra.get('table_fields'):
            k = len(e.extra.get('pre_items', [])) + len(self.dw_fns())
            lt = e.extra.get('lt_name', 'a')
            body = out[k:]
            if lt != 'a':
                import re as _re
                body = [_re.sub(r"'a\b", "'" + lt, l) for l in body]
            head = ['mod home {', '#[allow(unused_imports)] use super::*;']
            out = out[:k] + head + body + ['}', '#[allow(unused_imports)] use home::*;']
        out.append('pub type Inst = %s%s;' % (e.name, self.ginst))
        if e.err and self.err_form() == 'assoc':
            out.append('impl%s %s%s%s { pub fn perr_assoc(s: &str) -> PErr { perr(s) } }' % (self.gdecl_nodefault(), e.name, self.gargs(), self.gwhere))
        return out

    def enum_source(self):
        """the enum item alone (attributes + declaration), as handed to a derive macro"""
        e = self.e
        out = self.enum_attrs()
        out.append('%s enum %s%s%s {' % (e.extra.get('vis', 'pub'), e.name, self.gdecl, self.gwhere))
        for v in e.variants:
            out += self.variant_decl(v)
        out.append('}')
        return '\n'.join(out)

    def sp_derive(self, d):
        p = DERIVE_PATH[d]
        if self.sp != 'strum':
            p = p.replace('strum::', self.sp.lstrip(':') + '::', 1)
        return p

    # ----- helpers over values --------------------------------------------------------------------
    def pat_any(self, v: VSpec):
        n = self.e.name
        if v.kind == 'unit':
            return '%s::%s' % (n, v.ident)
        if v.kind == 'tuple':
            return '%s::%s(..)' % (n, v.ident)
        return '%s::%s { .. }' % (n, v.ident)

    def pat_bind(self, v: VSpec, prefix='f'):
        n = self.e.name
        if v.kind == 'unit':
            return '%s::%s' % (n, v.ident), []
        names = ['%s%d' % (prefix, i) for i in range(len(v.ftypes))]
        if v.kind == 'tuple':
            return '%s::%s(%s)' % (n, v.ident, ', '.join(names)), names
        return '%s::%s { %s }' % (n, v.ident, ', '.join('%s: %s' % (fn, b) for fn, b in zip(v.fnames, names))), names

    def ctor(self, v: VSpec, vals):
        n = self.e.name
        if v.kind == 'unit':
            return '%s::%s' % (n, v.ident)
        if v.kind == 'tuple':
            return '%s::%s(%s)' % (n, v.ident, ', '.join(vals))
        return '%s::%s { %s }' % (n, v.ident, ', '.join('%s: %s' % (fn, x) for fn, x in zip(v.fnames, vals)))

    def fn_ident_of(self):
        out = ['pub fn ident_of(v: &Inst) -> &\'static str {', '    match v {']
        for v in self.e.variants:
            out.append('        %s => "%s",' % (self.pat_any(v), hx(v.ident)))
        if not self.e.variants:
            out.append('        _ => unreachable!(),')
        out.append('    }')
        out.append('}')
        return out

    def fn_mk(self):
        """mk(ident_hex, alt, inner) -> Option<Inst>: alt 0 = all fields default, 1/2 = non-default values,
        3 = string-like fields set from `inner`"""
        out = ['pub fn mk(id: &str, alt: u8, inner: &str) -> Option<Inst> {',
               "    let inner_s: &'static str = Box::leak(inner.to_string().into_boxed_str());",
               '    Some(match (id, alt) {']
        for v in self.e.variants:
            for alt in (0, 1, 2, 3, 4):
                vals = []
                for t in v.ftypes:
                    if alt == 3:
                        if t in STRINGY:
                            vals.append('inner_s.into()')
                        elif t in ('u8', 'u16', 'u32', 'i32', 'i64', 'Inner'):
                            vals.append('inner_s.parse().unwrap()')
                        else:
                            vals.append(field_val(t, 0))
                    else:
                        vals.append(field_val(t, alt))
                out.append('        ("%s", %d) => %s,' % (hx(v.ident), alt, self.ctor(v, vals)))
        out.append('        _ => return None,')
        out.append('    })')
        out.append('}')
        return out

    def fn_payload(self):
        """payload(v) -> String: ` D`/` W<fn>`/` C<hex>` per field"""
        e = self.e
        out = ['pub fn payload(v: &Inst) -> String {', '    let mut s = String::new();', '    match v {']
        for v in e.variants:
            pat, names = self.pat_bind(v)
            body = []
            for i, (b, t) in enumerate(zip(names, v.ftypes)):
                if v.default and not v.dis:
                    if t in STRINGY:
                        body.append('s.push_str(&format!(" C{}", hex(AsRef::<str>::as_ref(%s).as_bytes())));' % b)
                    else:
                        body.append('s.push_str(&format!(" C{}", hex(format!("{}", %s).as_bytes())));' % b)
                    continue
                cands = []
                if v.kind == 'tuple' and v.dw and i == 0:
                    cands.append(v.dw)
                if v.kind == 'named' and i < len(v.fdw) and v.fdw[i]:
                    cands.append(v.fdw[i])
                # every dw function of matching type is a candidate so a swapped function is visible
                for fn, ft in self.dw_fns().items():
                    if ft == t and fn not in cands:
                        cands.append(fn)
                stmt = ''
                for fn in cands:
                    stmt += 'if *%s == %s() { s.push_str(" W%s"); } else ' % (b, fn, hx(fn))
                dty = field_ty(t, inst=True)
                stmt += 'if *%s == <%s as Default>::default() { s.push_str(" D"); } else { s.push_str(&format!(" ?{:?}", %s).replace(" ", "_")); }' % (b, dty, b)
                body.append(stmt)
            out.append('        %s => { %s }' % (pat, ' '.join(body)))
        if not e.variants:
            out.append('        _ => unreachable!(),')
        out.append('    }')
        out.append('    s')
        out.append('}')
        return out

    # ----- features -------------------------------------------------------------------------------
    def feat_parse(self):
        e = self.e
        has_default = any(v.default and not v.dis for v in e.variants)
        custom = e.err and not has_default
        eform = ERR_FORMS[self.err_form()]
        errty = eform[0] if custom else '%s::ParseError' % self.sp
        out = []
        out.append('fn fmt_res(r: Result<Inst, %s>) -> String {' % errty)
        out.append('    match r {')
        out.append('        Ok(v) => format!("ok {}{}", ident_of(&v), payload(&v)),')
        if custom:
            if eform[2] == '_unit':
                out.append('        Err(_) => format!("err custom {}", hex(LAST_ARG.lock().unwrap().as_bytes())),')
            else:
                out.append('        Err(%s) => format!("err custom {}", hex(s.as_bytes())),' % eform[2])
        else:
            out.append('        Err(%s::ParseError::VariantNotFound) => "err std".to_string(),' % self.sp)
        out.append('    }')
        out.append('}')
        out.append('fn op_parse(a: &[&str]) -> String {')
        out.append('    let s = unhex(a[1]);')
        out.append('    let c0 = CALLS.load(Ordering::SeqCst);')
        out.append('    let r1: Result<Inst, <Inst as core::str::FromStr>::Err> = <Inst as core::str::FromStr>::from_str(&s);')
        out.append('    let c1 = CALLS.load(Ordering::SeqCst);')
        out.append('    let r2: Result<Inst, <Inst as core::convert::TryFrom<&str>>::Error> = <Inst as core::convert::TryFrom<&str>>::try_from(&s);')
        out.append('    let c2 = CALLS.load(Ordering::SeqCst);')
        out.append('    let a1 = fmt_res(r1); let a2 = fmt_res(r2);')
        out.append('    if a1 != a2 || (c1 - c0) != (c2 - c1) { return format!("DIVERGE from_str=[{}] try_from=[{}]", a1, a2); }')
        if e.err:
            out.append('    format!("{} calls={}", a1, c1 - c0)')
        else:
            out.append('    a1')
        out.append('}')
        return out, [('parse', 'op_parse')]

    def name_keys(self):
        return name_keys(self.e)

    def fn_display_repr(self):
        """display_repr(v, s): hex of s, or `INTERP` when v is an interpolated variant and s equals what format!
        renders for the same literal and fields (the in-language oracle)"""
        out = ['fn display_repr(v: &Inst, s: String) -> String {', '    match v {']
        for v in self.e.variants:
            ia = getattr(v, 'interp', None) or self.e.extra.get('interp', {}).get(v.ident)
            if ia is None or v.dis:
                continue
            pat, names = self.pat_bind(v)
            lit = rust_str(self.e.extra['interp_lit'][v.ident])
            if v.kind == 'tuple':
                args = ', '.join(names)
            else:
                args = ', '.join('%s = %s' % (fn, names[v.fnames.index(fn)]) for fn in ia)
            out.append('        %s => { let exp = format!(%s, %s); if s == exp { "INTERP".to_string() } else { format!("{}!=oracle:{}", hex(s.as_bytes()), hex(exp.as_bytes())) } }'
                       % (pat, lit, args))
        out.append('        _ => hex(s.as_bytes()),')
        out.append('    }')
        out.append('}')
        return out

    def feat_names(self):
        """op `names <xident> <alt> <xinner> <keys>`: every string-producing derive the enum carries"""
        e = self.e
        out = self.fn_display_repr()
        out += ['fn op_names(a: &[&str]) -> String {',
                '    let inner = unhex(a[3]);',
                '    let alt: u8 = a[2].parse().unwrap();',
                '    let v = match mk(a[1], alt, &inner) { Some(v) => v, None => return "bad-op".to_string() };',
                '    let mut o: Vec<String> = Vec::new();']
        if 'Display' in e.derives:
            out.append('    o.push(format!("display={}", display_repr(&v, format!("{}", v))));')
            out.append('    o.push(format!("to_string={}", display_repr(&v, ToString::to_string(&v))));')
        if 'ToString' in e.derives:
            out.append('    o.push(format!("tostring={}", hex(ToString::to_string(&v).as_bytes())));')
        if 'AsRefStr' in e.derives:
            out.append('    o.push(format!("asref={}", hex(AsRef::<str>::as_ref(&v).as_bytes())));')
        if 'AsStaticStr' in e.derives:
            out.append('    o.push(format!("asstatic={}", hex(%s::AsStaticRef::<str>::as_static(&v).as_bytes())));' % self.sp)
        if 'IntoStaticStr' in e.derives:
            out.append("    { let r: &'static str = (&v).into(); o.push(format!(\"intoref={}\", hex(r.as_bytes()))); }")
            if e.cis:
                out.append("    { let r: &'static str = v.into_str(); o.push(format!(\"intostr={}\", hex(r.as_bytes()))); }")
            out.append("    { let r: &'static str = v.clone().into(); o.push(format!(\"into={}\", hex(r.as_bytes()))); }")
        out.append('    o.join(" ")')
        out.append('}')
        ops = [('names', 'op_names')]
        if 'Display' in e.derives:
            out += ['fn op_show(a: &[&str]) -> String {',
                    '    let inner = unhex(a[3]);',
                    '    let alt: u8 = a[2].parse().unwrap();',
                    '    let v = match mk(a[1], alt, &inner) { Some(v) => v, None => return "bad-op".to_string() };',
                    '    display_repr(&v, fmt_spec(&v, a[4]))',
                    '}']
            ops.append(('show', 'op_show'))
        if 'Display' in e.derives and e.extra.get('fwd'):
            # in-language oracle: a forwarding variant must format exactly like its inner value
            out += ['fn op_fwd(a: &[&str]) -> String {',
                    '    let inner = unhex(a[3]);',
                    '    let v = match mk(a[1], 3, &inner) { Some(v) => v, None => return "bad-op".to_string() };',
                    '    let got = fmt_spec(&v, a[4]);',
                    '    let exp: String = match &v {']
            for v in e.variants:
                if (v.tr or (v.default and v.ts is None)) and not v.dis and len(v.ftypes) == 1:
                    pat, names = self.pat_bind(v)
                    out.append('        %s => fmt_spec(%s, a[4]),' % (pat, names[0]))
            out += ['        _ => return "not-forwarding".to_string(),',
                    '    };',
                    '    if got == exp { "fwd-ok".to_string() } else { format!("fwd-mismatch got={} exp={}", hex(got.as_bytes()), hex(exp.as_bytes())) }',
                    '}']
            ops.append(('fwd', 'op_fwd'))
        if 'Display' in e.derives and 'EnumString' in e.derives:
            out += ['fn op_reparse(a: &[&str]) -> String {',
                    '    let s = unhex(a[1]);',
                    '    match <Inst as core::str::FromStr>::from_str(&s) {',
                    '        Ok(v) => format!("ok {} {}", ident_of(&v), display_repr(&v, ToString::to_string(&v))),',
                    '        Err(_) => "err".to_string(),',
                    '    }',
                    '}']
            ops.append(('reparse', 'op_reparse'))
        return out, ops

    def feat_roundtrip(self):
        """op `roundtrip <xident> <keys>`: print with each derive, parse back"""
        e = self.e
        out = ['fn op_roundtrip(a: &[&str]) -> String {',
               '    let v = match mk(a[1], 1, "") { Some(v) => v, None => return "bad-op".to_string() };',
               '    let mut o: Vec<String> = Vec::new();']
        def back(label, expr):
            return ('    { let s: String = %s; let r = <Inst as core::str::FromStr>::from_str(&s); '
                    'o.push(format!("%s={}", match r { Ok(v) => format!("ok:{}{}", ident_of(&v), payload(&v).replace(" ", ":")), Err(_) => "err".to_string() })); }' % (expr, label))
        if 'Display' in e.derives:
            out.append(back('display', 'format!("{}", v)'))
            out.append(back('to_string', 'ToString::to_string(&v)'))
        if 'AsRefStr' in e.derives:
            out.append(back('asref', 'AsRef::<str>::as_ref(&v).to_string()'))
        if 'IntoStaticStr' in e.derives:
            out.append(back('intoref', "{ let r: &'static str = (&v).into(); r.to_string() }"))
            if e.cis:
                out.append(back('intostr', 'v.into_str().to_string()'))
            out.append(back('into', "{ let r: &'static str = v.clone().into(); r.to_string() }"))
        if 'EnumMessage' in e.derives:
            out.append('    for (i, s) in %s::EnumMessage::get_serializations(&v).iter().enumerate() {' % self.sp)
            out.append('        let r = <Inst as core::str::FromStr>::from_str(s);')
            out.append('        o.push(format!("ser{}={}", i, match r { Ok(v) => format!("ok:{}{}", ident_of(&v), payload(&v).replace(" ", ":")), Err(_) => "err".to_string() }));')
            out.append('    }')
        out.append('    o.join(" ")')
        out.append('}')
        return out, [('roundtrip', 'op_roundtrip')]

    def feat_iter(self):
        e = self.e
        sp = self.sp
        out = ['fn item_repr(v: Option<Inst>) -> String {',
               '    match v { None => "none".to_string(), Some(v) => format!("{}{}", ident_of(&v), payload(&v).replace(" ", ":")) }',
               '}',
               'fn _assert_send_sync<X: Send + Sync>() {}',
               'fn _assert_iter_traits<X: Iterator<Item = Inst> + core::iter::FusedIterator + ExactSizeIterator + DoubleEndedIterator + Clone + core::fmt::Debug>() {}',
               'fn _iter_bounds_via_trait<E: %s::IntoEnumIterator>() { _assert_iter_bounds::<E, <E as %s::IntoEnumIterator>::Iterator>(); }' % (sp, sp),
               'fn _assert_iter_bounds<E, X: Iterator<Item = E> + core::iter::FusedIterator + ExactSizeIterator + DoubleEndedIterator + Clone>() {}',
               'fn _iter_is_send_sync() {',
               '    _assert_iter_traits::<<Inst as %s::IntoEnumIterator>::Iterator>();' % sp,
               '    _assert_send_sync::<<Inst as %s::IntoEnumIterator>::Iterator>();' % sp]
        if e.generics in ('ty', 'where', 'ty_nd'):
            out.append('    _assert_send_sync::<<%s<std::rc::Rc<u8>> as %s::IntoEnumIterator>::Iterator>();' % (e.name, sp))
        out += ['}',
                'fn op_iter(a: &[&str]) -> String {',
                '    use %s::IntoEnumIterator;' % sp,
                '    let mut slots = vec![<Inst as IntoEnumIterator>::iter()];',
                '    let mut out: Vec<String> = Vec::new();',
                '    for t in &a[2..] {',
                "        let p: Vec<&str> = t.split(':').collect();",
                '        let slot: usize = p[1].parse().unwrap();',
                '        let n: usize = if p.len() > 2 { p[2].parse().unwrap() } else { 0 };',
                '        match p[0] {',
                '            "next" => out.push(item_repr(slots[slot].next())),',
                '            "back" => out.push(item_repr(slots[slot].next_back())),',
                '            "nth" => out.push(item_repr(slots[slot].nth(n))),',
                '            "nthback" => out.push(item_repr(slots[slot].nth_back(n))),',
                '            "len" => out.push(format!("len={}", ExactSizeIterator::len(&slots[slot]))),',
                '            "hint" => { let (lo, hi) = slots[slot].size_hint(); out.push(if hi == Some(lo) { format!("len={}", lo) } else { format!("hint=({},{:?})", lo, hi) }); }',
                '            "clone" => { let c = slots[slot].clone(); slots.push(c); out.push("cloned".to_string()); }',
                '            "skip" => out.push(item_repr(slots[slot].clone().skip(n).next())),',
                '            "stepby" => { let mut it = slots[slot].clone().step_by(n); let x1 = item_repr(it.next()); let x2 = item_repr(it.next()); let x3 = item_repr(it.next()); out.push(format!("{},{},{}", x1, x2, x3)); }',
                '            "fold" => { let s = slots[slot].clone().fold(Vec::new(), |mut a, v| { a.push(item_repr(Some(v))); a }); out.push(format!("fold={}", s.join("+"))); }',
                '            "rfold" => { let s = slots[slot].clone().rfold(Vec::new(), |mut a, v| { a.push(item_repr(Some(v))); a }); out.push(format!("rfold={}", s.join("+"))); }',
                '            "count" => out.push(format!("count={}", slots[slot].clone().count())),',
                '            "last" => out.push(item_repr(slots[slot].clone().last())),',
                '            _ => out.push("bad-tok".to_string()),',
                '        }',
                '    }',
                '    out.join(" ")',
                '}',
                'fn op_collect(a: &[&str]) -> String {',
                '    use %s::IntoEnumIterator;' % sp,
                '    let l: Vec<Inst> = <Inst as IntoEnumIterator>::iter().take(100000).collect();',
                '    let mut o = vec![format!("n={}", l.len())];',
                '    for v in l { o.push(item_repr(Some(v))); }',
                '    o.join(" ")',
                '}',
                'fn op_rev(a: &[&str]) -> String {',
                '    use %s::IntoEnumIterator;' % sp,
                '    let l: Vec<Inst> = <Inst as IntoEnumIterator>::iter().rev().take(100000).collect();',
                '    let mut o = vec![format!("n={}", l.len())];',
                '    for v in l { o.push(item_repr(Some(v))); }',
                '    o.join(" ")',
                '}']
        return out, [('iter', 'op_iter'), ('collect', 'op_collect'), ('rev', 'op_rev')]

    def feat_count(self):
        out = ['fn op_count(a: &[&str]) -> String { format!("count={}", <Inst as %s::EnumCount>::COUNT) }' % self.sp]
        return out, [('count', 'op_count')]

    def feat_vnames(self):
        out = ['mod only_variant_names { use super::Inst; #[allow(unused_imports)] use %s::VariantNames; pub fn get() -> &\'static [&\'static str] { Inst::VARIANTS } }' % self.sp,
               'fn op_variants(a: &[&str]) -> String {',
               '    if only_variant_names::get() != <Inst as %s::VariantNames>::VARIANTS { return "DIVERGE-by-import".to_string(); }' % self.sp,
               '    let v: &[&str] = <Inst as %s::VariantNames>::VARIANTS;' % self.sp,
               '    let mut o = vec![format!("n={}", v.len())];',
               '    for s in v { o.push(hex(s.as_bytes())); }',
               '    o.join(" ")',
               '}']
        return out, [('variants', 'op_variants')]

    def feat_varray(self):
        out = ['mod only_variant_array { use super::Inst; #[allow(unused_imports)] use %s::VariantArray; pub fn get() -> &\'static [Inst] { Inst::VARIANTS } }' % self.sp,
               'fn op_varray(a: &[&str]) -> String {',
               '    if only_variant_array::get().len() != <Inst as %s::VariantArray>::VARIANTS.len() { return "DIVERGE-by-import".to_string(); }' % self.sp,
               '    let v: &[Inst] = <Inst as %s::VariantArray>::VARIANTS;' % self.sp,
               '    let mut o = vec![format!("n={}", v.len())];',
               '    for x in v { o.push(ident_of(x).to_string()); }',
               '    o.join(" ")',
               '}']
        return out, [('varray', 'op_varray')]

    def repr_ty(self):
        return self.e.repr or 'usize'

    def feat_repr(self):
        e = self.e
        R = self.repr_ty()
        all_unit = all(v.kind == 'unit' for v in e.variants)
        out = ['fn op_repr(a: &[&str]) -> String {',
               '    let x: i128 = a[1].parse().unwrap();',
               '    let d: %s = match <%s as core::convert::TryFrom<i128>>::try_from(x) { Ok(d) => d, Err(_) => return "out-of-range".to_string() };' % (R, R),
               '    match Inst::from_repr(d) { Some(v) => format!("some {}{}", ident_of(&v), payload(&v).replace(" ", ":")), None => "none".to_string() }',
               '}']
        ops = [('repr', 'op_repr')]
        if R in ('u8', 'i8', 'u16', 'i16'):
            out += ['fn op_reprall(a: &[&str]) -> String {',
                    '    let mut o: Vec<String> = Vec::new();',
                    '    let mut n = 0usize;',
                    '    for d in %s::MIN..=%s::MAX {' % (R, R),
                    '        n += 1;',
                    '        if let Some(v) = Inst::from_repr(d) { o.push(format!("{}={}{}", d, ident_of(&v), payload(&v).replace(" ", ":"))); }',
                    '    }',
                    '    format!("tried={} {}", n, o.join(" ")).trim_end().to_string()',
                    '}']
            ops.append(('reprall', 'op_reprall'))
        # numeric discriminants of the enum itself
        if all_unit and e.variants:
            out += ['fn op_discrs(a: &[&str]) -> String {',
                    '    let mut o: Vec<String> = vec!["n=%d".to_string()];' % len(e.variants)]
            for v in e.variants:
                out.append('    o.push(format!("{}", (%s::%s%s as %s) as i128));' % (e.name, self.ginst_turbofish(), v.ident, R if e.repr else 'isize'))
            out += ['    o.join(" ")', '}']
            ops.append(('discrs', 'op_discrs'))
        elif e.repr and e.variants:
            out += ['fn op_discrs(a: &[&str]) -> String {',
                    '    let mut o: Vec<String> = vec!["n=%d".to_string()];' % len(e.variants)]
            for v in e.variants:
                out.append('    { let v = mk("%s", 1, "").unwrap(); let d: %s = unsafe { *(&v as *const Inst as *const %s) }; o.push(format!("{}", d as i128)); }' % (hx(v.ident), R, R))
            out += ['    o.join(" ")', '}']
            ops.append(('discrs', 'op_discrs'))
        is_const = all(v.kind == 'unit' for v in e.variants if not v.dis)
        if is_const:
            out.append('const _FROM_REPR_IS_CONST: Option<Inst> = Inst::from_repr(0 as %s);' % R)
        out.append('fn op_constfn(a: &[&str]) -> String { "const=%d".to_string() }' % (1 if is_const else 0))
        ops.append(('constfn', 'op_constfn'))
        return out, ops

    def err_form(self):
        f = self.e.extra.get('err_form', 'plain')
        if f == 'strumerr' and (self.defs_only or self.sp not in ('strum', '::strum')):
            return 'plain'   # the support code of the renamed / no_std configurations cannot name strum's own error type
        return f

    def gdecl_nodefault(self):
        """the generic parameter list for an impl header (no defaults)"""
        g = GENERIC_DECL[self.e.generics][0]
        if self.generic_bound:
            g = g.replace('Default + PartialEq + ::core::fmt::Debug + Clone', self.generic_bound)
        return g

    def gargs(self):
        """the enum's own parameters as arguments: <'a, T, N>"""
        return {'': '', 'ty': '<T>', 'where': '<T>', 'lt': "<'a>", 'const': '<N>', 'lt_ty': "<'a, T>", 'ty_nd': '<T>'}[self.e.generics]

    def ginst_turbofish(self):
        return ''

    def disc_name(self):
        return self.e.extra.get('dname') or (self.e.name + 'Discriminants')

    def feat_disc(self):
        e = self.e
        D = self.disc_name()
        has_into = e.extra.get('dvis', 0) != 2
        evalflag = e.extra.get('evalflag', 0)
        R = self.repr_ty()
        out = []
        for line in e.extra.get('disc_asserts', []):
            out.append(line.replace('$D', D))
        raw = ', '.join(h for a in e.repr_attrs() for h in a)
        if raw:
            # reference: a hand-written field-less enum with the same repr, variants and explicit discriminants
            out.append('#[repr(%s)] #[derive(Clone, Copy)] enum RefDiscLayout { %s }' % (raw, ', '.join(
                '%s%s' % (v.ident, (' = %s' % (v.discr_expr if v.discr_expr is not None else v.discr)) if (v.discr is not None or v.discr_expr is not None) else '')
                for v in e.variants)))
        out += ["struct ProbeInto<'p, X>(&'p X);",
                'trait NoIntoDisc { fn probe_into(&self) -> &\'static str { "-" } }',
                "impl<'p, X> NoIntoDisc for ProbeInto<'p, X> {}",
                "impl<'p, X: %s::IntoDiscriminant> ProbeInto<'p, X> { fn probe_into(&self) -> &'static str { \"UNEXPECTED-IntoDiscriminant-impl\" } }" % self.sp,
                'fn op_disc(a: &[&str]) -> String {',
                '    let alt: u8 = a[2].parse().unwrap();',
                '    let v = match mk(a[1], alt, "") { Some(v) => v, None => return "bad-op".to_string() };',
                '    let f1: %s = <%s as core::convert::From<Inst>>::from(v.clone());' % (D, D),
                '    let f2: %s = <%s as core::convert::From<&Inst>>::from(&v);' % (D, D),
                '    let tn = std::any::type_name::<%s>();' % D,
                '    let short = tn.rsplit("::").next().unwrap();']
        if has_into:
            out.append('    let into = { let f3: %s = %s::IntoDiscriminant::discriminant(&v); hex(format!("{:?}", f3).as_bytes()) };' % (D, self.sp))
        else:
            # the impl must be ABSENT: an inherent method bounded by the trait wins over the fallback trait method
            out.append('    let into = ProbeInto(&v).probe_into().to_string();')
        if evalflag == 1:
            out.append('    let ev = format!("{}", (v.clone() as %s) as i128);' % (R if e.repr else 'isize'))
        elif evalflag == 2:
            out.append('    let ev = { let d: %s = unsafe { *(&v as *const Inst as *const %s) }; format!("{}", d as i128) };' % (R, R))
        else:
            out.append('    let ev = "?".to_string();')
        pt = e.extra.get('pt_expect')
        if pt:
            out.append('    let pt = { let exp: &[(&str, &str)] = &[%s]; let got = f1.to_string(); let want = exp.iter().find(|p| p.0 == a[1]).map(|p| p.1).unwrap_or(""); if got == want { "ok".to_string() } else { format!("bad:{}", got) } };'
                       % ', '.join('("%s", %s)' % (hx(k), rust_str(val)) for k, val in pt.items()))
        else:
            out.append('    let pt = "ok".to_string();')
        out += ['    format!("name={} from={} from_ref={} into={} val={} eval={} pt={} size_ok={}", hex(short.as_bytes()), hex(format!("{:?}", f1).as_bytes()), hex(format!("{:?}", f2).as_bytes()), into, (f1 as %s) as i128, ev, pt, %s)'
                % (R if e.repr else 'isize', ('core::mem::size_of::<%s>() == core::mem::size_of::<RefDiscLayout>() && core::mem::align_of::<%s>() == core::mem::align_of::<RefDiscLayout>()' % (D, D)) if e.repr_attrs() else 'true'),
                '}']
        return out, [('disc', 'op_disc')]

    def feat_msg(self):
        sp = self.sp
        out = ['fn optstr(o: Option<&\'static str>) -> String { match o { Some(s) => hex(s.as_bytes()), None => "-".to_string() } }',
               'fn op_msg(a: &[&str]) -> String {',
               '    use %s::EnumMessage;' % sp,
               '    let v = match mk(a[1], 1, "") { Some(v) => v, None => return "bad-op".to_string() };',
               '    let ser: Vec<String> = v.get_serializations().iter().map(|s| hex(s.as_bytes())).collect();',
               '    format!("message={} detailed={} doc={} ser={}", optstr(v.get_message()), optstr(v.get_detailed_message()), optstr(v.get_documentation()), ser.join(","))',
               '}']
        return out, [('msg', 'op_msg')]

    def feat_prop(self):
        sp = self.sp
        out = ['fn op_prop(a: &[&str]) -> String {',
               '    use %s::EnumProperty;' % sp,
               '    let v = match mk(a[1], 1, "") { Some(v) => v, None => return "bad-op".to_string() };',
               '    let key = unhex(a[2]);',
               '    let s = match v.get_str(&key) { Some(s) => hex(s.as_bytes()), None => "-".to_string() };',
               '    let i = match v.get_int(&key) { Some(i) => format!("{}", i), None => "-".to_string() };',
               '    let b = match v.get_bool(&key) { Some(true) => "1", Some(false) => "0", None => "-" };',
               '    // the same through `&&E` receivers (closures over slice iterators) and through a generic bound',
               '    let rr = &&v;',
               '    // .. and through a trait object (the trait is dyn-compatible)',
               '    { let d: &dyn %s::EnumProperty = &v; if (d.get_str(&key), d.get_int(&key), d.get_bool(&key)) != (v.get_str(&key), v.get_int(&key), v.get_bool(&key)) { return "DIVERGE-by-dyn".to_string(); } }' % sp,
               '    fn via_bound<P: %s::EnumProperty>(p: &P, k: &str) -> (Option<&\'static str>, Option<i64>, Option<bool>) { (p.get_str(k), p.get_int(k), p.get_bool(k)) }' % sp,
               '    if (rr.get_str(&key), rr.get_int(&key), rr.get_bool(&key)) != (v.get_str(&key), v.get_int(&key), v.get_bool(&key)) || via_bound(&v, &key) != (v.get_str(&key), v.get_int(&key), v.get_bool(&key)) { return "DIVERGE-by-receiver".to_string(); }',
               '    format!("str={} int={} bool={}", s, i, b)',
               '}']
        return out, [('prop', 'op_prop')]

    def feat_table(self):
        e = self.e
        n = e.name
        en = [v for v in e.variants if not v.dis]
        TB = '%sTable' % n
        out = ['fn decl_index(v: &Inst) -> i64 {', '    match v {']
        for i, v in enumerate(e.variants):
            out.append('        %s => %d,' % (self.pat_any(v), i))
        out += ['    }', '}',
                'fn by_ident(id: &str) -> Inst { mk(id, 0, "").expect("ident") }',
                'fn _key_type_is_inferred() -> u8 { let mut t = %s::filled(1u8); t[%s::%s.into()] = 2; t[%s::%s.into()] }' % (TB, n, en[0].ident, n, en[0].ident) if en else '',
                'struct NotClone(i64);',
                'fn _table_of_non_clone() -> i64 { let t = %s::new(%s); let t = t.transform(|_, v| NotClone(v.0 + 1)); let u = %s::from_closure(|k| NotClone(decl_index(&k))); %s }'
                % (TB, ', '.join('NotClone(%d)' % i for i in range(len(en))), TB, ' + '.join(['0'] + ['t[%s::%s].0 + u[%s::%s].0' % (n, v.ident, n, v.ident) for v in en])),
                # the generic parameters of `from_closure` / `transform` are part of the signature: callers may name them
                'fn _table_turbofish() -> i64 { let t = %s::<i64>::from_closure::<fn(Inst) -> i64>(|_k| 4); let u = t.transform::<i64, fn(Inst, &i64) -> i64>(|_k, v| *v + 1); %s }'
                % (TB, ' + '.join(['0'] + ['u[%s::%s]' % (n, v.ident) for v in en])),
                'fn op_table(a: &[&str]) -> String {',
                '    let mut t: %s<i64> = %s::filled(0);' % (TB, TB),
                '    let mut out: Vec<String> = Vec::new();',
                '    for tok in &a[1..] {',
                "        let p: Vec<&str> = tok.split(':').collect();",
                '        match p[0] {',
                '            "new" => { t = %s::new(%s); out.push("ok".to_string()); }' % (TB, ', '.join('%di64' % (1000 + i) for i in range(len(en)))),
                '            "filled" => { t = %s::filled(p[1].parse::<i64>().unwrap()); out.push("ok".to_string()); }' % TB,
                '            "closure" => { t = %s::from_closure(|k| 100 + 7 * decl_index(&k)); out.push("ok".to_string()); }' % TB,
                '            "transform" => { t = t.transform(|k, old| old * 3 + decl_index(&k)); out.push("ok".to_string()); }',
                '            "set" => { t[by_ident(p[1])] = p[2].parse::<i64>().unwrap(); out.push("ok".to_string()); }',
                '            "get" => out.push(format!("{}", t[by_ident(p[1])])),',
                '            "dump" => out.push(format!("dump%s", %s)),' % ('/{}' * len(en), ', '.join('t[%s::%s]' % (n, v.ident) for v in en)),
                '            "all" => { let m = p[1].as_bytes(); let o: %s<Option<i64>> = %s::new(%s); out.push(match o.all() { Some(r) => format!("some%s", %s), None => "none".to_string() }); }'
                % (TB, TB, ', '.join("if m[%d] == b'1' { Some(t[%s::%s]) } else { None }" % (i, n, v.ident) for i, v in enumerate(en)),
                   '/{}' * len(en), ', '.join('r[%s::%s]' % (n, v.ident) for v in en)),
                '            "allok" => { let m = p[1].as_bytes(); let o: %s<Result<i64, i64>> = %s::new(%s); out.push(match o.all_ok() { Ok(r) => format!("ok%s", %s), Err(e) => format!("err/{}", e) }); }'
                % (TB, TB, ', '.join("if m[%d] == b'1' { Ok(t[%s::%s]) } else { Err(%d) }" % (i, n, v.ident, i) for i, v in enumerate(en)),
                   '/{}' * len(en), ', '.join('r[%s::%s]' % (n, v.ident) for v in en)),
                '            _ => out.push("bad-tok".to_string()),',
                '        }',
                '    }',
                '    out.join(" ")',
                '}',
                # the table type derives these
                'fn _table_traits<X: core::fmt::Debug + Clone + Default + PartialEq + Eq + core::hash::Hash>() {} fn _chk_table() { _table_traits::<%s<u8>>(); }' % TB]
        tf = e.extra.get('table_fields')
        ops = [('table', 'op_table')]
        if tf:
            # the struct's private fields are visible in this module: access them by the names the model computes
            out += ['fn op_tablefields(a: &[&str]) -> String {',
                    '    let t: %s<i64> = %s::filled(5);' % (TB, TB),
                    '    let s: i64 = 0 %s;' % ' '.join('+ t.%s' % f for f in tf),
                    '    if s == %d { "%s".to_string() } else { "bad-sum".to_string() }' % (5 * len(tf), ' '.join(hx(f) for f in tf)),
                    '}']
            ops.append(('tablefields', 'op_tablefields'))
        return out, ops

    def field_code(self, expr, t):
        dty = field_ty(t, inst=True)
        return ('(if %s == %s { 1 } else if %s == %s { 2 } else if %s == <%s as Default>::default() { 0 } else { 9 })'
                % (expr, field_val(t, 1), expr, field_val(t, 2), expr, dty))

    def feat_is(self):
        e = self.e
        out = ['fn op_is(a: &[&str]) -> String {',
               '    let v = match mk(a[1], 1, "") { Some(v) => v, None => return "bad-op".to_string() };',
               '    let mut names: Vec<&str> = Vec::new();']
        for name, ident in e.extra.get('is_methods', []):
            out.append('    if v.%s() { names.push("%s"); }' % (name, hx(name)))
            out.append('    const _: fn(&Inst) -> bool = Inst::%s;' % name)
        out += ['    format!("true={}", if names.is_empty() { "-".to_string() } else { names.join(",") })', '}']
        return out, [('is', 'op_is')]

    def feat_tryas(self):
        e = self.e
        byid = {v.ident: v for v in e.variants}
        out = ['fn op_tryas(a: &[&str]) -> String {',
               '    let alt: u8 = a[2].parse().unwrap();',
               '    let v = match mk(a[1], alt, "") { Some(v) => v, None => return "bad-op".to_string() };',
               '    let mut out: Vec<String> = Vec::new();']
        for base, ident, n in e.extra.get('tryas_methods', []):
            v = byid[ident]
            names = ['y%d' % i for i in range(n)]
            if n == 0:
                pat = '()'
            elif n == 1:
                pat = names[0]
            else:
                pat = '(%s)' % ', '.join(names)
            def codes(deref):
                if n == 0:
                    return '"some".to_string()', '"wrote".to_string()'
                fmt = '/{}' * n
                args = ', '.join(self.field_code(('(*%s)' % nm) if deref else nm, t) for nm, t in zip(names, v.ftypes))
                return 'format!("some%s", %s)' % (fmt, args), 'format!("wrote%s", %s)' % (fmt, args)
            sv, _ = codes(False)
            sr, wr = codes(True)
            out.append('    {')
            out.append('        let r1 = match v.clone().%s() { Some(%s) => %s, None => "none".to_string() };' % (base, pat, sv))
            out.append('        let r2 = match v.%s_ref() { Some(%s) => %s, None => "none".to_string() };' % (base, pat, sr))
            writes = ' '.join('*%s = %s;' % (nm, field_val(t, 2)) for nm, t in zip(names, v.ftypes))
            out.append('        let mut w = v.clone();')
            out.append('        let did = match w.%s_mut() { Some(%s) => { %s true } None => false };' % (base, pat, writes))
            out.append('        let r3 = if did { match w.%s_ref() { Some(%s) => %s, None => "lost".to_string() } } else { "none".to_string() };' % (base, pat, wr))
            out.append('        out.push(format!("%s:val={}:ref={}:mut={}", r1, r2, r3));' % hx(base))
            out.append('    }')
        out += ['    out.join(" ")', '}']
        return out, [('tryas', 'op_tryas')]

    def feat_absent(self):
        e = self.e
        names = e.extra.get('absent_methods', [])
        out = ['pub struct Absent;',
               'trait Describe { fn d(&self) -> &\'static str; }',
               'impl Describe for bool { fn d(&self) -> &\'static str { "present" } }',
               'impl<X> Describe for Option<X> { fn d(&self) -> &\'static str { "present" } }',
               'impl Describe for Absent { fn d(&self) -> &\'static str { "absent" } }',
               'trait Fallback: Sized {']
        for nm in names:
            if nm.endswith('_ref') or nm.startswith('is_'):
                out.append('    fn %s(&self) -> Absent { Absent }' % nm)
            elif nm.endswith('_mut'):
                out.append('    fn %s(&mut self) -> Absent { Absent }' % nm)
            else:
                out.append('    fn %s(self) -> Absent { Absent }' % nm)
        out += ['}', 'impl Fallback for Inst {}',
                'fn op_absent(a: &[&str]) -> String {',
                '    let mut out: Vec<String> = Vec::new();']
        first = e.variants[0] if e.variants else None
        for nm in names:
            out.append('    { let mut v = mk("%s", 1, "").unwrap(); out.push(format!("%s={}", v.%s().d())); }' % (hx(first.ident), hx(nm), nm))
        out += ['    out.join(" ")', '}']
        return out, [('absent', 'op_absent')]

    FEATS = {'table': 'feat_table', 'is': 'feat_is', 'tryas': 'feat_tryas', 'absent': 'feat_absent', 'msg': 'feat_msg', 'prop': 'feat_prop', 'repr': 'feat_repr', 'disc': 'feat_disc', 'parse': 'feat_parse', 'names': 'feat_names', 'roundtrip': 'feat_roundtrip', 'iter': 'feat_iter',
             'count': 'feat_count', 'vnames': 'feat_vnames', 'varray': 'feat_varray'}

    def render(self):
        e = self.e
        if self.defs_only:
            out = ['use super::support::*;']
            if getattr(self, 'local_use', None):
                out.append(self.local_use)
            if self.shadow:
                out += ['mod core {}', 'mod std {}', 'mod alloc {}']
            out += self.enum_item(tuple(e.extra.get('base_derives', ('Debug', 'PartialEq', 'Clone'))))
            return '\n'.join(out) + '\n'
        out = ['use super::support::*;', 'use std::sync::atomic::Ordering;']
        if e.extra.get('import_derives_by_name'):
            # `use strum::EnumIter;` imports the derive macro AND whatever else the crate exports under that name
            out.append('#[allow(unused_imports)] use %s::{%s};' % (self.sp, ', '.join(e.derives)))
        if self.sp != 'strum' and not self.sp.startswith('::'):
            pass
        out += self.enum_item(tuple(e.extra.get('base_derives', ('Debug', 'PartialEq', 'Clone'))))
        out += self.fn_ident_of()
        if any(f in e.feats for f in ('parse', 'names', 'roundtrip', 'mk', 'iter', 'repr', 'disc', 'msg', 'prop', 'table', 'is', 'tryas', 'absent')):
            out += self.fn_mk()
            out += self.fn_payload()
        ops = []
        for f in e.feats:
            m = self.FEATS.get(f)
            if m is None:
                continue
            code, o = getattr(self, m)()
            out += code
            ops += o
        out.append('pub fn op(a: &[&str]) -> String {')
        out.append('    match a[0] {')
        for name, fn in ops:
            out.append('        "%s" => %s(a),' % (name, fn))
        out.append('        _ => "unsupported".to_string(),')
        out.append('    }')
        out.append('}')
        return '\n'.join(out) + '\n'


def name_keys(e, roundtrip=False, v=None):
    """the keys (in order) that the `names` / `roundtrip` ops print for this enum"""
    ks = []
    if 'Display' in e.derives:
        ks += ['display', 'to_string']
    if 'ToString' in e.derives and not roundtrip:
        ks += ['tostring']
    if 'AsRefStr' in e.derives:
        ks += ['asref']
    if 'AsStaticStr' in e.derives and not roundtrip:
        ks += ['asstatic']
    if 'IntoStaticStr' in e.derives:
        ks += ['intoref'] + (['intostr'] if e.cis else []) + ['into']
    if roundtrip and 'EnumMessage' in e.derives and v is not None:
        n = len(v.ser) + (1 if v.ts is not None else 0)
        ks += ['ser%d' % i for i in range(max(n, 1))]
    return ks


def render_shard(especs, strum_path='strum', gen_cls=EnumGen):
    """returns {relative file name: content} for one shard's src/ directory"""
    files = {'support.rs': SUPPORT_RS}
    main = [MAIN_RS_HEAD]
    for e in especs:
        main.append('mod e_%s;' % e.id)
        files['e_%s.rs' % e.id] = gen_cls(e, strum_path).render()
    main.append('fn dispatch(id: &str, a: &[&str]) -> String {')
    main.append('    match id {')
    for e in especs:
        main.append('        "%s" => e_%s::op(a),' % (e.id, e.id))
    main.append('        _ => "no-such-enum".to_string(),')
    main.append('    }')
    main.append('}')
    main.append(MAIN_RS_TAIL)
    files['main.rs'] = '\n'.join(main)
    return files
