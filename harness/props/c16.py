"""C16 — use_phf is a pure optimisation of EnumString."""
import copy
from ..core import Result, Corpus, proof_stage, correspond, distribution
from ..spec import ESpec, VSpec, hx
from .. import strcorpus, runner

SPELL_CLASSES = [('mixed', 'MiXeD%d'), ('lower', 'alllower%d'), ('upper', 'ALLUPPER%d'), ('digits', '123%d'), ('nonascii', 'é%d'),
                 ('punct', '-_-%d'), ('mixed-nonascii', 'Ünï%dß')]


def special_enums():
    out = []
    n = 0
    for eci in (False, True):
        for layout in range(4):
            e = ESpec(id='c16x%d' % n, name='EnC16x%d' % n, ci=eci, derives=['EnumString'], feats=['parse'])
            for k, (cls, fmt) in enumerate(SPELL_CLASSES):
                v = VSpec(ident='Sp%d' % k, ci=[None, True, False][(k + layout) % 3])
                s = fmt % k
                if layout == 0:
                    v.ser = [s]
                elif layout == 1:
                    v.ts = s
                elif layout == 2:
                    v.ser = [s, s.swapcase() + 'q']      # two spellings
                else:
                    v.ser = [s, s.swapcase()] if s.swapcase() != s else [s]   # two spellings differing only in case (same variant)
                e.variants.append(v)
            if layout % 2 == 0:
                e.variants.append(VSpec(ident='Empty', ser=[''], ci=True))
            e.variants.append(VSpec(ident='plainident', ci=None))
            e.variants.append(VSpec(ident='SHOUT', ci=True))
            e.variants.append(VSpec(ident='Gone', dis=True, ser=['gone']))
            if layout in (1, 3):
                e.variants.insert(2, VSpec(ident='Other', kind='tuple', ftypes=['String'], default=True))
            e.extra['shape'] = 'special/eci=%s/layout%d' % (eci, layout)
            out.append(e)
            n += 1
    return out


def generate(tier, rng):
    base = strcorpus.build_enums(rng, tier, 'C16', unit_only=True, with_default='some', with_err='some',
                                 passes=3 if tier == 'quick' else 10, per_enum=6)
    base += special_enums()
    base += strcorpus.build_soup(rng, tier, 'C16', unit_only=True, n=20 if tier == 'quick' else 200)
    info = strcorpus.query_model(base)
    c = Corpus()
    for e in base:
        dom = info[e.id]['nooverlap']
        t = copy.deepcopy(e)
        t.id, t.name, t.phf = e.id + 'p', e.name + 'P', True
        c.add(e, in_domain=dom)
        c.add(t, in_domain=dom)
        for s, cls in strcorpus.parse_inputs(rng, e, info[e.id], tier, max_full=6 if tier == 'quick' else 12):
            c.op(e.id, 'parse %s' % hx(s), cls)
            c.op(t.id, 'parse %s' % hx(s), 'phf:' + cls)
    return c


def run(tier, seed, rng):
    res = Result('C16', tier, seed)
    proof_stage(res, 'C16')
    c = generate(tier, rng)
    out = correspond(res, c, runner.Workspace('c16', features=('derive', 'phf')), label='modeB-phf')
    # direct comparison of the twins on the implementation side
    bad = 0
    imp = out['impl']
    for k in range(0, len(c.ops) - 1, 2):
        a, b = imp[k], imp[k + 1]
        if a is None or b is None:
            continue
        if a != b and c.by_id[c.ops[k].eid].extra.get('in_domain'):
            bad += 1
            res.violation({'kind': 'oracle', 'op': c.ops[k].line, 'impl': {'plain': a, 'phf': b}, 'enum': c.by_id[c.ops[k + 1].eid].to_json(),
                           'what': 'phf-backed parser differs from the plain parser on the same input'})
    res.cov['impl_vs_oracle_failures'] = bad
    table, distinct = distribution(c, out['model'])
    res.cov['input_distribution'] = table
    res.cov['distinct_nontrivial'] = len(distinct)
    res.cov['rule'] = ("field-less Clone enums of C01's domain (kind unit x naming x ci, default variant carrying its String, disabled variants, custom error) plus spelling classes "
                       'mixed / all-lower / all-upper / digits / punctuation / non-ASCII / empty / two spellings differing only in case, ci at enum and variant level; each built twice '
                       '(with and without use_phf, phf feature on); inputs: C01/C12 input set; distinct = (enum shape, class, answer kind)')
    res.samples = [{'enum': c.especs[-1].model_lines()}] + [{'op': o.line, 'class': o.cls, 'model': m} for o, m in list(zip(c.ops, out['model']))[:6]]
    return res.finish()
