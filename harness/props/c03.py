"""C03 — all string-producing derives agree on one canonical name per variant."""
import copy
from ..core import Result, Corpus, proof_stage, correspond, distribution
from ..spec import hx
from .. import namecorpus, runner, rustgen


def generate(tier, rng):
    derives = ['Display', 'AsRefStr', 'IntoStaticStr', 'VariantNames']
    enums = namecorpus.build_enums(rng, tier, 'C03', derives, ['names', 'vnames'], generics_pool=('', 'ty', '', 'lt', 'const', 'ty_nd'),
                                   namings=namecorpus.NAMINGS + namecorpus.TIE_NAMINGS)
    # a forwarding (transparent) variant next to the fixed-name ones: the impls of the whole enum must not change shape
    from ..spec import VSpec
    for j, e in enumerate(enums):
        if j % 5 == 2 and not e.cis:
            # (at the end, or in the middle: what stands AFTER a forwarding variant is named like everything else)
            e.variants.insert(len(e.variants) if j % 10 == 2 else 1, VSpec(ident='FwdInner', kind='tuple', ftypes=['StaticStr'], tr=True))
            e.extra['shape'] = e.extra.get('shape', '') + ' +transparent'
    from .. import strcorpus
    from ..spec import ESpec
    # two variants with ONE canonical name (neighbours and not): every derive still answers per variant, VARIANTS per index
    for j, (style, pfx) in enumerate([(None, None), ('snake_case', 'p/')]):
        e = ESpec(id='c03dup%d' % j, name='EnC03dup%d' % j, style=style, prefix=pfx, derives=list(derives), feats=['names', 'vnames'])
        e.variants = [VSpec(ident='Low'), VSpec(ident='FooBar'), VSpec(ident='Mid', ts='Low' if style is None else 'low'), VSpec(ident='High'),
                      VSpec(ident='Alias', ser=['FooBar' if style is None else 'foo_bar']), VSpec(ident='Twin', ser=['High' if style is None else 'high'])]
        e.extra['shape'] = 'duplicate canonical names'
        e.extra['no_noise'] = True
        enums.append(e)
    # ORDER: ordinary variants standing after a transparent, a default, a disabled variant - with and without prefix / style
    for j, (style, pfx) in enumerate([(None, None), (None, 'colour/'), ('kebab-case', 'p.'), ('SCREAMING_SNAKE_CASE', None)]):
        e = ESpec(id='c03ord%d' % j, name='EnC03ord%d' % j, style=style, prefix=pfx, derives=list(derives), feats=['names', 'vnames'])
        e.variants = [VSpec(ident='FirstOne'), VSpec(ident='Fwd', kind='tuple', ftypes=['StaticStr'], tr=True), VSpec(ident='AfterFwd'),
                      VSpec(ident='CatchAll', kind='tuple', ftypes=['String'], default=True), VSpec(ident='AfterDefault'),
                      VSpec(ident='WithTs', ts='shown'), VSpec(ident='Off', dis=True, ser=['off-name']), VSpec(ident='AfterOff', kind='named', ftypes=['u8'], fnames=['x'], fdw=[None]),
                      VSpec(ident='DefaultWithTs', kind='tuple', ftypes=['String'], dis=True, default=True, ts='dts'), VSpec(ident='LastOne', ser=['l', 'last-one'])]
        e.extra['shape'] = 'order: after transparent / default / disabled'
        if j % 2:
            e.extra['no_noise'] = True
        enums.append(e)
    # each string derive ALONE (and in pairs), with every enum-level flag the others consume: no derive may lean on an item
    # that a sibling derive generates (`into_str` exists only with IntoStaticStr + const_into_str)
    solo_sets = [['Display'], ['AsRefStr'], ['IntoStaticStr'], ['VariantNames'], ['AsRefStr', 'VariantNames'], ['Display', 'IntoStaticStr'], ['AsRefStr', 'Display']]
    for j, ds in enumerate(solo_sets):
        for cis in (True, False):
            e = ESpec(id='c03solo%d%d' % (j, cis), name='EnC03solo%d%d' % (j, cis), style=[None, 'snake_case', 'UPPERCASE'][j % 3], prefix=[None, 'p-'][j % 2],
                      derives=list(ds), feats=['names'] + (['vnames'] if 'VariantNames' in ds else []))
            e.cis = cis
            e.variants = [VSpec(ident='PlainOne'), VSpec(ident='WithTs', ts='shown', kind='tuple', ftypes=['u8']), VSpec(ident='WithSer', ser=['s', 'longer']),
                          VSpec(ident='Named', kind='named', ftypes=['i32'], fnames=['alpha'], fdw=[None]), VSpec(ident='Off', dis=True)]
            e.extra['shape'] = 'solo derives %s cis=%s' % ('+'.join(ds), cis)
            e.extra['no_twin'] = True
            enums.append(e)
    # NO serialize_all: identifiers are used exactly as written, whatever their shape
    for j, pfx in enumerate((None, 'x.')):
        e = ESpec(id='c03asis%d' % j, name='EnC03asis%d' % j, style=None, prefix=pfx, derives=list(derives), feats=['names', 'vnames'])
        e.variants = [VSpec(ident=i) for i in ('HTTPServer', 'legacy_name', 'Foo_Bar', 'lowerStart', '_Lead', 'Trail_', 'IOError', 'X9y', 'ALLCAPS', 'Plain')]
        e.variants[2].kind, e.variants[2].ftypes = 'tuple', ['u8']
        e.extra['shape'] = 'no style, identifiers as written'
        e.extra['no_noise'] = True
        enums.append(e)
    # the empty string is a name like any other
    for j, pfx in enumerate((None, 'p:')):
        e = ESpec(id='c03empty%d' % j, name='EnC03empty%d' % j, prefix=pfx, derives=list(derives), feats=['names', 'vnames'])
        e.variants = [VSpec(ident='OnlyEmptySer', ser=['']), VSpec(ident='EmptyTs', ts=''), VSpec(ident='EmptyAndMore', ser=['', 'none']),
                      VSpec(ident='EmptyTsLongSer', ts='', ser=['long-one'], kind='tuple', ftypes=['u8']), VSpec(ident='Plain')]
        e.extra['shape'] = 'empty names'
        e.extra['no_noise'] = True
        enums.append(e)
    soup = strcorpus.build_soup(rng, tier, 'C03', derives=derives, feats=['names', 'vnames'], n=30 if tier == 'quick' else 300,
                                prefix_pool=namecorpus.PREFIXES, with_default=False)
    for e in soup:
        e.cis = rng.random() < 0.5
    enums += soup
    c = Corpus()
    for e in enums:
        c.add(e)
        # twin carrying the deprecated derives (ToString conflicts with Display's blanket impl)
        if e.extra.get('no_twin'):
            keys = ','.join(rustgen.name_keys(e))
            for v in e.variants:
                if keys and not (v.dis or v.default or v.tr):
                    c.op(e.id, 'names %s 1 x %s' % (hx(v.ident), keys), 'solo/' + namecorpus.naming_class(v) + '/' + v.kind)
            if 'VariantNames' in e.derives:
                c.op(e.id, 'variants', 'VARIANTS')
            continue
        t = copy.deepcopy(e)
        t.id = e.id + 't'
        t.name = e.name + 'T'
        t.derives = ['ToString', 'AsStaticStr']
        t.cis = False
        t.feats = ['names']
        t.extra = dict(e.extra, enum_attrs=['#[allow(deprecated)]'])
        c.add(t)
        for x in (e, t):
            keys = ','.join(rustgen.name_keys(x))
            for v in x.variants:
                if v.dis or v.default or v.tr:
                    continue
                cls = namecorpus.naming_class(v) + '/' + v.kind
                c.op(x.id, 'names %s 1 x %s' % (hx(v.ident), keys), cls, verdict=not cls.startswith('ser') or 'tie' not in cls)
        c.op(e.id, 'variants', 'VARIANTS')
    return c


def run(tier, seed, rng):
    res = Result('C03', tier, seed)
    proof_stage(res, 'C03')
    c = generate(tier, rng)
    out = correspond(res, c, runner.Workspace('c03'), label='modeB')
    table, distinct = distribution(c, out['model'])
    res.cov['input_distribution'] = table
    res.cov['distinct_nontrivial'] = len(distinct)
    res.cov['rule'] = ('variant kinds x naming layouts (none, to_string, 1-3 serialize in every order of lengths incl. byte-vs-char '
                       'length disagreement, both) x prefix {none, "", ASCII, non-ASCII} x 17 style strings x const_into_str x generics; '
                       'each enum twice (Display/AsRefStr/IntoStaticStr/VariantNames and a twin with deprecated ToString/AsStaticStr); '
                       'distinct = (enum shape, naming class/kind, answer kind); all are non-trivial (each compares 2-6 derive outputs with the canonical name)')
    res.samples = [{'enum': c.especs[0].model_lines()}] + [{'op': o.line, 'class': o.cls, 'model': m} for o, m in list(zip(c.ops, out['model']))[:6]]
    return res.finish()
