"""C07 — each serialize_all style renames identifiers to exactly that documented case."""
import itertools
from ..core import Result, Corpus, proof_stage, correspond, distribution
from ..spec import ESpec, VSpec, hx
from .. import modea, leanside, runner, rustgen, strcorpus, textgen

ALPHABET = 'abAB0_'
STYLE_STRINGS = strcorpus.ALL_STYLE_STRINGS
BAD_STYLES = ['snake', 'Snake_Case', 'camelcase', 'PASCALCASE', 'kebab case', '', 'train-case', 'SCREAMING_KEBAB_CASE', 'Title Case', 'lowerCase']
DICT = textgen.DICT_IDENTS + ['HTTPSConnection', 'getHTTPResponseCode', 'a1B2c3', 'ABc', 'AbC', 'aBC', 'A_B', 'a__b', '_lead', 'trail_', '__dunder__',
                              'X1Y2', 'IPv6Addr', 'Iso8601', 'v2', 'V2Beta3', 'UTF8String', 'macOS', 'iPhone', 'NaN', 'Zzz9_9zzZ']
# every ASCII letter in first position (lower and upper case), and after a leading underscore: mode B goes through the
# attribute-collection code, where an identifier-level rewrite would sit
import string
DICT += [c + 'elAy9' for c in string.ascii_lowercase] + [c + 'x_' + c.lower() for c in string.ascii_uppercase] + ['_' + c + 'q' for c in 'rRzZ09']
RUST_KEYWORDS = {'as', 'do', 'fn', 'if', 'in', 'Self', 'self', 'box', 'dyn', 'for', 'let', 'mod', 'mut', 'pub', 'ref', 'try', 'use', 'abstract', 'a', 'b'}


def valid_ident(s):
    return s and not s[0].isdigit() and s != '_'


def all_idents(maxlen):
    for n in range(1, maxlen + 1):
        for t in itertools.product(ALPHABET, repeat=n):
            s = ''.join(t)
            if valid_ident(s):
                yield s


def run(tier, seed, rng):
    res = Result('C07', tier, seed)
    proof_stage(res, 'C07')
    maxlen = 5 if tier == 'quick' else 7
    # ---- mode A: exhaustive identifiers x 17 style strings, the macro's own convert_case / CaseStyle::from_str / snakify
    ok, err, wall, binp = modea.build()
    if not ok:
        raise RuntimeError('mode A build failed:\n' + err)
    idents = list(all_idents(maxlen)) + DICT
    lines = []
    for st in STYLE_STRINGS + BAD_STYLES:
        lines.append('style %s' % hx(st))
    for s in idents:
        for st in STYLE_STRINGS:
            lines.append('case %s %s' % (st, hx(s)))
        lines.append('case - %s' % hx(s))   # no serialize_all: the identifier as written
    mout = leanside.run_driver(lines)
    iout = modea.run(binp, lines)
    assert len(mout) == len(iout) == len(lines), (len(mout), len(iout), len(lines))
    nbad = 0
    for l, m, i in zip(lines, mout, iout):
        if m != i:
            nbad += 1
            if nbad <= 5:
                res.violation({'kind': 'disagreement', 'label': 'modeA', 'op': l, 'model': m, 'impl': i,
                               'what': 'convert_case / CaseStyle::from_str differs from the model (= the documented word-splitting spec by theorem)'})
    res.cov['modeA'] = {'identifiers': len(idents), 'max_len': maxlen, 'alphabet': ALPHABET, 'style_strings': len(STYLE_STRINGS), 'rejected_style_strings': len(BAD_STYLES),
                        'evaluations': len(lines), 'build_s': round(wall, 1), 'disagreements': nbad}
    res.cov['evaluations'] = len(lines)
    res.cov['exhaustive'] = True
    # ---- identifiers with non-ASCII letters are outside the Lean model (Unicode tables are not modelled): a TEST, not a
    # proof - the crate's convert_case against a transcription of the documented style table over the external heck crate
    NONASCII = ['Café', 'Über_Größe', 'naïveBar', 'Straße2Go', 'ÉcoleNormale', 'Ωmega3', 'ЖукЖук', 'x9é', 'ÀB', 'déjàVu', 'ǅx', 'İstanbul']
    l2 = ['case %s %s' % (st, hx(s)) for st in STYLE_STRINGS for s in NONASCII]
    r2 = ['caseref %s %s' % (st, hx(s)) for st in STYLE_STRINGS for s in NONASCII]
    o2 = modea.run(binp, l2 + r2)
    nb2 = 0
    for l, got, ref in zip(l2, o2[:len(l2)], o2[len(l2):]):
        if got != ref:
            nb2 += 1
            if nb2 <= 2:
                res.violation({'kind': 'disagreement', 'label': 'modeA-nonascii', 'op': l, 'model': ref, 'impl': got,
                               'what': 'convert_case on a non-ASCII identifier differs from the reference transcription (outside the Lean model: differential test)'})
    res.cov['nonascii_identifiers_tested_outside_model'] = {'identifiers': len(NONASCII), 'styles': len(STYLE_STRINGS), 'disagreements': nb2}
    # ---- mode B: the renamed identifier is used identically by every derive
    sample = [s for s in DICT if s not in RUST_KEYWORDS]
    pool = [s for s in all_idents(4) if s not in RUST_KEYWORDS and any(ch.isalpha() for ch in s)]
    rng.shuffle(pool)
    sample += pool[:(120 if tier == 'quick' else 300)]
    c = Corpus()
    k = 0
    derives = ['EnumString', 'Display', 'AsRefStr', 'IntoStaticStr', 'VariantNames', 'EnumMessage']
    enums = []
    for st in STYLE_STRINGS:
        for i in range(0, len(sample), 10):
            chunk = sample[i:i + 10]
            # the renamed identifier is what a case-insensitive variant compares against, too
            e = ESpec(id='c07_%d' % k, name='EnC07x%d' % k, style=st, derives=derives, feats=['parse', 'names', 'vnames', 'roundtrip'], ci=(k % 3 == 1),
                      prefix=[None, None, 'px/', None, 'É'][k % 5])
            seen = set()
            for j, s in enumerate(chunk):
                if s in seen:
                    continue
                seen.add(s)
                e.variants.append(VSpec(ident=s, ci=(True if (k % 3 == 2 and j % 3 == 0) else None)))
            # explicit names must never be re-cased
            e.variants.append(VSpec(ident='ExplicitTs', ts='Keep_ThisCASE'))
            e.variants.append(VSpec(ident='ExplicitSer', ser=['ser_Keep-CASE', 'x']))
            e.extra['shape'] = 'style=%s' % st
            enums.append(e)
            k += 1
    # the style decides the printed names whatever ELSE the header carries: flags only EnumString reads (use_phf,
    # ascii_case_insensitive, parse_err_*) on enums that derive no EnumString at all
    printing = []
    for j, st in enumerate(STYLE_STRINGS):
        e = ESpec(id='c07p_%d' % j, name='EnC07p%d' % j, style=st, derives=['Display', 'AsRefStr', 'IntoStaticStr', 'VariantNames', 'EnumMessage'],
                  feats=['names', 'vnames'], ci=(j % 3 != 2), prefix=[None, 'p/'][j % 2])
        e.phf = (j % 3 != 1)
        e.variants = [VSpec(ident=x) for x in ('ContentType', 'HTTPServer', 'lower_case', 'X9y', 'Plain')] + [VSpec(ident='NoFold', ci=False), VSpec(ident='ExplicitTs', ts='Keep_ThisCASE')]
        e.extra['shape'] = 'printing derives only, style=%s phf=%s ci=%s' % (st, e.phf, e.ci)
        e.extra['no_noise'] = True
        printing.append(e)
    info = strcorpus.query_model(enums)
    for e in printing:
        c.add(e)
        keys = ','.join(rustgen.name_keys(e))
        c.op(e.id, 'variants', 'VARIANTS/printing-only')
        for v in e.variants:
            c.op(e.id, 'names %s 0 x %s' % (hx(v.ident), keys), 'names/printing-only')
    for e in enums:
        c.add(e, in_domain=info[e.id]['nooverlap'])
        keys = ','.join(rustgen.name_keys(e))
        c.op(e.id, 'variants', 'VARIANTS')
        for v in e.variants:
            c.op(e.id, 'names %s 0 x %s' % (hx(v.ident), keys), 'names')
            for sp in info[e.id]['spellings'][v.ident]:
                c.op(e.id, 'parse %s' % hx(sp), 'parse-renamed')
            c.op(e.id, 'parse %s' % hx(v.ident), 'parse-original')
            c.op(e.id, 'roundtrip %s %s' % (hx(v.ident), ','.join(rustgen.name_keys(e, roundtrip=True, v=v))), 'roundtrip')
    out = correspond(res, c, runner.Workspace('c07'), label='modeB')
    # the SAME identifiers under alternating styles, all in ONE crate (one rustc process, the derives expanded one after the
    # other): nothing may carry over from one enum to the next
    cs = Corpus()
    seq_styles = ['snake_case', 'kebab-case', 'snake_case', 'UPPERCASE', 'snake_case', 'PascalCase', 'kebab-case', 'snake_case']
    for j, st in enumerate(seq_styles):
        e = ESpec(id='c07seq%d' % j, name='EnC07seq%d' % j, style=st, derives=['Display', 'EnumString'], feats=['parse', 'names'])
        e.variants = [VSpec(ident=x) for x in ('DarkBlack', 'BrightWhite', 'HTTPServer', 'lower_case')]
        e.extra['shape'] = 'same identifiers, style sequence position %d (%s)' % (j, st)
        e.extra['no_noise'] = True
        cs.add(e)
        keys = ','.join(rustgen.name_keys(e))
        for v in e.variants:
            cs.op(e.id, 'names %s 0 x %s' % (hx(v.ident), keys), 'names/sequence')
    correspond(res, cs, runner.Workspace('c07seq'), nshards=1, label='modeB-one-crate')
    table, distinct = distribution(c, out['model'])
    res.cov['input_distribution'] = table
    res.cov['distinct_nontrivial'] = len(idents) * len(STYLE_STRINGS)
    res.cov['rule'] = ('mode A: EVERY valid identifier over {a,b,A,B,0,_} up to length %d plus a dictionary of realistic names x all 17 accepted style strings (and 10 strings that must be rejected), '
                       'through the macro own CaseStyle::from_str + Ident::convert_case run in-process from /repo sources; mode B: %d identifiers x 17 styles compiled with EnumString, Display, AsRefStr, '
                       'IntoStaticStr, VariantNames, EnumMessage: the renamed identifier in VARIANTS, every printed form, accepted by from_str, the original spelling parsed too, every derive parsed back, '
                       'explicit serialize/to_string variants untouched; distinct_nontrivial = identifiers x styles (each a different (input, configuration) pair)' % (maxlen, len(sample)))
    res.samples = [{'modeA': lines[30], 'model': mout[30], 'impl': iout[30]}, {'modeA': lines[-5], 'model': mout[-5], 'impl': iout[-5]},
                   {'modeB_enum': c.especs[0].model_lines()[:4]}]
    return res.finish()
