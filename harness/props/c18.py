"""C18 — a custom parse error is the user's function applied to the exact rejected input."""
from ..core import Result, Corpus, proof_stage, correspond, distribution
from ..spec import hx
from .. import strcorpus, runner


def generate(tier, rng):
    enums = strcorpus.build_enums(rng, tier, 'C18', with_default='none', with_err='some', passes=1 if tier == 'quick' else 3)
    enums += strcorpus.build_soup(rng, tier, 'C18', with_default=True, n=20 if tier == 'quick' else 200)
    for e in enums[-(20 if tier == 'quick' else 200):]:
        e.err = (int(e.id[4:]) % 3 != 0)
    for e in enums:
        for v in e.variants:
            if v.default:
                v.dis = True   # C18's domain has no (effective) default variant; a disabled one must be ignored entirely
    for j, e in enumerate(enums):
        if e.prefix is None and j % 3 == 0:
            e.prefix = ['colour/', 'p_', 'É-'][(j // 3) % 3]
    info = strcorpus.query_model(enums)
    c = Corpus()
    for e in enums:
        c.add(e, in_domain=info[e.id]['nooverlap'])
        for s, cls in strcorpus.parse_inputs(rng, e, info[e.id], tier, max_full=5 if tier == 'quick' else 10):
            c.op(e.id, 'parse %s' % hx(s), ('custom:' if e.err else 'std:') + cls)
    strcorpus.pointwise_domain(c)
    return c


def run(tier, seed, rng):
    res = Result('C18', tier, seed)
    proof_stage(res, 'C18')
    from .. import fixedprog
    fixedprog.run_fixed(res, 'fx_fn_local', fixedprog.FN_LOCAL, 'the enum, its parse_err_ty / parse_err_fn and its default_with functions all declared inside a function body')
    c = generate(tier, rng)
    out = correspond(res, c, runner.Workspace('c18'), label='modeB')
    # the same with the phf-backed matcher (field-less enums; with and without case-insensitive variants)
    import copy
    cp = Corpus()
    pen = []
    for e in c.especs:
        if e.err and all(v.kind == 'unit' for v in e.variants) and not e.generics and len(pen) < (12 if tier == 'quick' else 60):
            t = copy.deepcopy(e)
            t.id, t.name, t.phf = e.id + 'p', e.name + 'P', True
            if len(pen) % 2 == 0:
                t.ci = False
                for v in t.variants:
                    v.ci = None   # no case-insensitive arm at all: the phf lookup is the only matcher
            pen.append(t)
    if pen:
        pinfo = strcorpus.query_model(pen)
        for t in pen:
            cp.add(t, in_domain=pinfo[t.id]['nooverlap'])
            for s, cls in strcorpus.parse_inputs(rng, t, pinfo[t.id], tier, max_full=4):
                cp.op(t.id, 'parse %s' % hx(s), 'phf-custom:' + cls)
        correspond(res, cp, runner.Workspace('c18phf', features=('derive', 'phf')), label='modeB-phf')
    # direct oracle on the implementation's answers: the error carries the input byte for byte, one call; no call on success
    bad = 0
    for o, got in zip(c.ops, out['impl']):
        e = c.by_id[o.eid]
        if got is None or not e.err:
            continue
        inp = o.line.split(' ')[3]
        if got.startswith('err custom'):
            if got != 'err custom %s calls=1' % inp:
                bad += 1
                res.violation({'kind': 'oracle', 'op': o.line, 'impl': got, 'enum': e.to_json(), 'what': 'custom error does not carry the exact input / call count != 1'})
        elif got.startswith('ok') and not got.endswith('calls=0'):
            bad += 1
            res.violation({'kind': 'oracle', 'op': o.line, 'impl': got, 'enum': e.to_json(), 'what': 'parse_err_fn invoked for an accepted input'})
    res.cov['impl_vs_oracle_failures'] = bad
    table, distinct = distribution(c, out['model'])
    res.cov['input_distribution'] = table
    res.cov['distinct_nontrivial'] = len([d for d in distinct if not d[1].endswith('random-ascii')])
    res.cov['rule'] = ("C01's corpus without default variants x {custom error, standard error}; error type asserted at compile time through "
                       "<E as FromStr>::Err / <E as TryFrom<&str>>::Error; the corpus's parse_err_fn stores its argument and bumps a counter; "
                       'distinct = (enum shape, error mode:input class, answer kind)')
    res.samples = [{'enum': c.especs[1].model_lines()}] + [{'op': o.line, 'class': o.cls, 'model': m} for o, m in list(zip(c.ops, out['model']))[:6]]
    return res.finish()
