"""C19 — generated code depends only on ::core and on the configured strum path."""
import random, copy, os
from ..core import Result, Corpus, proof_stage
from ..spec import ESpec, VSpec, hx
from .. import rustgen, runner, modea, leanside, malformed
from . import c01, c04, c06, c08, c09, c10, c11, c13, c14, c15, c17, c02

NON_DEPRECATED = ['EnumString', 'Display', 'AsRefStr', 'IntoStaticStr', 'VariantNames', 'VariantArray', 'EnumIter', 'EnumCount',
                  'FromRepr', 'EnumIs', 'EnumTryAs', 'EnumTable', 'EnumMessage', 'EnumProperty', 'EnumDiscriminants']


def collect(tier, seed):
    """the corpora of the other properties (definitions only)"""
    out = []
    seen = set()
    gens = [('C01', lambda r: c01.generate(tier, r).especs), ('C02', lambda r: c02.generate(tier, r).especs),
            ('C04', lambda r: c04.generate(tier, r).especs), ('C06', lambda r: c06.generate('quick', r).especs[::3]),
            ('C08', lambda r: c08.generate(tier, r).especs), ('C09', lambda r: c09.generate('quick', r).especs[::2]),
            ('C10', lambda r: c10.generate('quick', r).especs), ('C11', lambda r: c11.generate('quick', r).especs),
            ('C13', lambda r: c13.generate(tier, r).especs), ('C14', lambda r: c14.generate(tier, r).especs),
            ('C15', lambda r: c15.generate('quick', r).especs), ('C17', lambda r: c17.generate('quick', r).especs)]
    for name, g in gens:
        for e in g(random.Random(seed)):
            if e.id in seen or e.id == 'c17kf' or e.phf:
                continue
            if not e.extra.get('in_domain', True):
                continue
            seen.add(e.id)
            e = copy.deepcopy(e)
            e.derives = [d for d in e.derives if d in NON_DEPRECATED]
            e.extra['from'] = name
            out.append(e)
    return out


class NoStdGen(rustgen.EnumGen):
    palette_map = rustgen.NOSTD_MAP
    defs_only = True


class PlainDefs(rustgen.EnumGen):
    palette_map = rustgen.NOSTD_MAP
    defs_only = True


class LocalNameDefs(PlainDefs):
    """strum is reachable only under a one-segment LOCAL name (a `use` alias, not a crate of the extern prelude)"""
    local_use = 'use crate::reexport::inner as st;'


class SoloDefs(rustgen.EnumGen):
    palette_map = rustgen.NOSTD_MAP
    defs_only = True


def solo_clones(especs, only=None):
    out = []
    for e in especs:
        ds = [d for d in e.derives if only is None or d in only]
        if len(e.derives) < 2:
            continue
        for d in ds:
            if d == 'EnumTable' or (d == 'VariantArray' and any(v.kind != 'unit' for v in e.variants)):
                continue
            c = copy.deepcopy(e)
            c.id = '%s_solo_%s' % (e.id, d.lower())
            c.name = '%sSolo%s' % (e.name, d)
            c.derives = [d]
            if d != 'EnumDiscriminants':
                # helper attributes of a derive that is no longer requested
                c.extra['enum_attrs'] = [a for a in c.extra.get('enum_attrs', []) if 'strum_discriminants' not in a]
                c.extra['variant_attrs'] = {k: [a for a in v if 'strum_discriminants' not in a] for k, v in c.extra.get('variant_attrs', {}).items()}
            c.extra['from'] = e.extra.get('from')
            c.extra['shape'] = 'solo %s of %s' % (d, e.extra.get('shape', e.id))
            out.append(c)
    return out


class ShadowDefs(rustgen.EnumGen):
    palette_map = rustgen.NOSTD_MAP
    defs_only = True
    shadow = True


class NeutralGen(rustgen.EnumGen):
    """for mode A: user-written parts of the item avoid the names on the watch list"""
    palette_map = dict(rustgen.NOSTD_MAP, OptU8='u8')
    generic_bound = 'Bnd'


SUPPORT_STD = rustgen.SUPPORT_NOSTD_RS  # the same allocation-free support types work everywhere


def build_config(res, label, especs, ws, gen_for, lib_head, extra_main='', pair_with=None):
    def render(es):
        files = {'support.rs': SUPPORT_STD}
        main = [lib_head, 'mod support;', extra_main]
        for k, e in enumerate(es):
            g = gen_for(e, k)
            src = g.render()
            if pair_with and e.id in pair_with:
                # a second definition in the SAME module: nothing a derive emits at module level may collide
                src += '\n'.join(l for l in gen_for(pair_with[e.id], k).render().split('\n')[1:] if not l.startswith('pub type Inst'))
            files['e_%s.rs' % e.id] = src
            main.append('mod e_%s;' % e.id)
        files['lib.rs'] = '\n'.join(main) + '\n'
        return files
    ws.lock()
    try:
        # remove a stale main.rs from other layouts
        shard_of, failed, st = runner.build_corpus(ws, especs, nshards=16, render=render, max_rounds=8)
    except runner.BuildError as ex:
        # rustc keeps failing after the blamed definitions were dropped: the configuration as a whole does not build
        res.violation({'kind': 'compile_error', 'label': label, 'errors': [{'message': str(ex)[-3000:]}],
                       'what': 'the corpus does not build under configuration %s (errors not attributable to single definitions)' % label})
        res.cov.setdefault('configurations', {})[label] = {'programs': len(especs), 'failed': 'build'}
        return {}
    finally:
        ws.unlock()
    for eid, errs in failed.items():
        e = next(x for x in especs if x.id == eid)
        res.violation({'kind': 'compile_error', 'label': label, 'enum': e.to_json(), 'errors': errs[:3],
                       'what': 'in-domain definition does not compile under configuration %s' % label})
    res.cov.setdefault('configurations', {})[label] = {'programs': len(especs), 'failed': len(failed), 'build_s': round(st['wall_s'], 1), 'rounds': st['rounds']}
    return failed


LINK_MAIN = r'''// a freestanding program: no std, no `alloc`, no #[global_allocator]; it must LINK and exit with status 0
#![no_std]
#![no_main]
#![allow(warnings)]
use core::str::FromStr;
use strum::{EnumCount, IntoEnumIterator, VariantNames, EnumMessage, EnumProperty, IntoDiscriminant, VariantArray};

#[derive(Debug, Clone, Copy, PartialEq, strum::EnumString, strum::EnumIter, strum::EnumCount, strum::VariantNames, strum::IntoStaticStr,
         strum::FromRepr, strum::AsRefStr, strum::EnumMessage, strum::EnumProperty, strum::EnumDiscriminants, strum::EnumIs,
         strum::VariantArray, strum::EnumTable)]
#[strum(serialize_all = "kebab-case")]
enum Mode {
    #[strum(message = "ro", props(level = 1))]
    ReadOnly,
    ReadWrite,
}
#[derive(Debug, PartialEq, strum::Display, strum::EnumTryAs)]
enum Msg {
    #[strum(to_string = "n={0}")]
    Num(u8),
    Plain,
}

#[link(name = "c")]
extern "C" {}
#[no_mangle]
pub extern "C" fn rust_eh_personality() {}
#[panic_handler]
fn panic(_: &core::panic::PanicInfo) -> ! { loop {} }

struct Buf { b: [u8; 32], n: usize }
impl core::fmt::Write for Buf {
    fn write_str(&mut self, s: &str) -> core::fmt::Result { for x in s.bytes() { if self.n < 32 { self.b[self.n] = x; self.n += 1; } } Ok(()) }
}

#[no_mangle]
pub extern "C" fn main(_argc: i32, _argv: *const *const u8) -> i32 {
    let mut bad = 0;
    if Mode::from_str("read-write") != Ok(Mode::ReadWrite) { bad += 1; }
    if Mode::from_str("nope") != Err(strum::ParseError::VariantNotFound) { bad += 1; }
    if Mode::iter().count() != Mode::COUNT { bad += 1; }
    if <Mode as VariantNames>::VARIANTS != ["read-only", "read-write"] { bad += 1; }
    if <Mode as VariantArray>::VARIANTS.len() != 2 { bad += 1; }
    let s: &'static str = Mode::ReadOnly.into();
    if s != "read-only" || Mode::ReadWrite.as_ref() != "read-write" { bad += 1; }
    if Mode::from_repr(1) != Some(Mode::ReadWrite) { bad += 1; }
    if Mode::ReadOnly.get_message() != Some("ro") || Mode::ReadOnly.get_int("level") != Some(1) { bad += 1; }
    if Mode::ReadOnly.discriminant() != ModeDiscriminants::ReadOnly || !Mode::ReadWrite.is_read_write() { bad += 1; }
    let t = ModeTable::filled(3u8);
    if t[Mode::ReadOnly] != 3 { bad += 1; }
    let mut w = Buf { b: [0; 32], n: 0 };
    let _ = core::fmt::write(&mut w, format_args!("{}|{}", Msg::Num(7), Msg::Plain));
    if &w.b[..w.n] != b"n=7|Plain" { bad += 1; }
    if Msg::Num(7).try_as_num() != Some(7) { bad += 1; }
    bad
}
'''


def link_stage(res):
    """the derives and the runtime crate (default features off) inside a freestanding #![no_std] BINARY without an allocator:
    it must link (a lib never shows a missing allocator) and exit 0"""
    import subprocess, shutil
    d = os.path.join(runner.SCRATCH, 'ws', 'c19link')
    os.makedirs(os.path.join(d, 'src'), exist_ok=True)
    runner._write_if_changed(os.path.join(d, 'src', 'main.rs'), LINK_MAIN)
    runner._write_if_changed(os.path.join(d, 'Cargo.toml'),
                             '[package]\nname = "c19link"\nversion = "0.0.0"\nedition = "2021"\n\n[workspace]\n\n[dependencies]\n'
                             'strum = { path = "%s/strum", default-features = false, features = ["derive"] }\n\n'
                             '[profile.dev]\npanic = "abort"\ndebug = false\nincremental = false\n' % runner.REPO)
    runner._write_if_changed(os.path.join(d, '.cargo', 'config.toml'), '[net]\noffline = true\n[build]\ntarget-dir = "%s"\n' % os.path.join(runner.SCRATCH, 'target-c19link'))
    if not os.path.exists(os.path.join(d, 'Cargo.lock')):
        shutil.copy(os.path.join(runner.REPO, 'Cargo.lock'), os.path.join(d, 'Cargo.lock'))
    p = subprocess.run(['cargo', 'run', '--offline', '-q'], cwd=d, env=runner.CARGO_ENV, stdout=subprocess.PIPE, stderr=subprocess.PIPE, text=True, timeout=1800)
    res.cov['nostd_link'] = {'exit': p.returncode, 'what': 'freestanding #![no_std] #![no_main] binary, 15 derives on two enums, strum default-features = false, no allocator: built, linked, run'}
    if p.returncode != 0:
        res.violation({'kind': 'nostd_link', 'exit': p.returncode, 'stderr': p.stderr[-3000:], 'source': LINK_MAIN,
                       'what': 'a #![no_std] program without an allocator that uses the derives does not build / link / run to exit 0 (exit = number of wrong answers when it runs)'})


def run(tier, seed, rng):
    res = Result('C19', tier, seed)
    proof_stage(res, 'C19')
    link_stage(res)
    especs = collect(tier, seed)
    if tier == 'quick':
        especs = especs[::2]
    # ---- (i) mode A: references of real expansions ⊆ the model's list
    ok, err, wall, binp = modea.build()
    if not ok:
        raise RuntimeError('mode A build failed:\n' + err)
    allowed = {}
    out = leanside.run_driver(['refs %s' % d for d in malformed.DERIVES])
    for d, o in zip(malformed.DERIVES, out):
        allowed[d] = set(x for x in o.split(',') if x)
    lines, meta = [], []
    for k, e in enumerate(especs):
        sp = ['my::strum_path', 'strum', 'st', '::strum', 'strum', '::strum::nested'][k % 6]
        src = NeutralGen(e, sp).enum_source()
        for d in e.derives:
            if d == 'FromRepr':
                continue
            lines.append('refs %s %s' % (d, hx(src)))
            meta.append((e, d, sp, src))
    aout = modea.run(binp, lines)
    nrefs = 0
    unacc = {}
    for (e, d, sp, src), o in zip(meta, aout):
        if not o.startswith('ok'):
            res.notes.append('mode A: %s on %s: %s' % (d, e.id, o[:120]))
            continue
        spn = sp.lstrip(':')
        for tok in [t for t in o[3:].split(',') if t]:
            nrefs += 1
            kind, _, path = tok.partition(':')
            if kind == 'abs':
                if path.startswith('core::'):
                    canon = 'absCore:' + path[6:]
                elif path.startswith('std::') or path.startswith('alloc::'):
                    canon = 'absStd:' + path.split('::', 1)[1]
                elif path.startswith(spn + '::') and sp != 'strum' and not sp.startswith('::'):
                    canon = 'absOther:' + path  # the user configured a RELATIVE path; `::` in front of it names something else
                elif path.startswith(spn + '::'):
                    canon = 'strumItem:' + path[len(spn) + 2:]
                elif path.startswith('strum::'):
                    canon = 'hardStrum:' + path[7:]
                else:
                    canon = 'absOther:' + path
            elif kind == 'rel':
                # (a configured path that STARTS with `::` must come out with it: the relative spelling can be shadowed by a local
                #  module of that name)
                canon = 'strumItem:' + path[len(spn) + 2:] if path.startswith(spn + '::') and not sp.startswith('::') else 'rel:' + path
            else:
                canon = tok
            if kind == 'bare':
                import re
                if re.search(r'\b%s\b' % re.escape(path), src):
                    continue  # written by the user in the item itself (requested derives, field types, bounds), copied through
            if kind == 'rel' and canon.startswith('rel:'):
                import re
                if re.search(r'(?<![:\w])%s\b' % re.escape(path), src):
                    continue  # a relative path the user wrote (parse_err_ty = strum::ParseError), copied through
            if canon not in allowed[d]:
                unacc.setdefault((d, canon), (e, src, o))
    # references outside the model's per-derive table are judged by the model's predicates (noStdOk, cratePathOk,
    # shadowSafe): a new `::core::..` path or strum item through the configured path is fine (harmless refactor); anything
    # else is a violation with the definition as the failing program.
    canons = sorted(set(c for (_, c) in unacc))
    verdicts = dict(zip(canons, leanside.run_driver(['refok %s' % c.replace(' ', '') for c in canons]))) if canons else {}
    nbad = 0
    for (d, canon), (e, src, o) in unacc.items():
        v = verdicts.get(canon, 'unknown-kind')
        if v == 'ok':
            res.notes.append('reference outside the model table but allowed by its predicates: %s emits %s' % (d, canon))
            continue
        nbad += 1
        res.violation({'kind': 'disallowed_reference', 'label': 'modeA', 'derive': d, 'reference': canon, 'model': v, 'enum': e.to_json(),
                       'source': src, 'impl': o[:400],
                       'what': 'the expansion contains a reference that is not no_std-clean / bypasses the crate path / can be shadowed (%s)' % v})
    res.cov['modeA'] = {'expansions': len(lines), 'references_checked': nrefs, 'outside_table': len(unacc), 'disallowed': nbad}
    # ---- (ii) mode B: rustc as oracle, three configurations
    nostd = [e for e in especs]
    build_config(res, 'no_std', nostd, runner.Workspace('c19nostd', features=('derive',), default_features=False, target_key='nostd'),
                 lambda e, k: NoStdGen(e), '#![no_std]\n#![allow(warnings)]')
    paths = ['strum2', 'crate::reexport::inner', 'st']
    from . import c16 as _c16
    import copy as _copy
    phf_enums = []
    for e in _c16.special_enums():
        t = _copy.deepcopy(e)
        t.id, t.name, t.phf = 'c19' + e.id[3:] + 'p', 'EnC19' + e.name[5:] + 'P', True
        t.extra['from'] = 'C16'
        phf_enums.append(t)
    build_config(res, 'renamed', especs + phf_enums, runner.Workspace('c19ren', dep_name='strum2', features=('derive', 'phf'), target_key='std'),
                 lambda e, k: LocalNameDefs(e, 'st') if (k + len(e.derives)) % 3 == 2 else PlainDefs(e, paths[(k + len(e.derives)) % 3]), '#![allow(warnings)]', extra_main='pub mod reexport { pub use strum2 as inner; }')
    build_config(res, 'shadowed', especs, runner.Workspace('c19shadow', target_key='std'),
                 lambda e, k: ShadowDefs(e), '#![allow(warnings)]')
    # every derive ALONE on the definition: each one has to bring the `strum` helper attribute (and everything else it
    # needs) itself
    solos = solo_clones(especs[::3] if tier == 'quick' else especs)
    build_config(res, 'solo-derive', solos, runner.Workspace('c19solo', target_key='std'), lambda e, k: SoloDefs(e), '#![allow(warnings)]')
    # two definitions with the same derives in ONE module
    plain = [e for e in especs if not e.extra.get('pre_items') and not rustgen.EnumGen(e).dw_fns()]
    firsts, partner = [], {}
    for a, b in zip(plain[0::2], plain[1::2]):
        if a.name != b.name:
            firsts.append(a)
            partner[a.id] = b
    if tier == 'quick':
        firsts = firsts[::2]
    build_config(res, 'two-per-module', firsts, runner.Workspace('c19pair', target_key='std'), lambda e, k: SoloDefs(e), '#![allow(warnings)]', pair_with=partner)
    res.cov['programs'] = len(especs)
    res.cov['evaluations'] = len(lines) + 3 * len(especs)
    res.cov['disagreements_checked'] = nrefs
    by = {}
    for e in especs:
        for d in e.derives:
            by[d] = by.get(d, 0) + 1
    res.cov['derive_distribution'] = by
    res.cov['distinct_nontrivial'] = len(set((e.extra.get('shape', e.id), tuple(e.derives)) for e in especs))
    res.cov['rule'] = ("definitions of the other properties' corpora (C01, C02, C04, C06, C08, C09, C10, C11, C13, C14, C15, C17: every non-deprecated derive x kinds x attributes x generics); "
                       '(i) the references of every real expansion (leading-:: paths, macro calls, watch-listed bare identifiers, relative core/std/alloc/strum paths) must be a subset of the model\'s allowedRefs for that derive; '
                       '(ii) the definitions compiled as #![no_std] lib without alloc against strum with default-features = false; with strum reachable only as the renamed dependency `strum2` or the nested re-export '
                       '`crate::reexport::inner` or the one-segment local alias `use crate::reexport::inner as st;` and #[strum(crate = ..)] on every enum; and with `mod core {} mod std {} mod alloc {}` declared in every module; distinct = (definition shape, derive set)')
    res.samples = [{'from': e.extra.get('from'), 'derives': e.derives, 'no_std_source': NoStdGen(e).render()[:600]} for e in especs[5:7]]
    return res.finish()
