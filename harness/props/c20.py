"""C20 — unsupported input gets a compile error, never a macro panic or silent acceptance."""
import os, json, shutil
from ..core import Result, proof_stage
from ..spec import hx
from .. import malformed, modea, leanside, runner

SUPPORT = '''
#![allow(warnings)]
#[derive(Debug, PartialEq, Default, Clone)]
pub struct PErr(pub String);
pub fn perr(s: &str) -> PErr { PErr(s.to_string()) }
#[derive(Debug, PartialEq, Clone)]
pub struct PErrG<T>(pub String, pub core::marker::PhantomData<T>);
pub fn perr_g<T>(s: &str) -> PErrG<T> { PErrG(s.to_string(), core::marker::PhantomData) }
pub mod errs { pub use super::{PErr, perr}; }
pub fn mk() -> u8 { 7 }
pub fn f() -> String { String::from("f") }
'''


def modeb(res, cases, model):
    """compile the items with the real derives: expected-reject items in one crate, expected-accept items in another"""
    groups = {'rej': [], 'acc': []}
    for c, m in zip(cases, model):
        if m == 'reject' or c.get('rustc_rejects'):
            # (rustc_rejects: the macro emits code for it, the generated code does not compile - the item is rejected all the same)
            groups['rej'].append(c)
        elif m == 'accept':
            groups['acc'].append(c)
    stats = {}
    for gname, items in groups.items():
        ws = runner.Workspace('c20' + gname)
        ws.lock()
        try:
            files = {'support.rs': SUPPORT}
            main = ['#![allow(warnings)]', 'mod support;']
            for c in items:
                it = c['item']
                src = malformed.render_source(it)
                body = ['use super::support::*;']
                if c['derive'] in ('AsStaticStr', 'ToString'):
                    body.append('#[allow(deprecated)]')
                body.append('#[derive(strum::%s)]' % c['derive'])
                # EnumTable / use_phf need Clone etc.; harmless for the others
                files['m_%s.rs' % it['id']] = '\n'.join(body) + '\n' + src + '\n'
                main.append('mod m_%s;' % it['id'])
            main.append('fn main() {}')
            files['main.rs'] = '\n'.join(main) + '\n'
            ws.write([files])
            r = ws.cargo_build()
        finally:
            ws.unlock()
        by_file = {}
        for e in r['errors']:
            for fpath in e['files']:
                base = os.path.basename(fpath)
                if base.startswith('m_') and base.endswith('.rs'):
                    by_file.setdefault(base[2:-3], []).append(e)
        stats[gname] = {'items': len(items), 'errors': len(r['errors']), 'build_s': round(r['wall_s'], 1)}
        for c in items:
            iid = c['item']['id']
            errs = by_file.get(iid, [])
            panicked = [e for e in errs if 'panicked' in e['message']]
            if panicked:
                res.violation({'kind': 'macro_panic', 'label': 'modeB', 'derive': c['derive'], 'rule': c['rule'],
                               'source': malformed.render_source(c['item']), 'errors': panicked[:2], 'what': 'the derive macro panicked'})
            elif gname == 'rej' and not errs:
                res.violation({'kind': 'silent_acceptance', 'label': 'modeB', 'derive': c['derive'], 'rule': c['rule'],
                               'source': malformed.render_source(c['item']),
                               'what': 'no compile error is reported at an item the model rejects (silent acceptance)'})
            elif gname == 'acc' and errs:
                res.violation({'kind': 'compile_error', 'label': 'modeB', 'derive': c['derive'], 'rule': c['rule'],
                               'source': malformed.render_source(c['item']), 'errors': errs[:2], 'what': 'in-domain item is rejected'})
    return stats


def run(tier, seed, rng):
    res = Result('C20', tier, seed)
    proof_stage(res, 'C20')
    cases = malformed.generate(tier)
    # model verdicts
    lines = []
    for c in cases:
        e, raw = malformed.resolve(c['item'])
        lines += e.model_lines() + raw
    for c in cases:
        lines.append('vop %s validate %s' % (c['item']['id'], c['derive']))
    model = leanside.run_driver(lines)
    assert len(model) == len(cases), (len(model), len(cases), model[:3])
    # mode A: the macro's own *_inner functions in-process (all derives except FromRepr, which needs a real proc-macro context)
    ok, err, wall, binp = modea.build()
    if not ok:
        raise RuntimeError('mode A build failed:\n' + err)
    acases = [(c, m) for c, m in zip(cases, model) if c['derive'] != 'FromRepr']
    alines = ['derive %s %s' % (c['derive'], hx(malformed.render_source(c['item']))) for c, _ in acases]
    aout = modea.run(binp, alines)
    cls = {'ok': 'accept', 'err': 'reject', 'panic': 'panic'}
    nbad = 0
    dist = {}
    for (c, m), o in zip(acases, aout):
        got = cls.get(o.split(' ')[0], o.split(' ')[0])
        dist['%s/%s' % (c['rule'].split('-')[0], got)] = dist.get('%s/%s' % (c['rule'].split('-')[0], got), 0) + 1
        payload = {'label': 'modeA', 'derive': c['derive'], 'rule': c['rule'], 'source': malformed.render_source(c['item']),
                   'model': m, 'impl': o[:300]}
        if got == 'panic':
            nbad += 1
            res.violation(dict(payload, kind='macro_panic', what='the derive macro panicked'))
        elif c['must'] == 'reject' and got != 'reject':
            nbad += 1
            res.violation(dict(payload, kind='silent_acceptance', what='a rejection rule applies but the derive emitted an implementation'))
        elif c['must'] == 'accept' and got != 'accept':
            nbad += 1
            res.violation(dict(payload, kind='rejects_domain', what='in-domain item rejected'))
        elif got != m:
            nbad += 1
            res.violation(dict(payload, kind='disagreement', what='accept/reject class differs from the model'))
    # the model itself must satisfy the oracle tags (sanity of the rule instantiation)
    for c, m in zip(cases, model):
        if c['must'] and c['must'] != m:
            res.violation({'kind': 'model_vs_rule', 'derive': c['derive'], 'rule': c['rule'], 'model': m, 'source': malformed.render_source(c['item']),
                           'what': 'the model disagrees with the rule instantiation (model or generator defect)'}, no_failing_input=True)
    # mode B: real rustc, all derives incl. FromRepr; sampled in the quick tier
    bcases, bmodel = [], []
    for i, (c, m) in enumerate(zip(cases, model)):
        if c['rule'].endswith('modeA-only') and not c.get('rustc_rejects'):
            continue
        if c['rule'].startswith('R4-disc') and c['derive'] != 'EnumDiscriminants':
            continue  # `strum_discriminants` is a helper attribute of EnumDiscriminants only: rustc itself rejects it elsewhere
        if tier == 'thorough' or c['derive'] == 'FromRepr' or i % 4 == 0 or c.get('rustc_rejects'):
            bcases.append(c)
            bmodel.append(m)
    bstats = modeb(res, bcases, bmodel)
    res.cov['modeA'] = {'items': len(acases), 'build_s': round(wall, 1), 'disagreements': nbad}
    res.cov['modeB'] = bstats
    res.cov['programs'] = len(cases)
    res.cov['evaluations'] = len(acases) + len(bcases)
    res.cov['disagreements_checked'] = len(acases) + len(bcases)
    res.cov['input_distribution'] = dist
    res.cov['distinct_nontrivial'] = len(set((c['derive'], c['rule']) for c in cases))
    res.cov['rule'] = ('every rejection rule (R1 struct/union, R2 data variant, R3 lifetime, R4 repeated single-use attribute at enum / discriminants / variant / field level within one attribute and across attributes, '
                       'R5 two defaults, R6 default/transparent shape, R7 placeholders on unit, R8 unknown style, R9 half of parse_err, R10 property literal) instantiated on every derive, over variant kinds and positions, '
                       'mixed with otherwise valid variants, plus in-domain controls; mode A: the macro\'s *_inner functions in-process (class ok/err/panic vs the Lean validate); '
                       'mode B: real rustc, rejected items in one crate (an error must be located in each item\'s file and must not be a derive panic), accepted items in another (must compile); '
                       'distinct = (derive, rule instance)')
    res.samples = [{'derive': c['derive'], 'rule': c['rule'], 'model': m, 'source': malformed.render_source(c['item'])} for c, m in list(zip(cases, model))[40:44]]
    return res.finish()
