"""C17 — Display renders fixed names like a str and placeholders like format!."""
from ..core import Result, Corpus, proof_stage, correspond, distribution
from ..spec import ESpec, VSpec, hx
from .. import namecorpus, runner, fmtgrid

TUPLE_LITS = {
    1: ['{0}', '<{0:^5}>', '{0}{0}', '{{{0}}}', '{0}}}', 'é{0:>3}é', '{0:?}', '{0 }'],
    2: ['{0}-{1}', '{1}{0}', '{0:>4}|{1:<3}|', '{{{0}}} {1}', '{0}}}{{{1}', '{1:?} {0:?}', '{0} {0} {1}', '{0:03}{1:>+5}'],
    3: ['{0}{1}{2}', '{2}-{0}-{1}', '{0:>2}{1:<2}{2:^3}', '{{}}{0}{1}{2}'],
}
NAMED_LITS = {
    1: ['{alpha}', '{{alpha}} {alpha}', '{alpha:>6}', '{alpha }', 'x{alpha:?}'],
    2: ['{alpha}', '{beta}', '{beta}/{alpha}', '{alpha:03}:{beta}', '{alpha}{alpha}{beta}', '}}{beta}{{'],
    3: ['{gamma}', '{alpha}{beta}{gamma}', '{gamma:>4}{alpha:<4}', '{beta} only', '{gamma}-{alpha}'],
}
# Display-able field types by arity
TUPLE_TYPES = {1: [['u8'], ['String'], ['i64']], 2: [['u8', 'i32'], ['String', 'u16']], 3: [['u8', 'i32', 'String']]}
FIXED_NAMES = ['plain', 'éé-wide-ß', '', 'x', 'sixteen chars ok!', '日本語', 'áb', '{{escaped}}', 'tab\there']


def used_named(lit):
    import re
    body = lit.replace('{{', '').replace('}}', '')
    return [m.split(':')[0].strip() for m in re.findall(r'\{([^{}]*)\}', body)]


def generate(tier, rng):
    c = Corpus()
    # (a) fixed names over kinds x naming x prefix
    enums = namecorpus.build_enums(rng, tier, 'C17', ['Display'], ['names'], passes=1 if tier == 'quick' else 4,
                                   prefixes=[None, 'pre_', 'é-', ''], generics_pool=('', 'ty', '', 'lt', 'const', 'ty_nd'))
    # explicit fixed names incl. multi-byte / empty, one enum per kind
    for ki, kind in enumerate(namecorpus.KINDS):
        e = ESpec(id='c17f%d' % ki, name='EnC17f%d' % ki, derives=['Display'], feats=['names'], prefix=[None, 'p·'][ki % 2])
        for j, nm in enumerate(FIXED_NAMES):
            v = VSpec(ident='Fx%d' % j, kind=kind[0], ftypes=list(kind[1]))
            if kind[0] == 'named':
                v.fnames, v.fdw = namecorpus.FIELD_NAMES[:len(kind[1])], [None] * len(kind[1])
            if j % 2 == 0:
                v.ts = nm
            else:
                v.ser = [nm]
            e.variants.append(v)
        e.extra['shape'] = 'fixed-explicit/%s/prefix=%r' % (kind[0], e.prefix)
        enums.append(e)
    grid = fmtgrid.spec_grid(tier)
    small = fmtgrid.spec_grid(tier, small=True)
    for e in enums:
        c.add(e)
        for k, v in enumerate(e.variants):
            if v.dis:
                continue
            g = grid if (e.id.startswith('c17f') or k == 0) else small
            for sp in g:
                c.op(e.id, 'show %s %d x %s' % (hx(v.ident), 1 if k % 2 else 0, sp), 'fixed/' + v.kind + '/' + namecorpus.naming_class(v))
    # (b) placeholder literals
    n = 0
    specs = ['0,0,-1,-1,0', '0,3,12,-1,0', '1,2,9,2,0']
    for prefix in (None, 'P:'):
        for arity in (1, 2, 3):
            for types in TUPLE_TYPES[arity]:
                e = ESpec(id='c17t%d' % n, name='EnC17t%d' % n, derives=['Display'], feats=['names'], prefix=prefix)
                e.extra['interp'], e.extra['interp_lit'] = {}, {}
                for j, lit in enumerate(TUPLE_LITS[arity]):
                    if '03' in lit or '+' in lit:
                        if types[0] == 'String' or (arity > 1 and types[1] in ('String',)):
                            continue
                    v = VSpec(ident='Tp%d' % j, kind='tuple', ftypes=list(types), ts=lit)
                    e.variants.append(v)
                    e.extra['interp'][v.ident] = [str(i) for i in range(arity)]
                    e.extra['interp_lit'][v.ident] = (prefix or '') + lit
                e.extra['shape'] = 'interp/tuple%d/%s/prefix=%r' % (arity, '+'.join(types), prefix)
                enums.append(e); c.add(e); n += 1
                for v in e.variants:
                    for alt in (0, 1, 2, 4):
                        for sp in specs:
                            c.op(e.id, 'show %s %d x %s' % (hx(v.ident), alt, sp), 'interp/tuple%d' % arity)
            nts = {1: [['i32'], ['String']], 2: [['u8', 'String'], ['i32', 'u16']], 3: [['u8', 'i32', 'String']]}[arity]
            for types in nts:
                e = ESpec(id='c17n%d' % n, name='EnC17n%d' % n, derives=['Display'], feats=['names'], prefix=prefix)
                e.extra['interp'], e.extra['interp_lit'] = {}, {}
                for j, lit in enumerate(NAMED_LITS[arity]):
                    if '03' in lit and types[0] == 'String':
                        continue
                    v = VSpec(ident='Nm%d' % j, kind='named', ftypes=list(types), fnames=namecorpus.FIELD_NAMES[:arity], fdw=[None] * arity, ts=lit)
                    e.variants.append(v)
                    used = used_named(lit)
                    e.extra['interp'][v.ident] = [f for f in v.fnames if f in used]
                    e.extra['interp_lit'][v.ident] = (prefix or '') + lit
                e.extra['shape'] = 'interp/named%d/%s/prefix=%r' % (arity, '+'.join(types), prefix)
                enums.append(e); c.add(e); n += 1
                for v in e.variants:
                    for alt in (0, 1, 2, 4):
                        for sp in specs:
                            c.op(e.id, 'show %s %d x %s' % (hx(v.ident), alt, sp), 'interp/named%d' % arity)
    # the recorded finding F4 is re-observed on every run: tuple placeholders that skip a field
    e = ESpec(id='c17kf', name='EnC17kf', derives=['Display'], feats=['names'])
    e.variants = [VSpec(ident='Tk', kind='tuple', ftypes=['u8', 'u8'], ts='x{0}')]
    e.extra['interp'], e.extra['interp_lit'] = {'Tk': ['0', '1']}, {'Tk': 'x{0}'}
    e.extra['shape'] = 'known-finding-F4'
    c.add(e)
    c.op(e.id, 'show %s 1 x 0,0,-1,-1,0' % hx('Tk'), 'interp/tuple-subset')
    return c


def nonascii_in_placeholder(lit):
    s = lit.replace('{{', '').replace('}}', '')
    depth = False
    for ch in s:
        if ch == '{':
            depth = True
        elif ch == '}':
            depth = False
        elif depth and ord(ch) > 127:
            return True
    return False


def modea_literals(res, tier):
    """EVERY literal up to a length bound over {'{', '}', 'a', ':', '0', ' ', 'é'} as the to_string of a unit, a tuple and a
    named variant: the macro's accept / reject decision (its placeholder scanner + the per-kind rules) vs the model"""
    import itertools
    from .. import malformed, modea, leanside
    maxlen = 5 if tier == 'quick' else 7
    alphabet = ['{', '}', 'a', ':', '0', ' ', 'é']
    ok, err, wall, binp = modea.build()
    if not ok:
        raise RuntimeError('mode A build failed:\n' + err)
    items = []
    n = 0
    skipped = 0
    for L in range(0, maxlen + 1):
        for t in itertools.product(alphabet if L <= 6 else alphabet[:-1], repeat=L):  # length 7 (thorough): ASCII symbols only
            lit = ''.join(t)
            for shape, v in (('unit', malformed.unit('V', [('to_string', lit)])),
                             ('tuple', malformed.tup('V', ['u8'], [('to_string', lit)])),
                             ('named', malformed.named('V', [('a', 'u8')], [('to_string', lit)]))):
                if shape == 'named' and nonascii_in_placeholder(lit):
                    skipped += 1   # non-ASCII identifiers (Unicode XID tables) are outside the model's ASCII `isIdentLike`
                    continue
                items.append({'id': 'l%d' % n, 'name': 'Lit%d' % n, 'kind': 'enum', 'lifetimes': 0, 'eattrs': [], 'dattrs': [],
                              'variants': [v, malformed.unit('Other')], 'shape': shape, 'lit': lit})
                n += 1
    lines = []
    for it in items:
        e, raw = malformed.resolve(it)
        lines += e.model_lines() + raw
    lines += ['vop %s validate Display' % it['id'] for it in items]
    model = leanside.run_driver(lines)
    aout = modea.run(binp, ['derive Display %s' % hx(malformed.render_source(it)) for it in items])
    cls = {'ok': 'accept', 'err': 'reject', 'panic': 'panic'}
    bad = 0
    dist = {}
    for it, m, o in zip(items, model, aout):
        got = cls.get(o.split(' ')[0], o.split(' ')[0])
        key = '%s/%s' % (it['shape'], got)
        dist[key] = dist.get(key, 0) + 1
        if got != m:
            bad += 1
            if bad <= 3:
                res.violation({'kind': 'disagreement', 'label': 'modeA', 'derive': 'Display', 'rule': 'format-literal/' + it['shape'],
                               'source': malformed.render_source(it), 'model': m, 'impl': o[:200],
                               'what': 'accept/reject of a to_string literal differs from the model of the placeholder scanner'})
    res.cov['modeA_literals'] = {'literals': (n + skipped) // 3, 'named_skipped_nonascii_placeholder': skipped, 'max_len': maxlen, 'alphabet': ''.join(alphabet), 'items': n, 'disagreements': bad,
                                 'distribution': dist, 'exhaustive': True}
    res.cov['evaluations'] = res.cov.get('evaluations', 0) + n


def run(tier, seed, rng):
    res = Result('C17', tier, seed)
    proof_stage(res, 'C17')
    from .. import fixedprog
    fixedprog.run_fixed(res, 'fx_ref_mut_fields', fixedprog.REF_MUT_FIELDS, "variants holding `&'a mut T` and non-Clone fields under every derive that builds patterns")
    modea_literals(res, tier)
    c = generate(tier, rng)
    out = correspond(res, c, runner.Workspace('c17'), label='modeB')
    bad = sum(1 for o, got in zip(c.ops, out['impl']) if got and 'oracle' in got)
    res.cov['impl_vs_oracle_failures'] = bad
    table, distinct = distribution(c, out['model'])
    res.cov['input_distribution'] = table
    res.cov['distinct_nontrivial'] = len(distinct)
    res.cov['rule'] = ('(a) fixed names: kinds x naming x prefix, ASCII / multi-byte / combining / empty / escaped-brace names x grid fill {space,*,e-acute} x align {none,<,^,>} x width x precision x 0-flag, '
                       'against the Lean pad model; (b) placeholder literals over subsets/orders/repeats of <=3 fields, nested specs, escaped braces next to placeholders, payloads default / two non-default / extreme, '
                       'against format! with the same literal computed in the Rust driver (model answers INTERP); distinct = (enum shape, class, answer kind)')
    res.samples = [{'enum': c.especs[0].model_lines()[:3]}] + [{'op': o.line, 'class': o.cls, 'model': m, 'impl': i} for o, m, i in list(zip(c.ops, out['model'], out['impl']))[40:44]] + \
                  [{'op': o.line, 'class': o.cls, 'model': m, 'impl': i} for o, m, i in zip(c.ops, out['model'], out['impl']) if o.cls.startswith('interp')][:3]
    return res.finish()
