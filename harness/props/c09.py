"""C09 — EnumDiscriminants mirrors the enum: same variants, order, repr, discriminants."""
from ..core import Result, Corpus, proof_stage, correspond, distribution
from ..spec import hx
from .. import reprcorpus, runner


def generate(tier, rng):
    c = Corpus()
    k = 0
    nu = 0
    gens = ['', 'ty', 'lt', 'where', 'const', 'lt_ty', 'ty_nd']
    for repr_ in reprcorpus.REPRS:
        for n in ((1, 4) if tier == 'quick' else (1, 2, 4, 7)):
            lays = reprcorpus.layouts(repr_, n)
            for lname, lay in lays.items():
                for unit_only in (True, False):
                    if not unit_only and repr_ is None and lname != 'implicit':
                        continue
                    gen = gens[nu % len(gens)] if not unit_only else ''
                    if not unit_only:
                        nu += 1
                    if gen in ('lt', 'const', 'lt_ty'):
                        pass
                    e = reprcorpus.make_enum('c09_%d' % k, 'EnC09x%d' % k, n, repr_, lname, lay, 'none', unit_only,
                                             ['EnumDiscriminants'], ['disc'], generics=gen if gen in ('', 'ty', 'where', 'ty_nd') else '')
                    # generic parameters other than a plain type parameter: add a carrying variant up front when discriminants allow
                    if gen in ('lt', 'const', 'lt_ty') and lname == 'implicit' and not unit_only:
                        from ..spec import VSpec
                        e.generics = gen
                        if gen == 'lt':
                            e.variants.append(VSpec(ident='GenLt', kind='tuple', ftypes=['RefStr']))
                        elif gen == 'const':
                            e.variants.append(VSpec(ident='GenCg', kind='tuple', ftypes=['Cg']))
                        else:
                            e.variants.append(VSpec(ident='GenLtT', kind='named', ftypes=['RefStr', 'T'], fnames=['r', 't'], fdw=[None, None]))
                    mode = k % 6
                    attrs = []
                    asserts = []
                    if mode in (1, 4):
                        e.extra['dname'] = 'Kind%d' % k
                        attrs.append('name(Kind%d)' % k)
                    if mode == 2:
                        e.extra['dvis'] = 1
                        attrs.append('vis(pub)')
                    if mode in (3, 4):
                        e.extra['dvis'] = 2
                        # an EMPTY vis() is an override too (private): no IntoDiscriminant impl
                        attrs.append('vis()' if k % 12 == 3 else ('vis(pub(super))' if k % 12 == 9 else 'vis(pub(crate))'))
                    if mode in (0, 2, 4):
                        attrs.append('allow(dead_code, unused_variables)')
                        attrs.append('derive(Hash, PartialOrd, Ord,)' if (k // 6) % 2 else 'derive(Hash, PartialOrd, Ord)')
                        asserts.append('fn _needs_hash_ord<X: core::hash::Hash + Ord>() {} fn _chk_hash() { _needs_hash_ord::<$D>(); }')
                    if mode in (1, 5):
                        attrs.append('derive(strum::EnumIter, strum::Display)')
                        attrs.append('doc = "generated kinds"')
                        # a passed-through attribute with SEVERAL comma-separated arguments
                        attrs.append('strum(prefix = "", ascii_case_insensitive)')
                        second_strum = (k // 6) % 2 == 1
                        if second_strum:
                            attrs.append('strum(serialize_all = "lowercase")')   # a SECOND strum(..) pass-through
                        asserts.append('fn _chk_iter() { let _ = <$D as strum::IntoEnumIterator>::iter().count(); }')
                        # pass-through attribute on a variant: the discriminant's Display must pick it up
                        e.extra['pt_expect'] = {}
                        for j, v in enumerate(e.variants):
                            if j % 2 == 0:
                                v_attr = '#[strum_discriminants(strum(serialize = "pt-%d"))]' % j
                                # several strum_discriminants attributes on one variant are all passed through
                                more = ['#[strum_discriminants(doc = "second attribute")]'] if j % 4 == 0 else []
                                pre = ['#[strum_discriminants(allow(dead_code))]'] if j % 4 == 2 else []
                                e.extra.setdefault('variant_attrs', {})[v.ident] = pre + [v_attr] + more
                                e.extra['pt_expect'][v.ident] = 'pt-%d' % j
                            else:
                                e.extra['pt_expect'][v.ident] = v.ident.lower() if second_strum else v.ident
                    # always-derived traits
                    asserts.append('fn _needs_std<X: Clone + Copy + core::fmt::Debug + PartialEq + Eq>() {} fn _chk_std() { _needs_std::<$D>(); }')
                    # ORDER of the items: a pass-through `strum(..)` may stand before the `derive(..)` that declares the helper
                    # attribute (the generated enum always carries its derive first), everything may come in one list
                    order = (k // 6) % 4
                    if order == 1:
                        attrs = [a for a in attrs if not a.startswith('derive(')] + [a for a in attrs if a.startswith('derive(')]
                    elif order == 2:
                        attrs = list(reversed(attrs))
                    if attrs:
                        if order == 3:
                            e.extra['enum_attrs'] = ['#[strum_discriminants(%s)]' % ', '.join(attrs)]
                        else:
                            e.extra['enum_attrs'] = ['#[strum_discriminants(%s)]' % a for a in attrs]
                    e.extra['shape'] += ' dorder=%d' % order
                    e.extra['disc_asserts'] = asserts
                    e.extra['evalflag'] = 1 if all(v.kind == 'unit' for v in e.variants) else (2 if repr_ else 0)
                    e.extra['shape'] += ' disc_mode=%d' % mode
                    k += 1
                    c.add(e)
                    for v in e.variants:
                        for alt in (1, 2):
                            c.op(e.id, 'disc %s %d %d' % (hx(v.ident), alt, e.extra['evalflag']), 'disc/%s/%s' % (v.kind, lname))
    # non-integer and compound reprs are copied verbatim as well (layout compared with a hand-written reference enum)
    from ..spec import VSpec
    # (`C, u8` on a data-carrying enum is not generated: the verbatim copy on the field-less mirror trips rustc's
    #  conflicting_repr_hints lint - an observed quirk outside C09's repr list)
    for raw in ('C', 'u8, align(4)', 'align(8)', 'C, align(16)', 'u8 / align(4)', 'align(4) / u8', 'C / align(16)', 'align(2) / i16 / align(8)'):
        for unit_only in (True, False):
            if unit_only and raw in ('C, u8', 'i16, C'):
                continue  # rustc: conflicting representation hints on a field-less enum
            lay = reprcorpus.layouts(None, 4)['implicit'] if not unit_only or 'u8' not in raw and 'i16' not in raw else reprcorpus.layouts('u8', 4)['gapped']
            e = reprcorpus.make_enum('c09_%d' % k, 'EnC09x%d' % k, 4, None, 'raw:' + raw, lay, 'none', unit_only, ['EnumDiscriminants'], ['disc'])
            if raw in ('C', 'C, align(16)', 'align(8)') and unit_only:
                for i, v in enumerate(e.variants):
                    v.discr = [3, None, 9, None][i]
            if ' / ' in raw:
                e.extra['repr_attrs'] = [[h.strip() for h in a.split(',')] for a in raw.split(' / ')]   # several #[repr] attributes
            else:
                e.extra['repr_raw'] = raw
            e.extra['disc_asserts'] = []
            e.extra['evalflag'] = 1 if unit_only else 0
            e.extra['shape'] += ' disc_mode=raw'
            k += 1
            c.add(e)
            for v in e.variants:
                c.op(e.id, 'disc %s 1 %d' % (hx(v.ident), e.extra['evalflag']), 'disc/%s/raw-repr' % v.kind)
    return c


def run(tier, seed, rng):
    res = Result('C09', tier, seed)
    proof_stage(res, 'C09')
    c = generate(tier, rng)
    out = correspond(res, c, runner.Workspace('c09'), label='modeB')
    bad = 0
    for o, got in zip(c.ops, out['impl']):
        if got is None:
            continue
        kv = dict(t.split('=', 1) for t in got.split(' ') if '=' in t)
        ident = o.line.split(' ')[3]
        ok = kv.get('from') == ident and kv.get('from_ref') == ident and kv.get('into') in (ident, '-') and kv.get('pt') == 'ok' and kv.get('size_ok') == 'true'
        if kv.get('eval') not in (None, '?'):
            ok &= kv['eval'] == kv['val']
        if not ok:
            bad += 1
            if bad <= 3:
                res.violation({'kind': 'oracle', 'op': o.line, 'impl': got, 'enum': c.by_id[o.eid].to_json(),
                               'what': 'discriminant enum value differs from the source variant (name / integer value / pass-through attribute / size)'})
    res.cov['impl_vs_oracle_failures'] = bad
    table, distinct = distribution(c, out['model'])
    res.cov['input_distribution'] = table
    res.cov['distinct_nontrivial'] = len(distinct)
    res.cov['rule'] = ('variant kinds x type/lifetime/const generics and where clauses x 11 repr choices x discriminant layouts (implicit, explicit, gapped, descending, negative, expression-valued, MIN/MAX) x '
                       'strum_discriminants(name / vis(pub) / vis(pub(crate)) / derive(std traits) / derive(strum::EnumIter, strum::Display) / doc / variant-level pass-through strum(serialize)); '
                       'every variant constructed with two payloads; observables From<E>, From<&E>, IntoDiscriminant (present iff vis is default or pub), discriminant value `as R`, value of e itself, size_of, '
                       'compile-time uses of each requested derive; distinct = (enum shape, kind/layout, answer)')
    res.samples = [{'enum': c.especs[11].model_lines(), 'attrs': c.especs[11].extra.get('enum_attrs')}] + [{'op': o.line, 'class': o.cls, 'model': m} for o, m in list(zip(c.ops, out['model']))[40:44]]
    return res.finish()
