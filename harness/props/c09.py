"""C09 — EnumDiscriminants mirrors the enum: same variants, order, repr, discriminants."""
from ..core import Result, Corpus, proof_stage, correspond, distribution
from ..spec import hx, unhx
import random
from .. import reprcorpus, runner, modea, leanside


def generate(tier, rng):
    c = Corpus()
    k = 0
    nu = 0
    gens = ['', 'ty', 'lt', 'where', 'const', 'lt_ty', 'ty_nd']
    for repr_ in reprcorpus.REPRS:
        for n in ((1, 4) if tier == 'quick' else (1, 2, 4, 7)):
            lays = reprcorpus.layouts(repr_, n)
            for lname, lay in lays.items():
                for unit_only in (True, False):
                    if not unit_only and repr_ is None and lname != 'implicit':
                        continue
                    gen = gens[nu % len(gens)] if not unit_only else ''
                    if not unit_only:
                        nu += 1
                    if gen in ('lt', 'const', 'lt_ty'):
                        pass
                    e = reprcorpus.make_enum('c09_%d' % k, 'EnC09x%d' % k, n, repr_, lname, lay, 'none', unit_only,
                                             ['EnumDiscriminants'], ['disc'], generics=gen if gen in ('', 'ty', 'where', 'ty_nd') else '')
                    # generic parameters other than a plain type parameter: add a carrying variant up front when discriminants allow
                    if gen in ('lt', 'const', 'lt_ty') and lname == 'implicit' and not unit_only:
                        from ..spec import VSpec
                        e.generics = gen
                        if gen == 'lt':
                            e.variants.append(VSpec(ident='GenLt', kind='tuple', ftypes=['RefStr']))
                        elif gen == 'const':
                            e.variants.append(VSpec(ident='GenCg', kind='tuple', ftypes=['Cg']))
                        else:
                            e.variants.append(VSpec(ident='GenLtT', kind='named', ftypes=['RefStr', 'T'], fnames=['r', 't'], fdw=[None, None]))
                    mode = k % 6
                    attrs = []
                    asserts = []
                    if mode in (1, 4):
                        e.extra['dname'] = 'Kind%d' % k
                        attrs.append('name(Kind%d)' % k)
                    if mode == 2:
                        e.extra['dvis'] = 1
                        attrs.append('vis(pub)')
                    if mode in (3, 4):
                        e.extra['dvis'] = 2
                        # an EMPTY vis() is an override too (private): no IntoDiscriminant impl
                        attrs.append('vis()' if k % 12 == 3 else ('vis(pub(super))' if k % 12 == 9 else 'vis(pub(crate))'))
                        if k % 12 == 3:
                            e.extra['no_home'] = True   # the private mirror must stay nameable by the harness functions
                    if mode in (0, 2, 4):
                        attrs.append('allow(dead_code, unused_variables)')
                        attrs.append('derive(Hash, PartialOrd, Ord,)' if (k // 6) % 2 else 'derive(Hash, PartialOrd, Ord)')
                        asserts.append('fn _needs_hash_ord<X: core::hash::Hash + Ord>() {} fn _chk_hash() { _needs_hash_ord::<$D>(); }')
                    if mode in (1, 5):
                        attrs.append('derive(strum::EnumIter, strum::Display)')
                        attrs.append('doc = "generated kinds"')
                        # a passed-through attribute with SEVERAL comma-separated arguments
                        attrs.append('strum(prefix = "", ascii_case_insensitive)')
                        second_strum = (k // 6) % 2 == 1
                        if second_strum:
                            attrs.append('strum(serialize_all = "lowercase")')   # a SECOND strum(..) pass-through
                        asserts.append('fn _chk_iter() { let _ = <$D as strum::IntoEnumIterator>::iter().count(); }')
                        # pass-through attribute on a variant: the discriminant's Display must pick it up
                        e.extra['pt_expect'] = {}
                        for j, v in enumerate(e.variants):
                            if j % 2 == 0:
                                v_attr = '#[strum_discriminants(strum(serialize = "pt-%d"))]' % j
                                # several strum_discriminants attributes on one variant are all passed through
                                more = ['#[strum_discriminants(doc = "second attribute")]'] if j % 4 == 0 else []
                                pre = ['#[strum_discriminants(allow(dead_code))]'] if j % 4 == 2 else []
                                e.extra.setdefault('variant_attrs', {})[v.ident] = pre + [v_attr] + more
                                e.extra['pt_expect'][v.ident] = 'pt-%d' % j
                            else:
                                e.extra['pt_expect'][v.ident] = v.ident.lower() if second_strum else v.ident
                    # always-derived traits
                    asserts.append('fn _needs_std<X: Clone + Copy + core::fmt::Debug + PartialEq + Eq>() {} fn _chk_std() { _needs_std::<$D>(); }')
                    # ORDER of the items: a pass-through `strum(..)` may stand before the `derive(..)` that declares the helper
                    # attribute (the generated enum always carries its derive first), everything may come in one list
                    order = (k // 6) % 4
                    if order == 1:
                        attrs = [a for a in attrs if not a.startswith('derive(')] + [a for a in attrs if a.startswith('derive(')]
                    elif order == 2:
                        attrs = list(reversed(attrs))
                    if attrs:
                        if order == 3:
                            e.extra['enum_attrs'] = ['#[strum_discriminants(%s)]' % ', '.join(attrs)]
                        else:
                            e.extra['enum_attrs'] = ['#[strum_discriminants(%s)]' % a for a in attrs]
                    e.extra['shape'] += ' dorder=%d' % order
                    e.extra['disc_asserts'] = asserts
                    e.extra['evalflag'] = 1 if all(v.kind == 'unit' for v in e.variants) else (2 if repr_ else 0)
                    e.extra['shape'] += ' disc_mode=%d' % mode
                    k += 1
                    c.add(e)
                    for v in e.variants:
                        for alt in (1, 2):
                            c.op(e.id, 'disc %s %d %d' % (hx(v.ident), alt, e.extra['evalflag']), 'disc/%s/%s' % (v.kind, lname))
    # non-integer and compound reprs are copied verbatim as well (layout compared with a hand-written reference enum)
    from ..spec import VSpec
    # (`C, u8` on a data-carrying enum is not generated: the verbatim copy on the field-less mirror trips rustc's
    #  conflicting_repr_hints lint - an observed quirk outside C09's repr list)
    for raw in ('C', 'u8, align(4)', 'align(8)', 'C, align(16)', 'u8 / align(4)', 'align(4) / u8', 'C / align(16)', 'align(2) / i16 / align(8)'):
        for unit_only in (True, False):
            if unit_only and raw in ('C, u8', 'i16, C'):
                continue  # rustc: conflicting representation hints on a field-less enum
            lay = reprcorpus.layouts(None, 4)['implicit'] if not unit_only or 'u8' not in raw and 'i16' not in raw else reprcorpus.layouts('u8', 4)['gapped']
            e = reprcorpus.make_enum('c09_%d' % k, 'EnC09x%d' % k, 4, None, 'raw:' + raw, lay, 'none', unit_only, ['EnumDiscriminants'], ['disc'])
            if raw in ('C', 'C, align(16)', 'align(8)') and unit_only:
                for i, v in enumerate(e.variants):
                    v.discr = [3, None, 9, None][i]
            if ' / ' in raw:
                e.extra['repr_attrs'] = [[h.strip() for h in a.split(',')] for a in raw.split(' / ')]   # several #[repr] attributes
            else:
                e.extra['repr_raw'] = raw
            e.extra['disc_asserts'] = []
            e.extra['evalflag'] = 1 if unit_only else 0
            e.extra['shape'] += ' disc_mode=raw'
            k += 1
            c.add(e)
            for v in e.variants:
                c.op(e.id, 'disc %s 1 %d' % (hx(v.ident), e.extra['evalflag']), 'disc/%s/raw-repr' % v.kind)
    return c


def _strip(s):
    return ''.join(s.split())


D_ITEMS = [  # (source text, model item)
    ('derive(Hash)', ('der', ['Hash'])), ('derive(PartialOrd, Ord)', ('der', ['PartialOrd', 'Ord'])), ('derive(strum::EnumIter,)', ('der', ['strum::EnumIter'])),
    ('derive()', ('der', [])), ('derive(Default)', ('der', ['Default'])), ('derive(Display, EnumIter)', ('der', ['Display', 'EnumIter'])), ('derive(EnumString)', ('der', ['EnumString'])), ('derive(::core::hash::Hash, Default)', ('der', ['::core::hash::Hash', 'Default'])),
    ('name(Kind)', ('nam', 'Kind')), ('name(r#type)', ('nam', 'r#type')), ('name(Other)', ('nam', 'Other')),
    ('vis(pub)', ('vis', 'pub')), ('vis(pub(crate))', ('vis', 'pub(crate)')), ('vis()', ('vis', '')), ('vis(pub(super))', ('vis', 'pub(super)')),
    ('vis(pub(in crate::a))', ('vis', 'pub(incrate::a)')),
    ('doc = "generated"', ('doc', '"generated"')), ('doc = "second line"', ('doc', '"secondline"')),
    ('allow(dead_code)', ('oth', 'allow(dead_code)')), ('strum(serialize_all = "lowercase")', ('oth', 'strum(serialize_all="lowercase")')),
    ('strum(prefix = "p", ascii_case_insensitive)', ('oth', 'strum(prefix="p",ascii_case_insensitive)')),
    ('cfg_attr(test, derive(Default))', ('oth', 'cfg_attr(test,derive(Default))')), ('deny(missing_docs)', ('oth', 'deny(missing_docs)')),
    ('non_exhaustive()', ('oth', 'non_exhaustive()')), ('some::tool(a, b = 1)', ('oth', 'some::tool(a,b=1)')),
]
V_ATTRS = [  # (source attribute, (path, text, inner or None))
    ('#[doc = "v"]', ('doc', 'doc="v"', None)), ('#[cfg(all())]', ('cfg', 'cfg(all())', 'all()')), ('#[allow(dead_code)]', ('allow', 'allow(dead_code)', 'dead_code')),
    ('#[deny(unused)]', ('deny', 'deny(unused)', 'unused')), ('#[strum(serialize = "s")]', ('strum', 'strum(serialize="s")', 'serialize="s"')),
    ('#[strum_discriminants(strum(serialize = "d"))]', ('strum_discriminants', 'strum_discriminants(strum(serialize="d"))', 'strum(serialize="d")')),
    ('#[strum_discriminants(doc = "x")]', ('strum_discriminants', 'strum_discriminants(doc="x")', 'doc="x"')),
    ('#[strum_discriminants(cfg_attr(test, allow(unused), deny(warnings)))]', ('strum_discriminants', 'strum_discriminants(cfg_attr(test,allow(unused),deny(warnings)))', 'cfg_attr(test,allow(unused),deny(warnings))')),
    ('#[serde(rename = "x")]', ('serde', 'serde(rename="x")', 'rename="x"')), ('#[warn(unused)]', ('warn', 'warn(unused)', 'unused')),
    ('#[must_use]', ('must_use', 'must_use', None)), ('#[default]', ('default', 'default', None)), ('#[strum_discriminants(default)]', ('strum_discriminants', 'strum_discriminants(default)', 'default')), ('#[my::doc(x)]', ('', 'my::doc(x)', 'x')),
]
V_BAD = [('#[strum_discriminants]', ('strum_discriminants', 'strum_discriminants', None)), ('#[strum_discriminants()]', ('strum_discriminants', 'strum_discriminants()', '')),
         ('#[strum_discriminants = "x"]', ('strum_discriminants', 'strum_discriminants="x"', None))]


def _split_top(s):
    """split a token text at its top-level commas"""
    out, depth, cur = [], 0, ''
    for ch in s:
        if ch in '([{':
            depth += 1
        elif ch in ')]}':
            depth -= 1
        if ch == ',' and depth == 0:
            out.append(cur); cur = ''
        else:
            cur += ch
    out.append(cur)
    return [x for x in out if x]


def canon_header(line):
    """what rustc makes of the header, not how it is spelled: several `derive(..)` attributes (or one with a trailing
    comma) are one derive list at the place of the first; several `repr(..)` attributes are one hint list"""
    if not line.startswith('ok '):
        return line
    toks = line.split(' ')
    for ix, t in enumerate(toks):
        if t.startswith('attrs=') and t != 'attrs=-':
            attrs = [unhx(x).decode() for x in t[6:].split(';')]
            merged = []
            slot = {}
            for a in attrs:
                for kw in ('derive', 'repr'):
                    if a.startswith(kw + '(') and a.endswith(')'):
                        items = _split_top(a[len(kw) + 1:-1])
                        if kw in slot:
                            merged[slot[kw]][1].extend(items)
                        else:
                            slot[kw] = len(merged)
                            merged.append([kw, items])
                        break
                else:
                    merged.append([None, a])
            toks[ix] = 'attrs=' + ';'.join(hx(a if kw is None else '%s(%s)' % (kw, ','.join(a))) for kw, a in merged)
    return ' '.join(toks)


def header_stage(res, tier, rng):
    """mode A: the header of the generated enum (outer attributes in order, visibility, name, variant attributes) as the
    macro emits it, against `collectDisc` / `discHeader` / `variantAttrsOut` (StrumModel/DiscHeader.lean) on the
    `#[strum_discriminants(..)]` lists AS WRITTEN"""
    ok, err, wall, binp = modea.build()
    if not ok:
        raise RuntimeError('mode A build failed:\n' + err)
    ncase = 400 if tier == 'quick' else 6000
    lines, srcs, classes = [], [], []
    for k in range(ncase):
        n_items = rng.choice([0, 1, 2, 3, 4, 5, 6, 8])
        items = []
        for _ in range(n_items):
            cand = rng.choice(D_ITEMS)
            # name / vis repeat only now and then (then the derive must fail)
            if cand[1][0] in ('nam', 'vis') and any(i[1][0] == cand[1][0] for i in items) and rng.random() < 0.8:
                continue
            items.append(cand)
        groups = []
        i = 0
        while i < len(items):
            g = rng.choice([1, 1, 2, 3])
            groups.append(items[i:i + g]); i += g
        if rng.random() < 0.1:
            groups.insert(rng.randrange(len(groups) + 1), [])
        evis = rng.choice(['', 'pub', 'pub(crate)'])
        reprs = rng.choice([[], [], ['u8'], ['C', 'u8'], ['u8', 'align(4)'], ['C, i16']])
        nvar = rng.choice([1, 2, 3, 4])
        variants = []
        for j in range(nvar):
            va = [rng.choice(V_ATTRS) for _ in range(rng.choice([0, 0, 1, 2, 3]))]
            if rng.random() < 0.04:
                va.insert(rng.randrange(len(va) + 1), rng.choice(V_BAD))
            variants.append(va)
        src = []
        # attributes of the SOURCE enum that are none of the mirror's business (only `repr` is carried over), and a crate override
        # (it must not touch the requested derive paths: a bare `Display` is whatever the user has in scope)
        for extra in ('#[non_exhaustive]', '#[allow(dead_code)]', '#[doc = "top"]', '#[must_use]', '#[cfg_attr(all(), allow(unused))]', '#[strum(crate = "my::strum")]',
                      '#[strum(serialize_all = "snake_case")]', '#[derive(Debug)]', '#[deprecated]'):
            if rng.random() < 0.15:
                src.append(extra)
        rl = list(reprs)
        for g in groups:
            src.append('#[strum_discriminants(%s)]' % ', '.join(t for t, _ in g))
            if rl and rng.random() < 0.5:
                src.append('#[repr(%s)]' % rl.pop(0))
        for r in rl:
            src.append('#[repr(%s)]' % r)
        body = []
        for j, va in enumerate(variants):
            body.append(' '.join(t for t, _ in va) + ' V%d%s' % (j, ['', '(u8)', ' { x: u8 }', '()'][(j + k) % 4]))
        src.append('%s enum En%d { %s }' % (evis, k, ', '.join(body)))
        srcs.append('\n'.join(src))

        def enc_item(m):
            kind, val = m
            if kind == 'der':
                return 'der~' + (','.join(hx(p) for p in val) or '-')
            return '%s~%s' % (kind, hx(val))
        a = '|'.join(';'.join(enc_item(m) for _, m in g) for g in groups if g) or '-'
        va_s = '/'.join(';'.join('%s~%s~%s' % (hx(p), hx(t), '-' if inner is None else hx(inner)) for _, (p, t, inner) in va) or '-' for va in variants)
        lines.append('discheader name=%s vis=%s reprs=%s attrs=%s vattrs=%s' % (hx('En%d' % k), hx(evis), ','.join(hx(_strip(r)) for r in reprs) or '-', a, va_s))
        ndup = max(sum(1 for _, m in items if m[0] == 'nam'), sum(1 for _, m in items if m[0] == 'vis'))
        classes.append('items=%d groups=%d %s%s' % (min(len(items), 4), min(len(groups), 3), 'dup ' if ndup > 1 else '', 'strum-before-derive' if any(
            m[0] == 'oth' and m[1].startswith('strum(') and any(m2[0] == 'der' for _, m2 in items[ix + 1:]) for ix, (_, m) in enumerate(items)) else ''))
    mout = leanside.run_driver(lines)
    iout = modea.run(binp, ['discheader %s' % hx(s) for s in srcs])
    assert len(mout) == len(iout) == len(lines)
    nbad = 0
    dist = {}
    pending = []
    for l, s, m, i, cl in zip(lines, srcs, mout, iout, classes):
        key = cl + (' -> err' if m == 'err' else ' -> ok')
        dist[key] = dist.get(key, 0) + 1
        if canon_header(m) != canon_header(i):
            nbad += 1
            if nbad <= 3:
                pending.append({'kind': 'disagreement', 'label': 'modeA-discheader', 'op': l, 'source': s, 'model': m, 'impl': i,
                                'correspondence': 'mode A discheader: enum_discriminants_inner vs collectDisc / discHeader / variantAttrsOut (StrumProofs/DiscHeader.lean: collectDisc_ok_iff, header_order, variantAttrs_spec)',
                                'what': 'the generated discriminants enum (outer attributes in order / visibility / name / variant attributes / IntoDiscriminant) differs from collectDisc + discHeader on the attributes as written'})
    res.cov['modeA_discheader'] = {'cases': ncase, 'disagreements': nbad, 'model_err': sum(1 for m in mout if m == 'err'), 'build_s': round(wall, 1),
                                   'classes': len(dist), 'distribution_sample': dict(sorted(dist.items())[:12])}
    return pending


def run(tier, seed, rng):
    res = Result('C09', tier, seed)
    proof_stage(res, 'C09')
    header_pending = header_stage(res, tier, random.Random(seed ^ 0x9d15c))
    c = generate(tier, rng)
    out = correspond(res, c, runner.Workspace('c09'), label='modeB')
    bad = 0
    for o, got in zip(c.ops, out['impl']):
        if got is None:
            continue
        kv = dict(t.split('=', 1) for t in got.split(' ') if '=' in t)
        ident = o.line.split(' ')[3]
        ok = kv.get('from') == ident and kv.get('from_ref') == ident and kv.get('into') in (ident, '-') and kv.get('pt') == 'ok' and kv.get('size_ok') == 'true'
        if kv.get('eval') not in (None, '?'):
            ok &= kv['eval'] == kv['val']
        if not ok:
            bad += 1
            if bad <= 3:
                res.violation({'kind': 'oracle', 'op': o.line, 'impl': got, 'enum': c.by_id[o.eid].to_json(),
                               'what': 'discriminant enum value differs from the source variant (name / integer value / pass-through attribute / size)'})
    res.cov['impl_vs_oracle_failures'] = bad
    # a header that differs from the model's is a broken correspondence; it is a failing INPUT of C09 only when compiled
    # programs behave differently too (mode B above) - otherwise it is reported as such, with no failing input
    behavioural = len(res.violations) > 0
    for pl in header_pending:
        if not behavioural:
            pl['search'] = 'mode B (%d compiled enums, every variant constructed, %d operations) found no program that behaves differently' % (len(c.especs), len(c.ops))
        res.violation(pl, no_failing_input=not behavioural)
    table, distinct = distribution(c, out['model'])
    res.cov['input_distribution'] = table
    res.cov['distinct_nontrivial'] = len(distinct)
    res.cov['rule'] = ('variant kinds x type/lifetime/const generics and where clauses x 11 repr choices x discriminant layouts (implicit, explicit, gapped, descending, negative, expression-valued, MIN/MAX) x '
                       'strum_discriminants(name / vis(pub) / vis(pub(crate)) / derive(std traits) / derive(strum::EnumIter, strum::Display) / doc / variant-level pass-through strum(serialize)); '
                       'every variant constructed with two payloads; observables From<E>, From<&E>, IntoDiscriminant (present iff vis is default or pub), discriminant value `as R`, value of e itself, size_of, '
                       'compile-time uses of each requested derive; distinct = (enum shape, kind/layout, answer)')
    res.samples = [{'enum': c.especs[11].model_lines(), 'attrs': c.especs[11].extra.get('enum_attrs')}] + [{'op': o.line, 'class': o.cls, 'model': m} for o, m in list(zip(c.ops, out['model']))[40:44]]
    return res.finish()
