"""C12 — ascii_case_insensitive folds ASCII letters only, only for the variants it covers."""
from ..core import Result, Corpus, proof_stage, correspond, distribution
from ..spec import ESpec, VSpec, hx
from .. import strcorpus, textgen, runner

SPELLS = ['Ärger', 'ÉCOLE', 'Kelvin', 'Kiss', 'straße', 'İstanbul', 'kelvinK', 'sıfır', 'Ünï-Code', 'ABC', 'abc9', 'MiXeD', 'ſhort', 'Ski', 'is', 'SS', 'ss',
          'σίσυφος', 'K1', 'aZ', 'q', 'dark_black', 'a[0]', 'x^y`z', 'p|q{r}~@']


def generate(tier, rng):
    c = Corpus()
    n = 0
    enums = []
    for eci in (False, True):
        for base in range(0, len(SPELLS), 3):
            for kind in (('unit', []), ('tuple', ['u8'])):
                e = ESpec(id='c12_%d' % n, name='EnC12x%d' % n, ci=eci, derives=['EnumString'], feats=['parse'])
                for j, vci in enumerate((None, True, False)):
                    sp = SPELLS[(base + j + (n // 2) % 3) % len(SPELLS)]
                    # one variant named by identifier-free literal, one by two literals
                    v = VSpec(ident='V%d' % j, kind=kind[0], ftypes=list(kind[1]), ci=vci)
                    if n % 2 == 0:
                        v.ser = [sp + str(j)]
                    else:
                        v.ts = sp + str(j)
                        v.ser = [sp.swapcase() + 'x' + str(j)] if sp.isascii() else []
                    e.variants.append(v)
                # identifier-named variants (spelling = identifier under a style)
                e.variants.append(VSpec(ident='PlainIdent', ci=None))
                e.variants.append(VSpec(ident='Kelvin_Sign', ci=True))
                e.style = [None, 'snake_case', 'UPPERCASE', 'kebab-case'][n % 4]
                e.extra['shape'] = 'enum_ci=%s style=%s kind=%s' % (eci, e.style, kind[0])
                enums.append(e)
                n += 1
    # COUNT shapes: enums whose generated match has exactly one arm (or none), with disabled / default variants around it
    for j, (eci, vci) in enumerate(((True, None), (False, True), (True, False), (False, None))):
        for shape in ('only', 'disabled-first', 'default-last', 'default-first', 'two-spellings', 'none'):
            e = ESpec(id='c12s_%d' % n, name='EnC12s%d' % n, ci=eci, derives=['EnumString'], feats=['parse'])
            one = VSpec(ident='OnlyArm', ci=vci)
            if j % 2:
                one.ser = ['Mixed-Case_%d' % j]
            if shape == 'two-spellings':
                one.ser = ['Mixed-Case_%d' % j, 'otherSpelling']
            vs = [one] if shape != 'none' else []
            if shape == 'disabled-first':
                vs = [VSpec(ident='Off', dis=True, ci=True)] + vs + [VSpec(ident='OffToo', dis=True)]
            if shape in ('default-last', 'none'):
                vs = vs + [VSpec(ident='CatchAll', kind='tuple', ftypes=['String'], default=True)]
            if shape == 'default-first':
                vs = [VSpec(ident='CatchAll', kind='tuple', ftypes=['String'], default=True)] + vs
            e.variants = vs
            e.extra['shape'] = 'one-arm enum_ci=%s var_ci=%s %s' % (eci, vci, shape)
            enums.append(e)
            n += 1
    info = strcorpus.query_model(enums)
    maxk = 8 if tier == 'quick' else 12
    for e in enums:
        c.add(e, in_domain=info[e.id]['nooverlap'])
        seen = set()
        for v in e.variants:
            eff = v.ci if v.ci is not None else e.ci
            tag = 'ci' if eff else 'cs'
            for s in info[e.id]['spellings'][v.ident]:
                flips, full = textgen.case_flips(s, max_full=maxk, rng=rng, nrand=64 if tier == 'quick' else 512)
                cand = [(f, tag + '-flip') for f in flips]
                cand += [(x, tag + '-lookalike') for x in textgen.lookalike_subst(s)]
                for f in flips[:8]:
                    cand += [(x, tag + '-lookalike') for x in textgen.lookalike_subst(f)]
                punct = ''.join(chr(ord(ch) ^ 0x20) if ch in '[\\]^_`{|}~@\x7f' else ch for ch in s)
                if punct != s:
                    cand += [(punct, tag + '-punct-fold'), (punct.upper(), tag + '-punct-fold'), (punct.swapcase(), tag + '-punct-fold')]
                cand += [(s.lower(), tag + '-unicode-lower'), (s.upper(), tag + '-unicode-upper'), (s.casefold(), tag + '-casefold'),
                         (s.title(), tag + '-title'), (s.swapcase(), tag + '-unicode-swapcase')]
                for x, cls in cand:
                    if x not in seen:
                        seen.add(x)
                        c.op(e.id, 'parse %s' % hx(x), cls)
    e = ESpec(id='c12u', name='EnC12u', derives=['EnumString'], feats=['parse'])
    e.variants = [VSpec(ident='Kelvin', ser=['k', '\u212a'], ci=True), VSpec(ident='Cafe', ser=['café', 'CAFÉ'], ci=True),
                  VSpec(ident='Street', ser=['straße', 'STRAẞE', 'strasse'], ci=True), VSpec(ident='Sigma', ts='σ', ser=['Σ', 'ς'], ci=True),
                  VSpec(ident='Exact', ser=['é', 'É'], ci=False)]
    e.extra['shape'] = 'spellings of one variant that are Unicode case variants of each other'
    e.extra['no_noise'] = True
    uinfo = strcorpus.query_model([e])
    c.add(e, in_domain=uinfo[e.id]['nooverlap'])
    for s in ['k', 'K', '\u212a', 'café', 'CAFÉ', 'Café', 'cafÉ', 'CAFé', 'straße', 'STRAẞE', 'STRASSE', 'Straße', 'strasse', 'σ', 'Σ', 'ς', 'é', 'É']:
        c.op(e.id, 'parse %s' % hx(s), 'unicode-case-variants')
    # an exact and an insensitive variant with the SAME spelling: the exact one does not make the other one case-sensitive
    ovs = strcorpus.overlap_enums('C12')
    oinfo = strcorpus.query_model(ovs)
    for e in ovs:
        c.add(e, in_domain=oinfo[e.id]['nooverlap'])
        for s in strcorpus.OVERLAP_INPUTS:
            c.op(e.id, 'parse %s' % hx(s), 'shared-spelling')
    strcorpus.pointwise_domain(c)
    return c


def run(tier, seed, rng):
    res = Result('C12', tier, seed)
    proof_stage(res, 'C12')
    c = generate(tier, rng)
    out = correspond(res, c, runner.Workspace('c12'), label='modeB')
    table, distinct = distribution(c, out['model'])
    res.cov['input_distribution'] = table
    res.cov['distinct_nontrivial'] = len(distinct)
    res.cov['exhaustive_case_flips_up_to_letters'] = 8 if tier == 'quick' else 12
    res.cov['rule'] = ('enum flag {off,on} x variant flag {absent,true,false} x spellings with ASCII and non-ASCII letters (serialize / to_string / styled identifier); '
                       'inputs: every 2^k case flip of each spelling (k <= bound, sampled beyond), Unicode look-alikes at each letter position (Kelvin, long s, dotless/dotted i, sharp s), '
                       'str.lower/upper/casefold/title/swapcase images, each run against the whole enum (so also against the case-sensitive variants); '
                       'distinct = (enum shape, input class, answer kind)')
    res.samples = [{'enum': c.especs[1].model_lines()}] + [{'op': o.line, 'class': o.cls, 'model': m} for o, m in list(zip(c.ops, out['model']))[:6]]
    return res.finish()
