"""C15 — EnumProperty returns the declared value for (variant, key, type), else None."""
from ..core import Result, Corpus, proof_stage, correspond, distribution
from ..spec import ESpec, VSpec, hx
from .. import runner, textgen
from ..strcorpus import FIELD_NAMES

KEYS = ['Teacher', 'room', 'students', 'mandatory', 'fn', 'type', 'match', 'Key_9', 'x', 'self', 'Self', 'r2d2', 'r#type', 'r#room', 'r#fn', 'größe', 'é', 'gefüttert_heute', 'ключ']
STRS = ['Ms.Frizzle', '', 'ünï "q" \\', '{0}', '201', 'true', 'false']
INTS = [0, 16, -1, -9223372036854775808, 9223372036854775807, 42, -100]
KINDS = [('unit', []), ('tuple', ['u8']), ('named', ['i32', 'String']), ('tuple', []), ('named', [])]


def generate(tier, rng):
    c = Corpus()
    k = 0
    n_enums = 24 if tier == 'quick' else 120
    for k in range(n_enums):
        nvar = 1 + k % 4
        e = ESpec(id='c15_%d' % k, name='EnC15x%d' % k, derives=['EnumProperty'], feats=['prop'], generics=['', 'ty', 'lt', 'ty_nd', 'const', 'where'][k % 6])
        e.extra['prop_groups'] = {}
        allkeys = set()
        for i in range(nvar):
            kind = KINDS[(i + k) % len(KINDS)]
            v = VSpec(ident='Pv%d' % i, kind=kind[0], ftypes=list(kind[1]))
            if kind[0] == 'named':
                v.fnames, v.fdw = FIELD_NAMES[:len(kind[1])], [None] * len(kind[1])
            np = (i * 2 + k) % 7
            props = []
            used = set()
            for j in range(np):
                key = KEYS[(k + i * 3 + j * 5) % len(KEYS)]
                t = 'sib'[(k + i + j) % 3]
                # the same key with two types in one variant is allowed (different buckets); same key + same type is not generated
                if (key, t) in used:
                    continue
                used.add((key, t))
                val = STRS[(j + k) % len(STRS)] if t == 's' else (INTS[(j + i + k) % len(INTS)] if t == 'i' else (j + k) % 2 == 0)
                props.append((key, t, val))
                allkeys.add(key)
            if i == 0 and k % 2 == 0:
                # the same key declared with several types on one variant: each getter sees its own
                for key, t, val in (('dup', 's', 'large'), ('dup', 'i', 12), ('dup', 'b', True), ('two', 'i', -1), ('two', 's', 'x')):
                    props.insert((k + len(key)) % (len(props) + 1), (key, t, val))
                    allkeys.add(key)
            v.props = props
            ng = 1 + (i + k) % 3
            sizes = []
            rest = len(props)
            for g in range(ng):
                sz = rest if g == ng - 1 else min(rest, max(0, len(props) // ng))
                sizes.append(sz)
                rest -= sz
            e.extra['prop_groups'][v.ident] = sizes
            if (k + i) % 3 != 0:
                e.extra.setdefault('prop_interleave', {})[v.ident] = ['attr', 'list'][(k + i) % 2]
            v.dis = (k % 5 == 3 and i == nvar - 1 and nvar > 1)
            e.variants.append(v)
        from ..strcorpus import add_generic_field
        add_generic_field(e)
        e.extra['shape'] = 'n=%d k=%d gen=%s' % (nvar, k % 7, e.generics)
        c.add(e)
        queries = set(allkeys)
        for key in list(allkeys):
            queries |= {key.lower(), key.upper(), key + 'x', key[:-1], ' ' + key, 'r#' + key, key[2:] if key.startswith('r#') else key}
        queries |= {'', 'nope'}
        for _ in range(4 if tier == 'quick' else 20):
            queries.add(textgen.random_ascii(rng, 5))
        for v in e.variants:
            for q in sorted(queries):
                cls = 'declared-here' if any(p[0] == q for p in v.props) else ('declared-elsewhere' if q in allkeys else 'undeclared')
                if v.dis:
                    cls = 'disabled/' + cls
                c.op(e.id, 'prop %s %s' % (hx(v.ident), hx(q)), cls)
    # LOOK-ALIKE variants: the same keys with values that are equal as TEXT but differ in type, with equal values, and with
    # the same entries in another order - each variant still answers for its own declarations
    for j, pairs in enumerate([
            ([('level', 's', '1'), ('strict', 's', 'true')], [('level', 'i', 1), ('strict', 'b', True)], [('level', 's', '1'), ('strict', 's', 'true')]),
            ([('a', 'i', 0), ('b', 's', '0')], [('b', 's', '0'), ('a', 'i', 0)], [('a', 's', '0'), ('b', 'i', 0)]),
            ([('k', 'b', False), ('k', 's', 'false')], [('k', 's', 'false')], [('k', 'b', False)])]):
        e = ESpec(id='c15same%d' % j, name='EnC15same%d' % j, derives=['EnumProperty'], feats=['prop'])
        for i, props in enumerate(pairs):
            v = VSpec(ident='Sv%d' % i, kind=['unit', 'tuple', 'named'][i % 3], ftypes=[[], ['u8'], ['i32']][i % 3])
            if v.kind == 'named':
                v.fnames, v.fdw = ['alpha'], [None]
            v.props = list(props)
            e.variants.append(v)
        e.extra['prop_groups'] = {v.ident: [len(v.props)] for v in e.variants}
        e.extra['shape'] = 'look-alike props'
        c.add(e)
        for v in e.variants:
            for q in sorted({p[0] for vv in e.variants for p in vv.props} | {'nope'}):
                c.op(e.id, 'prop %s %s' % (hx(v.ident), hx(q)), 'look-alike/' + ('declared-here' if any(p[0] == q for p in v.props) else 'declared-elsewhere'))
    return c


def run(tier, seed, rng):
    res = Result('C15', tier, seed)
    proof_stage(res, 'C15')
    c = generate(tier, rng)
    out = correspond(res, c, runner.Workspace('c15'), label='modeB')
    table, distinct = distribution(c, out['model'])
    res.cov['input_distribution'] = table
    res.cov['distinct_nontrivial'] = len(set((d[0], d[1]) for d in distinct))
    res.cov['rule'] = ('0..6 properties per variant split over 1..3 props(..) groups (adjacent, separated by another strum attribute, or in one list with another item between them), raw-identifier keys (r#type is the key "r#type"), keys shared across variants and across types (same key as str in one variant and int in another; '
                       'same key with two types in one variant), keyword keys (fn, type, match, self, Self), negative / i64::MIN / i64::MAX integers, empty and non-ASCII strings, disabled variants; '
                       'queried through get_str / get_int / get_bool with EVERY key declared anywhere in the enum, case / prefix / suffix / whitespace / r# variations and random strings; '
                       'distinct = (enum shape, query class)')
    res.samples = [{'enum': c.especs[5].model_lines()}] + [{'op': o.line, 'class': o.cls, 'model': m} for o, m in list(zip(c.ops, out['model'])) if o.cls == 'declared-here'][:4]
    return res.finish()
