"""C14 — EnumMessage returns exactly the per-variant message, detail, docs and spellings."""
from ..core import Result, Corpus, proof_stage, correspond, distribution
from ..spec import ESpec, VSpec, hx
from .. import runner
from ..strcorpus import STYLES, FIELD_NAMES

DOC_LINES = ['', ' leading space', '  two spaces', '\tTab first', 'no space', ' has "quotes" and \\ backslash', ' {braces} {0}', ' ünï cödé', '   ',
             ' trailing  ', ' line with\\nescaped', ' 日本語', '# heading', ' ']
KINDS = [('unit', []), ('tuple', ['u8']), ('named', ['i32', 'String']), ('tuple', ['bool', 'u16', 'String']), ('tuple', []), ('named', [])]


def generate(tier, rng):
    c = Corpus()
    k = 0
    passes = 2 if tier == 'quick' else 8
    for ps in range(passes):
        for mode in ('mixed', 'all-message', 'none', 'all-docs', 'all-detailed'):
            for nvar in (1, 3, 6):
                e = ESpec(id='c14_%d' % k, name='EnC14x%d' % k, derives=['EnumMessage'], feats=['msg'],
                          style=STYLES[(k * 5 + ps) % len(STYLES)], generics=['', 'ty', 'lt'][k % 3] if nvar > 1 else '',
                          prefix=[None, 'pfx/', None, 'é-'][k % 4])
                for i in range(nvar):
                    kind = KINDS[(i + k) % len(KINDS)]
                    v = VSpec(ident='Va%d%s' % (i, 'Xy'[i % 2]), kind=kind[0], ftypes=list(kind[1]))
                    if kind[0] == 'named':
                        v.fnames, v.fdw = FIELD_NAMES[:len(kind[1])], [None] * len(kind[1])
                    sel = (i + k + ps) % 4
                    has_msg = mode == 'all-message' or (mode == 'mixed' and sel in (1, 3))
                    has_det = mode == 'all-detailed' or (mode == 'mixed' and sel in (2, 3))
                    ndocs = (i + ps + k) % 5 if mode in ('mixed',) else (1 + (i + ps) % 3 if mode == 'all-docs' else 0)
                    if has_msg:
                        v.msg = ['message of %s "q" {x}' % v.ident, 'mé§', ''][(i + k) % 3]   # an EMPTY literal is a message too
                    if has_det:
                        v.det = '' if (i + k) % 4 == 2 else 'detailed\n%s' % v.ident
                    v.docs = [DOC_LINES[(k * 3 + i * 5 + j * 7 + ps) % len(DOC_LINES)] for j in range(ndocs)]
                    nm = (i + k) % 4
                    if nm == 1:
                        v.ts = 'shown-%d' % i
                    elif nm == 2:
                        v.ser = ['a%d' % i, 'bb%d' % i] if (i + k) % 8 != 2 else ['ok%d' % i, 'OK%d' % i, 'Ok%d' % i]
                    elif nm == 3:
                        v.ser = ['s%d' % i]
                        v.ts = 't%d' % i
                    v.dis = (mode == 'mixed' and (i + k) % 5 == 0 and nvar > 1)
                    if v.dis:
                        v.attr_layout = ['rev', 'one', 'revsplit', 'split'][(i + k // 5) % 4]   # items before AND after `disabled`
                    e.variants.append(v)
                if e.generics == 'ty':
                    tv = [v for v in e.variants if v.kind == 'tuple' and v.ftypes]
                    if tv:
                        tv[0].ftypes[0] = 'T'
                    else:
                        e.generics = ''
                elif e.generics == 'lt':
                    e.variants.append(VSpec(ident='GenLt', kind='tuple', ftypes=['RefStr'], docs=[' lifetime variant']))
                e.extra['shape'] = 'mode=%s n=%d style=%s gen=%s' % (mode, nvar, e.style, e.generics)
                k += 1
                c.add(e)
                for v in e.variants:
                    cls = 'msg=%d det=%d docs=%d dis=%d' % (v.msg is not None, v.det is not None, len(v.docs), v.dis)
                    c.op(e.id, 'msg %s' % hx(v.ident), cls)
    # disabled variants that carry every attribute: all three getters must still answer None
    for j, combo in enumerate([('m',), ('d',), ('m', 'd'), ('doc',), ('m', 'd', 'doc'), ('d', 'doc')]):
        e = ESpec(id='c14d%d' % j, name='EnC14d%d' % j, derives=['EnumMessage'], feats=['msg'])
        for pos in range(3):
            v = VSpec(ident='Dv%d' % pos, kind=KINDS[(pos + j) % len(KINDS)][0], ftypes=list(KINDS[(pos + j) % len(KINDS)][1]))
            if v.kind == 'named':
                v.fnames, v.fdw = FIELD_NAMES[:len(v.ftypes)], [None] * len(v.ftypes)
            if 'm' in combo:
                v.msg = 'msg %d' % pos
            if 'd' in combo:
                v.det = 'det %d' % pos
            if 'doc' in combo:
                v.docs = [' doc %d' % pos, ' second line'][:1 + pos % 2]
            v.dis = (pos == j % 3)
            # spellings too (get_serializations answers for disabled variants), written before AND after `disabled`
            if (pos + j) % 3 != 2:
                v.ser = ['sp-%d' % pos, 'spelling-%d-long' % pos][:1 + (pos + j) % 2]
            if (pos + j) % 4 == 1:
                v.ts = 'shown %d' % pos
            v.attr_layout = ['one', 'split', 'rev', 'revsplit'][(pos + j) % 4]
            e.variants.append(v)
        e.extra['shape'] = 'disabled-with-%s' % '+'.join(combo)
        c.add(e)
        for v in e.variants:
            c.op(e.id, 'msg %s' % hx(v.ident), 'msg=%d det=%d docs=%d dis=%d' % (v.msg is not None, v.det is not None, len(v.docs), v.dis))
    return c


def run(tier, seed, rng):
    res = Result('C14', tier, seed)
    proof_stage(res, 'C14')
    c = generate(tier, rng)
    out = correspond(res, c, runner.Workspace('c14'), label='modeB')
    table, distinct = distribution(c, out['model'])
    res.cov['input_distribution'] = table
    res.cov['distinct_nontrivial'] = len(set((d[0], d[1]) for d in distinct))
    res.cov['rule'] = ('enums in five modes (mixed / every variant has a message (no wildcard arm) / none has / all documented / all detailed) x 1,3,6 variants x kinds x generics x '
                       '0..4 doc lines (leading whitespace 0-3 spaces / tab, empty lines, quotes, backslashes, braces, non-ASCII) x naming attributes x 17 styles x disabled; '
                       'observables get_message / get_detailed_message / get_documentation / get_serializations per variant; distinct = (enum shape, variant class)')
    res.samples = [{'enum': c.especs[2].model_lines()}] + [{'op': o.line, 'class': o.cls, 'model': m} for o, m in list(zip(c.ops, out['model']))[4:8]]
    return res.finish()
