"""C08 — COUNT, VariantNames, VariantArray and EnumIter describe the same variant list."""
from ..core import Result, Corpus, proof_stage, correspond, distribution
from ..spec import hx, ESpec
from .. import itercorpus, runner
from ..strcorpus import STYLES


def generate(tier, rng):
    c = Corpus()
    k = 0
    discrs = [None, lambda i: i * 3 + 1, lambda i: 100 - i, lambda i: (i * 7) % 5 - 2 + i * 10]
    for n in range(0, 13):
        for pl in ('none', 'first', 'adjacent', 'alternating', 'last'):
            if n == 0 and pl != 'none':
                continue
            if tier == 'quick' and n > 5 and pl in ('first', 'last'):
                continue
            for variant in range(2 if tier == 'quick' else 4):
                derives = ['EnumIter', 'EnumCount', 'VariantNames'] + (['VariantArray'] if True else [])
                e = itercorpus.make_enum('c08_%d' % k, 'EnC08x%d' % k, n, pl, unit_only=True, derives=derives,
                                         feats=['iter', 'count', 'vnames', 'varray'], discr=discrs[(k + variant) % 4],
                                         naming=(variant % 2 == 1), style=STYLES[(k * 3 + variant) % len(STYLES)])
                if discrs[(k + variant) % 4] is not None and n > 0:
                    e.repr = ['i32', 'i64', 'isize', 'i16'][k % 4]
                e.prefix = [None, 'p_'][k % 2]
                k += 1
                c.add(e)
                c.op(e.id, 'count', 'count/' + pl)
                c.op(e.id, 'collect', 'iter/' + pl)
                c.op(e.id, 'variants', 'names/' + pl)
                c.op(e.id, 'varray', 'array/' + pl)
    # equal canonical names on neighbouring variants (legal for these derives): VARIANTS keeps one entry per variant
    from ..spec import VSpec
    for j, (style, idents, attrs) in enumerate([('lowercase', ['Http', 'HTTP', 'Tcp', 'TCP'], {}), (None, ['Low', 'Mid', 'Mid2', 'High'], {'Mid2': 'Mid'}), (None, ['Low', 'Mid', 'High', 'Minimal'], {'Minimal': 'Low'}),
                                                 ('UPPERCASE', ['ab', 'Ab', 'AB', 'cd'], {}), ('snake_case', ['FooBar', 'Foo_Bar', 'Baz'], {})]):
        e = ESpec(id='c08d%d' % j, name='EnC08d%d' % j, style=style, derives=['EnumIter', 'EnumCount', 'VariantNames', 'VariantArray'],
                  feats=['iter', 'count', 'vnames', 'varray'])
        for i in idents:
            v = VSpec(ident=i)
            if i in attrs:
                v.ts = attrs[i]
            e.variants.append(v)
        e.extra['shape'] = 'adjacent-equal-names'
        c.add(e)
        c.op(e.id, 'count', 'count/dup')
        c.op(e.id, 'collect', 'iter/dup')
        c.op(e.id, 'variants', 'names/dup')
        c.op(e.id, 'varray', 'array/dup')
    # generic enums LAST (the four-observable oracle below walks the ops before them in groups of four)
    from ..spec import VSpec as _V2
    for j, pos in enumerate((0, 2, 4)):
        e = ESpec(id='c08gdef%d' % j, name='EnC08gdef%d' % j, derives=['EnumIter', 'EnumCount', 'VariantNames'], feats=['iter', 'count', 'vnames'],
                  style=[None, 'snake_case', 'UPPERCASE'][j])
        e.variants = [_V2(ident='Alpha'), _V2(ident='BetaTwo', kind='tuple', ftypes=['u8']), _V2(ident='Gamma', ser=['g']), _V2(ident='Delta')]
        e.variants.insert(pos, _V2(ident='CatchAll', kind='tuple', ftypes=['String']))
        e.extra['noise_items'] = {'CatchAll': ['default']}   # written in the source and seen by the model; not a harness-level default
        e.extra['shape'] = 'with a default variant at %d' % pos
        e.extra['no_noise'] = True
        c.add(e)
        c.op(e.id, 'count', 'count/default-variant')
        c.op(e.id, 'variants', 'names/default-variant')
        c.op(e.id, 'collect', 'iter/default-variant')
    for j, gen in enumerate(('where', 'ty', 'const', 'ty_nd', 'lt')):
        e = itercorpus.make_enum('c08g%d' % j, 'EnC08g%d' % j, 4, 'middle', generics=gen if gen != 'lt' else '',
                                 derives=['EnumIter', 'EnumCount', 'VariantNames'] if gen != 'lt' else ['EnumCount', 'VariantNames'],
                                 feats=['iter', 'count', 'vnames'] if gen != 'lt' else ['count', 'vnames'])
        if gen == 'lt':
            from ..spec import VSpec as _V
            e.generics = 'lt'
            e.variants.append(_V(ident='GenLt', kind='tuple', ftypes=['RefStr']))
        e.extra['shape'] = 'generic %s' % gen
        c.add(e)
        c.op(e.id, 'count', 'count/generic')
        c.op(e.id, 'variants', 'names/generic')
        if gen != 'lt':
            c.op(e.id, 'collect', 'iter/generic')
    for j, gen in enumerate(('const', 'const')):
        from ..spec import ESpec as _E, VSpec as _V
        e = _E(id='c08gu%d' % j, name='EnC08gu%d' % j, generics=gen, derives=['EnumIter', 'EnumCount', 'VariantNames', 'VariantArray'], feats=['iter', 'count', 'vnames', 'varray'])
        e.variants = [_V(ident='Left'), _V(ident='Right'), _V(ident='Mid', dis=(j == 1))]
        if j == 1:
            e.derives.remove('VariantArray'); e.feats.remove('varray')
        e.extra['shape'] = 'unit-only enum with an unused const generic parameter'
        c.add(e)
        c.op(e.id, 'count', 'count/generic-unit')
        c.op(e.id, 'variants', 'names/generic-unit')
        c.op(e.id, 'collect', 'iter/generic-unit')
        if j == 0:
            c.op(e.id, 'varray', 'array/generic-unit')
    return c


def solo_stage(res, c):
    """each of the four derives ALONE on (a third of) the definitions: compile only"""
    from . import c19
    solos = c19.solo_clones(c.especs[::3], only=('EnumIter', 'EnumCount', 'VariantNames', 'VariantArray'))
    c19.build_config(res, 'solo-derive', solos, runner.Workspace('c08solo', target_key='std'), lambda e, k: c19.SoloDefs(e), '#![allow(warnings)]')
    res.cov['solo_derive_definitions'] = len(solos)


def run(tier, seed, rng):
    res = Result('C08', tier, seed)
    proof_stage(res, 'C08')
    c = generate(tier, rng)
    out = correspond(res, c, runner.Workspace('c08'), label='modeB')
    solo_stage(res, c)
    bad = 0
    imp = out['impl']
    n4 = next((i for i, o in enumerate(c.ops) if o.eid.startswith('c08g')), len(c.ops))
    for k in range(0, n4, 4):
        e = c.by_id[c.ops[k].eid]
        if imp[k] is None:
            continue
        en = [v for v in e.variants if not v.dis]
        cnt, col, names, arr = imp[k], imp[k + 1].split(' '), imp[k + 2].split(' '), imp[k + 3].split(' ')
        ok = cnt == 'count=%d' % len(en) and col[0] == 'n=%d' % len(en)
        ok &= names[0] == 'n=%d' % len(e.variants) and arr[0] == 'n=%d' % len(e.variants)
        ok &= arr[1:] == [hx(v.ident) for v in e.variants]
        if len(en) == len(e.variants):
            ok &= [t.split(':')[0] for t in col[1:]] == arr[1:]
        if not ok:
            bad += 1
            res.violation({'kind': 'oracle', 'enum': e.to_json(), 'impl': imp[k:k + 4], 'what': 'COUNT / iter / VARIANTS / VariantArray disagree'})
    res.cov['impl_vs_oracle_failures'] = bad
    table, distinct = distribution(c, out['model'])
    res.cov['input_distribution'] = table
    res.cov['distinct_nontrivial'] = len(distinct)
    res.cov['rule'] = ('field-less enums of 0..12 variants x disabled placement x explicit discriminants (ascending, descending, gapped) with repr x naming attributes x '
                       'style x prefix; observables COUNT, iter().collect(), VariantNames::VARIANTS, VariantArray::VARIANTS index by index; distinct = (shape, observable)')
    res.samples = [{'enum': c.especs[5].model_lines()}] + [{'op': o.line, 'class': o.cls, 'model': m} for o, m in list(zip(c.ops, out['model']))[20:24]]
    return res.finish()
