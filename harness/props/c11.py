"""C11 — default and transparent variants capture and forward their inner value verbatim."""
from ..core import Result, Corpus, proof_stage, correspond, distribution
from ..spec import ESpec, VSpec, hx
from .. import strcorpus, runner, rustgen, fmtgrid

INNER_TEXTS = ['', 'x', 'héllo wörld', '  pad ', '{braces}', 'a\nb', 'TAB\there', '0', 'ß', '\U0001f600 smile']
INT_TEXTS = {'u32': ['0', '42', '4294967295'], 'i64': ['0', '-7', '9223372036854775807', '-9223372036854775808'], 'u8': ['0', '255']}
INNER_ENUM_TEXTS = ['inner-a', 'Inner B', 'çé']


def others(k):
    """a few ordinary variants next to the default/transparent one"""
    return [VSpec(ident='Alpha%d' % k, ci=True), VSpec(ident='Beta%d' % k, ser=['b-%d' % k, 'BETA %d' % k]),
            VSpec(ident='Gamma%d' % k, kind='tuple', ftypes=['u8'], ts='gämma%d' % k),
            VSpec(ident='Gone%d' % k, dis=True)]


def generate(tier, rng):
    c = Corpus()
    enums = []
    n = 0

    def new(derives, feats, **kw):
        nonlocal n
        e = ESpec(id='c11_%d' % n, name='EnC11x%d' % n, derives=derives, feats=feats, **kw)
        e.extra['fwd'] = True
        n += 1
        enums.append(e)
        return e

    # (a) default variants
    for form, ty in (('tuple', 'String'), ('named', 'String'), ('tuple', 'BoxStr'), ('named', 'BoxStr')):
        for pos in (0, 2, 4):
            for style in (None, 'snake_case'):
                e = new(['EnumString', 'Display'], ['parse', 'names'], style=style, ci=(pos == 2), prefix=[None, 'colour/', ''][(pos // 2 + (style is None)) % 3])
                e.variants = others(n)
                dv = VSpec(ident='Other', kind=form, ftypes=[ty], default=True)
                if form == 'named':
                    dv.fnames, dv.fdw = ['inner'], [None]
                e.variants.insert(pos, dv)
                e.extra['shape'] = 'default/%s/%s/pos%d/style=%s' % (form, ty, pos, style)
    # default + to_string (Display prints the fixed name; capture still applies)
    e = new(['EnumString', 'Display'], ['parse', 'names'])
    e.variants = others(n) + [VSpec(ident='Other', kind='tuple', ftypes=['String'], default=True, ts='other-fixed')]
    e.extra['shape'] = 'default+to_string'
    # (b) transparent variants
    for form in ('tuple', 'named'):
        for ty, derives in (('String', ['Display', 'AsRefStr']), ('StaticStr', ['Display', 'AsRefStr', 'IntoStaticStr']),
                            ('u32', ['Display']), ('i64', ['Display']), ('Inner', ['Display', 'AsRefStr', 'IntoStaticStr']),
                            ('BoxStr', ['Display', 'AsRefStr'])):
            e = new(['EnumString'] + derives if ty not in ('StaticStr',) else derives, ['parse', 'names'] if ty != 'StaticStr' else ['names', 'mk'],
                    prefix=(None if form == 'tuple' else 'pfx:'))   # a prefix belongs to NAMES; a forwarded value has none
            tv = VSpec(ident='Wrap', kind=form, ftypes=[ty], tr=True)
            if form == 'named':
                tv.fnames, tv.fdw = ['inner'], [None]
            e.variants = others(n)[:3] + [tv]
            # a transparent variant may also carry to_string / serialize (they give EnumString a spelling); the string
            # derives must still forward to the inner value
            if form == 'named':
                tv.ts = 'wrapped-%s' % ty.lower()
            elif ty in ('u32', 'Inner'):
                tv.ser = ['w1', 'wrapped-long-%s' % ty.lower()]
            e.cis = False  # const_into_str cannot call the inner From impl in a const fn (rustc E0015); outside C11
            e.extra['shape'] = 'transparent/%s/%s' % (form, ty)
    # default + serialize literals (spellings for EnumString only): Display still prints the captured value
    for nser in (1, 2):
        for form in ('tuple', 'named'):
            e = new(['EnumString', 'Display'], ['parse', 'names'])
            dv = VSpec(ident='Other', kind=form, ftypes=['String'], default=True, ser=['identifier', 'id-2'][:nser])
            if form == 'named':
                dv.fnames, dv.fdw = ['inner'], [None]
            e.variants = others(n) + [dv]
            e.extra['shape'] = 'default+serialize%d/%s' % (nser, form)
    # default and transparent in one enum
    e = new(['EnumString', 'Display', 'AsRefStr'], ['parse', 'names'])
    e.variants = [VSpec(ident='Wrap', kind='tuple', ftypes=['String'], tr=True)] + others(n) + \
                 [VSpec(ident='Other', kind='named', ftypes=['String'], fnames=['inner'], fdw=[None], default=True)]
    e.extra['shape'] = 'default+transparent'

    # generic enums: the forwarding arms sit inside impls with the enum's parameters
    for j, e in enumerate(enums):
        if j % 3 == 1:
            e.generics = ['ty', 'ty_nd', 'const', 'where'][(j // 3) % 4]
            strcorpus.add_generic_field(e)
            e.extra['shape'] = e.extra.get('shape', '') + ' gen=' + e.generics
    info = strcorpus.query_model([e for e in enums if 'EnumString' in e.derives])
    grid = fmtgrid.spec_grid(tier)
    small = fmtgrid.spec_grid(tier, small=True)
    for e in enums:
        inf = info.get(e.id)
        c.add(e, in_domain=(inf['nooverlap'] if inf else True))
        has_default = any(v.default for v in e.variants)
        if inf and 'Display' in e.derives and has_default:
            for s, cls in strcorpus.parse_inputs(rng, e, inf, tier, max_full=4 if tier == 'quick' else 8):
                c.op(e.id, 'parse %s' % hx(s), 'capture:' + cls)
                c.op(e.id, 'reparse %s' % hx(s), 'roundtrip:' + cls)
            for s in INNER_TEXTS:
                c.op(e.id, 'reparse %s' % hx(s), 'roundtrip:text')
        for v in e.variants:
            fwd = (v.tr or (v.default and v.ts is None)) and not v.dis
            if not fwd:
                continue
            ty = v.ftypes[0]
            texts = INT_TEXTS.get(ty) or (INNER_ENUM_TEXTS if ty == 'Inner' else INNER_TEXTS)
            keys = ','.join(rustgen.name_keys(e))
            for t in texts:
                if v.tr:
                    c.op(e.id, 'names %s 3 %s %s' % (hx(v.ident), hx(t), keys), 'forward-names:' + ty)
                g = grid if t in texts[:3] else small
                for sp in g:
                    c.op(e.id, 'fwd %s 3 %s %s' % (hx(v.ident), hx(t), sp), 'forward-oracle:' + ty)
                    if ty in ('String', 'BoxStr', 'StaticStr', 'Inner'):
                        c.op(e.id, 'show %s 3 %s %s' % (hx(v.ident), hx(t), sp), 'forward-model:' + ty)
    return c


def run(tier, seed, rng):
    res = Result('C11', tier, seed)
    proof_stage(res, 'C11')
    c = generate(tier, rng)
    out = correspond(res, c, runner.Workspace('c11'), label='modeB')
    # oracle on the implementation: from_str(s)?.to_string() == s whenever the default variant was produced
    bad = 0
    for o, got, mod in zip(c.ops, out['impl'], out['model']):
        if got is None:
            continue
        if o.cls.startswith('roundtrip:') and got.startswith('ok '):
            ident, text = got.split(' ')[1], got.split(' ')[2]
            e = c.by_id[o.eid]
            dv = [v for v in e.variants if v.default and not v.dis]
            if dv and hx(dv[0].ident) == ident and dv[0].ts is None and text != o.line.split(' ')[3]:
                bad += 1
                res.violation({'kind': 'oracle', 'op': o.line, 'impl': got, 'enum': e.to_json(),
                               'what': 'E::from_str(s)?.to_string() != s for the default variant'})
        if o.cls.startswith('forward-oracle') and got != 'fwd-ok':
            bad += 1
            res.violation({'kind': 'oracle', 'op': o.line, 'impl': got, 'enum': c.by_id[o.eid].to_json(),
                           'what': 'forwarding variant formats differently from its inner value under the same spec'})
    res.cov['impl_vs_oracle_failures'] = bad
    table, distinct = distribution(c, out['model'])
    res.cov['input_distribution'] = table
    res.cov['distinct_nontrivial'] = len(distinct)
    res.cov['rule'] = ('default variants (tuple / single named field; String, Box<str>; with and without to_string; at 3 positions) and transparent variants '
                       "(String, Box<str>, &'static str, u32, i64, nested derived enum; tuple and named) next to ci / cs / disabled variants; inputs: C01's input set for capture and "
                       'from_str->to_string round trip, inner texts incl. empty/whitespace/multi-byte/braces, and a format-spec grid (fill x align x width x precision x 0-flag) '
                       'compared with the model (string-like inners) and with format!(spec, inner) computed in Rust (all inners); distinct = (enum shape, class, answer kind)')
    res.samples = [{'enum': c.especs[0].model_lines()}] + [{'op': o.line, 'class': o.cls, 'model': m} for o, m in list(zip(c.ops, out['model']))[:3]] + \
                  [{'op': o.line, 'class': o.cls, 'model': m} for o, m in list(zip(c.ops, out['model'])) if o.cls.startswith('forward')][:4]
    return res.finish()
