"""C06 — from_repr(d) is Some(V) iff d is the discriminant rustc gives enabled variant V."""
from ..core import Result, Corpus, proof_stage, correspond, distribution
from ..spec import hx
from .. import reprcorpus, runner


def generate(tier, rng):
    c = Corpus()
    k = 0
    placements = ['none', 'first', 'middle', 'last', 'adjacent', 'alternating']
    for repr_ in reprcorpus.REPRS:
        for n in ((0, 1, 4) if tier == 'quick' else (0, 1, 2, 4, 6)):
            lays = reprcorpus.layouts(repr_, n)
            for li, (lname, lay) in enumerate(lays.items()):
                for unit_only in (True, False):
                    if not unit_only and repr_ is None and lname != 'implicit':
                        continue  # rustc: explicit discriminants on data-carrying enums need a primitive repr
                    if n == 0 and (lname != 'implicit' or not unit_only):
                        continue
                    pls = placements if tier == 'thorough' else [placements[(k + j) % len(placements)] for j in range(2)]
                    for pl in pls:
                        if n == 0 and pl != 'none':
                            continue
                        if n == 0 and repr_ is not None:
                            continue  # rustc rejects a repr on a zero-variant enum
                        gen = ['ty', 'where', 'const', 'ty_nd'][(k // 3) % 4] if (not unit_only and k % 3 == 0) else ''
                        e = reprcorpus.make_enum('c06_%d' % k, 'EnC06x%d' % k, n, repr_, lname, lay, pl, unit_only,
                                                 ['FromRepr'], ['repr'], generics=gen)
                        k += 1
                        c.add(e)
                        vals = reprcorpus.discr_values(e.variants)
                        lo, hi = reprcorpus.RANGE[repr_ or 'usize']
                        if repr_ is None:
                            lo, hi = 0, 2 ** 64 - 1
                        probes = {0, lo, hi, 1}
                        for x in vals:
                            probes |= {x - 1, x, x + 1}
                        for _ in range(20 if tier == 'quick' else 2000):
                            probes.add(rng.randint(lo, hi))
                            if vals:
                                probes.add(rng.choice(vals) + rng.randint(-3, 3))
                        for x in sorted(p for p in probes if lo <= p <= hi):
                            cls = 'discr' if x in vals else ('neighbour' if (x - 1 in vals or x + 1 in vals) else 'other')
                            c.op(e.id, 'repr %d' % x, cls + '/' + pl)
                        if repr_ in ('u8', 'i8', 'u16', 'i16'):
                            c.op(e.id, 'reprall', 'exhaustive-%s' % repr_)
                        if n and (unit_only or repr_):
                            c.op(e.id, 'discrs', 'as-cast')
                        c.op(e.id, 'constfn', 'constfn')
    # the integer type next to other hints / in another #[repr] attribute (F8, F9): C + int needs a data-carrying enum
    # (rustc rejects the combination on a field-less one), align works everywhere
    HINTS = [([['C', 'u8']], 'u8', False), ([['u8', 'C']], 'u8', False), ([['C'], ['u8']], 'u8', False), ([['u8'], ['C']], 'u8', False),
             ([['i8', 'align(4)']], 'i8', None), ([['align(4)', 'i8']], 'i8', None), ([['i8'], ['align(4)']], 'i8', None),
             ([['align(4)'], ['i8']], 'i8', None), ([['C'], ['align(8)'], ['u16']], 'u16', False), ([['i16'], ['C'], ['align(2)']], 'i16', False),
             ([['align(2)'], ['align(8)']], None, None), ([['C']], None, None), ([['C'], ['align(4)']], None, None)]   # (a repeated integer hint is itself rejected by rustc: E0566)
    for attrs, int_ty, unit_req in HINTS:
        for unit_only in ((False,) if unit_req is False else (True, False)):
            lays = reprcorpus.layouts(int_ty, 4)
            names = ['implicit', 'gapped'] + (['negative'] if int_ty in ('i8', 'i16') else []) if (int_ty or unit_only) else ['implicit']
            for lname in names:
                if int_ty is None and not unit_only and lname != 'implicit':
                    continue
                pl = placements[k % len(placements)]
                e = reprcorpus.make_enum('c06h%d' % k, 'EnC06h%d' % k, 4, int_ty, lname, lays[lname], pl, unit_only, ['FromRepr'], ['repr'])
                e.extra['repr_attrs'] = attrs
                e.extra['shape'] = 'hints=%s layout=%s unit_only=%s' % ('/'.join('+'.join(a) for a in attrs), lname, unit_only)
                k += 1
                c.add(e)
                vals = reprcorpus.discr_values(e.variants)
                lo, hi = reprcorpus.RANGE[int_ty or 'usize']
                if int_ty is None:
                    lo, hi = 0, 2 ** 64 - 1
                probes = {0, lo, hi, 1}
                for x in vals:
                    probes |= {x - 1, x, x + 1}
                for x in sorted(p for p in probes if lo <= p <= hi):
                    c.op(e.id, 'repr %d' % x, ('discr' if x in vals else 'other') + '/multi-hint')
                if int_ty in ('u8', 'i8', 'u16', 'i16'):
                    c.op(e.id, 'reprall', 'exhaustive-%s/multi-hint' % int_ty)
                if unit_only or int_ty:
                    c.op(e.id, 'discrs', 'as-cast')
    from ..spec import ESpec, VSpec
    for j, idents in enumerate((['Mb', 'MB', 'Kb', 'KB', 'HttpOk', 'HTTPOk', 'Http_Ok'], ['Ok', 'Err', 'Some', 'None', 'Default', 'Option', 'Self_'])):
        e = ESpec(id='c06n%d' % j, name='EnC06n%d' % j, repr='u8', derives=['FromRepr'], feats=['repr'])
        e.variants = [VSpec(ident=x, discr=(10 if i == 2 else None), dis=(i == 4)) for i, x in enumerate(idents)]
        e.extra['shape'] = 'variant names equal up to case / named like prelude items'
        e.extra['no_noise'] = True
        c.add(e)
        c.op(e.id, 'reprall', 'exhaustive-u8/names')
        c.op(e.id, 'discrs', 'as-cast')
    # a repr written for the GENERATED discriminants enum must not leak into from_repr's parameter type
    for j, (own, dattr) in enumerate(((None, 'repr(u8)'), ('u8', 'repr(align(2))'), ('i16', 'repr(align(4))'))):
        lays = reprcorpus.layouts(own, 4)
        e = reprcorpus.make_enum('c06d%d' % j, 'EnC06d%d' % j, 4, own, 'gapped', lays['gapped'], 'middle', True, ['FromRepr', 'EnumDiscriminants'], ['repr'])
        e.extra['enum_attrs'] = ['#[strum_discriminants(%s)]' % dattr]
        e.extra['shape'] = 'with strum_discriminants(%s) own=%s' % (dattr, own)
        e.extra['no_noise'] = True
        c.add(e)
        for x in ((0, 1, 2, 11, 12, 255, 256, 257, 267, 65535) if own is None else (0, 1, 2, 11, 12, 127, 255)):
            c.op(e.id, 'repr %d' % x, 'disc-repr-leak')
        c.op(e.id, 'discrs', 'as-cast')
    return c


def run(tier, seed, rng):
    res = Result('C06', tier, seed)
    proof_stage(res, 'C06')
    c = generate(tier, rng)
    out = correspond(res, c, runner.Workspace('c06'), label='modeB')
    # oracle on the implementation: from_repr(v as R) == Some(v) for enabled v, None for disabled; computed from the `as` casts
    bad = 0
    byenum = {}
    for o, got in zip(c.ops, out['impl']):
        if got is None:
            continue
        byenum.setdefault(o.eid, []).append((o, got))
    for eid, items in byenum.items():
        e = c.by_id[eid]
        casts = [g for o, g in items if o.line.endswith(' discrs')]
        if not casts:
            continue
        vals = [int(x) for x in casts[0].split(' ')[1:]]
        want = {}
        for v, x in zip(e.variants, vals):
            if not v.dis:
                want[x] = hx(v.ident)
        for o, g in items:
            t = o.line.split(' ')
            if t[2] != 'repr':
                continue
            x = int(t[3])
            exp = want.get(x)
            gotid = g.split(' ')[1].split(':')[0] if g.startswith('some ') else None
            if exp != gotid:
                bad += 1
                if bad <= 3:
                    res.violation({'kind': 'oracle', 'op': o.line, 'impl': g, 'casts': casts[0], 'enum': e.to_json(),
                                   'what': 'from_repr disagrees with the `as` cast of the variants'})
    res.cov['impl_vs_oracle_failures'] = bad
    table, distinct = distribution(c, out['model'])
    res.cov['input_distribution'] = table
    res.cov['distinct_nontrivial'] = len(distinct)
    res.cov['exhaustive'] = True
    res.cov['rule'] = ('repr in {none,u8,i8,u16,i16,u32,i32,u64,i64,usize,isize} x discriminant layouts (implicit, first explicit, gapped, descending, negative, MIN first, MAX last, '
                       'expression-valued `1 << 3` / `-5 + 2` / named const) x disabled placement x unit-only / mixed kinds x type parameter; inputs: EVERY value for 8/16-bit reprs (reprall), '
                       'and every discriminant +-1, 0, 1, MIN, MAX, random values for all; `v as R` (or the tag read through a pointer for data-carrying repr enums) cross-checks the reference rule; '
                       'a const item checks const-ness; distinct = (enum shape, input class, answer kind)')
    res.samples = [{'enum': c.especs[30].model_lines()}] + [{'op': o.line, 'class': o.cls, 'model': m[:200]} for o, m in list(zip(c.ops, out['model'])) if o.eid == c.especs[30].id][:8]
    return res.finish()
