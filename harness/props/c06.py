"""C06 — from_repr(d) is Some(V) iff d is the discriminant rustc gives enabled variant V."""
from ..core import Result, Corpus, proof_stage, correspond, distribution
from ..spec import hx
from .. import reprcorpus, runner


def generate(tier, rng):
    c = Corpus()
    k = 0
    placements = ['none', 'first', 'middle', 'last', 'adjacent', 'alternating']
    for repr_ in reprcorpus.REPRS:
        for n in ((0, 1, 4) if tier == 'quick' else (0, 1, 2, 4, 6)):
            lays = reprcorpus.layouts(repr_, n)
            for li, (lname, lay) in enumerate(lays.items()):
                for unit_only in (True, False):
                    if not unit_only and repr_ is None and lname != 'implicit':
                        continue  # rustc: explicit discriminants on data-carrying enums need a primitive repr
                    if n == 0 and (lname != 'implicit' or not unit_only):
                        continue
                    pls = placements if tier == 'thorough' else [placements[(k + j) % len(placements)] for j in range(2)]
                    for pl in pls:
                        if n == 0 and pl != 'none':
                            continue
                        if n == 0 and repr_ is not None:
                            continue  # rustc rejects a repr on a zero-variant enum
                        gen = 'ty' if (not unit_only and k % 3 == 0) else ''
                        e = reprcorpus.make_enum('c06_%d' % k, 'EnC06x%d' % k, n, repr_, lname, lay, pl, unit_only,
                                                 ['FromRepr'], ['repr'], generics=gen)
                        k += 1
                        c.add(e)
                        vals = reprcorpus.discr_values(e.variants)
                        lo, hi = reprcorpus.RANGE[repr_ or 'usize']
                        if repr_ is None:
                            lo, hi = 0, 2 ** 64 - 1
                        probes = {0, lo, hi, 1}
                        for x in vals:
                            probes |= {x - 1, x, x + 1}
                        for _ in range(20 if tier == 'quick' else 2000):
                            probes.add(rng.randint(lo, hi))
                            if vals:
                                probes.add(rng.choice(vals) + rng.randint(-3, 3))
                        for x in sorted(p for p in probes if lo <= p <= hi):
                            cls = 'discr' if x in vals else ('neighbour' if (x - 1 in vals or x + 1 in vals) else 'other')
                            c.op(e.id, 'repr %d' % x, cls + '/' + pl)
                        if repr_ in ('u8', 'i8', 'u16', 'i16'):
                            c.op(e.id, 'reprall', 'exhaustive-%s' % repr_)
                        if n and (unit_only or repr_):
                            c.op(e.id, 'discrs', 'as-cast')
                        c.op(e.id, 'constfn', 'constfn')
    return c


def run(tier, seed, rng):
    res = Result('C06', tier, seed)
    proof_stage(res, 'C06')
    c = generate(tier, rng)
    out = correspond(res, c, runner.Workspace('c06'), label='modeB')
    # oracle on the implementation: from_repr(v as R) == Some(v) for enabled v, None for disabled; computed from the `as` casts
    bad = 0
    byenum = {}
    for o, got in zip(c.ops, out['impl']):
        if got is None:
            continue
        byenum.setdefault(o.eid, []).append((o, got))
    for eid, items in byenum.items():
        e = c.by_id[eid]
        casts = [g for o, g in items if o.line.endswith(' discrs')]
        if not casts:
            continue
        vals = [int(x) for x in casts[0].split(' ')[1:]]
        want = {}
        for v, x in zip(e.variants, vals):
            if not v.dis:
                want[x] = hx(v.ident)
        for o, g in items:
            t = o.line.split(' ')
            if t[2] != 'repr':
                continue
            x = int(t[3])
            exp = want.get(x)
            gotid = g.split(' ')[1].split(':')[0] if g.startswith('some ') else None
            if exp != gotid:
                bad += 1
                if bad <= 3:
                    res.violation({'kind': 'oracle', 'op': o.line, 'impl': g, 'casts': casts[0], 'enum': e.to_json(),
                                   'what': 'from_repr disagrees with the `as` cast of the variants'})
    res.cov['impl_vs_oracle_failures'] = bad
    table, distinct = distribution(c, out['model'])
    res.cov['input_distribution'] = table
    res.cov['distinct_nontrivial'] = len(distinct)
    res.cov['exhaustive'] = True
    res.cov['rule'] = ('repr in {none,u8,i8,u16,i16,u32,i32,u64,i64,usize,isize} x discriminant layouts (implicit, first explicit, gapped, descending, negative, MIN first, MAX last, '
                       'expression-valued `1 << 3` / `-5 + 2` / named const) x disabled placement x unit-only / mixed kinds x type parameter; inputs: EVERY value for 8/16-bit reprs (reprall), '
                       'and every discriminant +-1, 0, 1, MIN, MAX, random values for all; `v as R` (or the tag read through a pointer for data-carrying repr enums) cross-checks the reference rule; '
                       'a const item checks const-ness; distinct = (enum shape, input class, answer kind)')
    res.samples = [{'enum': c.especs[30].model_lines()}] + [{'op': o.line, 'class': o.cls, 'model': m[:200]} for o, m in list(zip(c.ops, out['model'])) if o.eid == c.especs[30].id][:8]
    return res.finish()
