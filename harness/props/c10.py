"""C10 — EnumTable is a total map from enabled variants to values."""
import itertools
from ..core import Result, Corpus, proof_stage, correspond, distribution
from ..spec import ESpec, VSpec, hx
from .. import runner, itercorpus

IDENTS = ['Red', 'HTTPServer', 'Foo2Bar', 'A1', 'Hello2You', 'IOError', 'Utf8', 'Plain', 'V2Beta3', 'Task', 'Kind9', 'R2D2']


def generate(tier, rng):
    c = Corpus()
    k = 0
    maxn = 4 if tier == 'quick' else 6
    for n in range(1, 9):
        for pl in ('none', 'first', 'middle', 'last', 'adjacent', 'alternating'):
            total = n + {'none': 0, 'first': 1, 'middle': 1, 'last': 1, 'adjacent': 2, 'alternating': n}[pl]
            if tier == 'quick' and n > 5 and pl not in ('none', 'alternating'):
                continue
            e = ESpec(id='c10_%d' % k, name='EnC10x%d' % k, derives=['EnumTable'], feats=['table'])
            e.extra['base_derives'] = ('Debug', 'PartialEq', 'Clone', 'Copy')
            placed = 0
            for i in range(total):
                ident = IDENTS[(i + k) % len(IDENTS)] + ('' if i < len(IDENTS) else str(i))
                v = VSpec(ident=ident + 'abcdefghijklmnopq'[i % 17].upper())
                if k % 4 == 1:
                    v.discr = 100 - 7 * i   # declaration order is the table's order, whatever the discriminants say
                elif k % 4 == 3 and i % 2 == 0:
                    v.discr = [40, 3, 22, 1, 60][(i // 2) % 5] + i
                if pl == 'first':
                    v.dis = i == 0
                elif pl == 'last':
                    v.dis = i == total - 1
                elif pl == 'middle':
                    v.dis = i == total // 2
                elif pl == 'adjacent':
                    v.dis = i in (total // 2, total // 2 + 1) if total > 2 else i == 0
                elif pl == 'alternating':
                    v.dis = i % 2 == 1
                e.variants.append(v)
            en = [v for v in e.variants if not v.dis]
            if not en:
                continue
            e.extra['shape'] = 'enabled=%d placement=%s' % (len(en), pl)
            k += 1
            c.add(e)
            keys = [hx(v.ident) for v in en]
            dis = [hx(v.ident) for v in e.variants if v.dis]
            N = len(en)
            # constructors, each followed by a full dump (pairwise distinct values make swapped slots visible)
            for ctor in ('new', 'filled:7', 'closure', 'new transform', 'closure transform transform'):
                c.op(e.id, 'table %s dump %s' % (ctor, ' '.join('get:%s' % x for x in keys)), 'constructor')
            # all write/read sequences up to the bound over all keys and values {0,1,2}
            if N <= maxn:
                L = 3 if (tier == 'quick' or N > 4) else 4
                alphabet = ['set:%s:%d' % (x, val) for x in keys for val in (1, 2)] + ['get:%s' % x for x in keys]
                for seq in itertools.product(alphabet, repeat=L):
                    if not any(s.startswith('set') for s in seq[:-1]):
                        continue
                    c.op(e.id, 'table new %s dump' % ' '.join(seq), 'exhaustive-writes-%d' % L)
            # random long sequences
            for _ in range(20 if tier == 'quick' else 400):
                seq = []
                for _ in range(40):
                    r = rng.random()
                    x = rng.choice(keys)
                    if r < 0.5:
                        seq.append('set:%s:%d' % (x, rng.randint(-5, 5)))
                    elif r < 0.85:
                        seq.append('get:%s' % x)
                    elif r < 0.9:
                        seq.append('transform')
                    elif r < 0.95:
                        seq.append('filled:%d' % rng.randint(0, 9))
                    else:
                        seq.append('dump')
                c.op(e.id, 'table closure %s dump' % ' '.join(seq), 'random-40')
            # all(): every subset mask for small N, else sampled; all_ok(): first Err in declaration order
            masks = [''.join(m) for m in itertools.product('01', repeat=N)] if N <= 5 else \
                    [''.join(rng.choice('01') for _ in range(N)) for _ in range(24)] + ['1' * N, '0' * N]
            for m in masks:
                c.op(e.id, 'table closure all:%s allok:%s' % (m, m), 'all/all_ok')
            # a disabled variant used as an index panics
            for x in dis:
                c.op(e.id, 'table new get:%s' % x, 'disabled-index')
                c.op(e.id, 'table new set:%s:1' % x, 'disabled-index-mut')
    # identifiers whose snake names differ only by an underscore before a digit run, acronyms, digits: one distinct
    # field per enabled variant (names asked from the model; a naming difference is a compile error in that enum)
    from .. import leanside
    from ..spec import unhx
    extra = []
    for idents in (['V1', 'V_1', 'V12'], ['Http2', 'Http_2', 'Http22'], ['A1b2', 'A_1b2', 'A1_b2'], ['Utf8', 'Utf16', 'Utf_8'], ['Rgb8To16', 'Rgb8to16', 'Rgb_8To16'],
                   ['Utf8', '!UTF8', 'Plain'], ['!Ab', 'AB', 'Cd'], ['V1', 'Mid', '!V_1']):
        e = ESpec(id='c10_%d' % k, name='EnC10x%d' % k, derives=['EnumTable'], feats=['table'])
        e.extra['base_derives'] = ('Debug', 'PartialEq', 'Clone', 'Copy')
        # `!X`: a DISABLED variant whose snake name equals an enabled one's (legal: only enabled variants own a field)
        e.variants = [VSpec(ident=i.lstrip('!'), dis=i.startswith('!')) for i in idents]
        e.extra['shape'] = 'near-colliding-snake-names'
        k += 1
        extra.append(e)
    lines = []
    for e in extra:
        lines += e.model_lines()
    lines += ['op %s tablefields' % e.id for e in extra]
    for e, o in zip(extra, leanside.run_driver(lines)):
        if o.startswith('CE:'):
            continue  # the model says two snake names coincide: rustc rejects the struct (duplicate field); not a domain enum
        e.extra['table_fields'] = [unhx(t).decode() for t in o.split(' ') if t.startswith('x')]
        c.add(e)
        keys = [hx(v.ident) for v in e.variants if not v.dis]
        for v in e.variants:
            if v.dis:
                c.op(e.id, 'table new get:%s' % hx(v.ident), 'disabled-index')
                c.op(e.id, 'table new set:%s:1' % hx(v.ident), 'disabled-index-mut')
        c.op(e.id, 'tablefields', 'field-names')
        c.op(e.id, 'table closure dump %s' % ' '.join('get:%s' % x for x in keys), 'constructor')
        c.op(e.id, 'table new %s dump' % ' '.join('set:%s:%d' % (x, i + 1) for i, x in enumerate(keys)), 'exhaustive-writes-3')
    return c


def run(tier, seed, rng):
    res = Result('C10', tier, seed)
    proof_stage(res, 'C10')
    c = generate(tier, rng)
    out = correspond(res, c, runner.Workspace('c10'), label='modeB')
    bad = 0
    for o, got in zip(c.ops, out['impl']):
        if got is None:
            continue
        if o.cls.startswith('disabled-index') and got != 'PANIC':
            bad += 1
            res.violation({'kind': 'oracle', 'op': o.line, 'impl': got, 'enum': c.by_id[o.eid].to_json(), 'what': 'indexing with a disabled variant did not panic'})
    res.cov['impl_vs_oracle_failures'] = bad
    table, distinct = distribution(c, out['model'])
    res.cov['input_distribution'] = table
    res.cov['distinct_nontrivial'] = sum(1 for o in c.ops)  # every op line is a distinct history
    res.cov['exhaustive'] = True
    res.cov['rule'] = ('field-less enums with 1..8 enabled variants x disabled placement {none, first, middle, last, adjacent, alternating}, identifiers with digits / acronyms; constructors new / filled / from_closure / transform '
                       'with pairwise distinct values followed by a dump; ALL write/read sequences of length 3 (quick, thorough N>4) / 4 (thorough N<=4) over all keys and values {1,2} for N <= 4 (quick) / 6 (thorough); '
                       'random 40-op histories incl. transform / filled; all() over every subset mask (N <= 5) and all_ok() with distinct Err values; disabled variants as index; every history is distinct')
    res.samples = [{'enum': c.especs[3].model_lines()}] + [{'op': o.line[:300], 'class': o.cls, 'model': m[:200]} for o, m in list(zip(c.ops, out['model'])) if o.eid == c.especs[3].id][:5]
    return res.finish()
