"""C02 — printing a variant and parsing the result returns the same variant."""
from ..core import Result, Corpus, proof_stage, correspond, distribution
from ..spec import hx
from .. import namecorpus, strcorpus, runner, rustgen


def generate(tier, rng):
    derives = ['EnumString', 'Display', 'AsRefStr', 'IntoStaticStr', 'EnumMessage']
    enums = namecorpus.build_enums(rng, tier, 'C02', derives, ['parse', 'names', 'roundtrip'], prefixes=[None],
                                   generics_pool=('', 'ty', '', 'const', 'ty_nd'), passes=4 if tier == 'quick' else 18)
    # case-insensitivity at both levels (eq_ignore_ascii_case is reflexive: the printed name must still parse)
    for i, e in enumerate(enums):
        e.ci = i % 3 == 1
        for k, v in enumerate(e.variants):
            v.ci = [None, True, False][(i + k) % 3]
    enums += strcorpus.build_soup(rng, tier, 'C02', derives=derives, feats=['parse', 'names', 'roundtrip'], n=30 if tier == 'quick' else 300)
    enums += strcorpus.shadowed_by_disabled('C02', derives, ['parse', 'names', 'roundtrip'])
    info = strcorpus.query_model(enums)
    c = Corpus()
    for e in enums:
        c.add(e, in_domain=info[e.id]['nooverlap'])
        for v in e.variants:
            if v.dis or v.default or v.tr:
                continue
            keys = ','.join(rustgen.name_keys(e, roundtrip=True, v=v))
            c.op(e.id, 'roundtrip %s %s' % (hx(v.ident), keys), namecorpus.naming_class(v) + '/' + v.kind + '/ci=%s' % v.ci)
    return c


def run(tier, seed, rng):
    res = Result('C02', tier, seed)
    proof_stage(res, 'C02')
    c = generate(tier, rng)
    out = correspond(res, c, runner.Workspace('c02'), label='modeB')
    # the property itself, on the implementation's answers: every key must parse back to the same variant
    bad = 0
    for o, got in zip(c.ops, out['impl']):
        if got is None or not c.by_id[o.eid].extra.get('in_domain'):
            continue
        ident = o.line.split(' ')[3]
        for kv in got.split(' '):
            k, _, val = kv.partition('=')
            if not val.startswith('ok:' + ident):
                bad += 1
                res.violation({'kind': 'roundtrip_failed', 'op': o.line, 'impl': got, 'enum': c.by_id[o.eid].to_json(),
                               'what': 'printed name does not parse back to the same variant (%s)' % kv})
                break
    res.cov['impl_vs_oracle_failures'] = bad
    table, distinct = distribution(c, out['model'])
    res.cov['input_distribution'] = table
    res.cov['distinct_nontrivial'] = len(distinct)
    res.cov['rule'] = ('kinds x naming layouts x 17 style strings x enum/variant ascii_case_insensitive x const_into_str x generics, no prefix, '
                       'non-overlapping spellings (model-decided); per enabled variant: Display, to_string, AsRefStr, IntoStaticStr (by value, by ref, into_str) '
                       'and every get_serializations() entry parsed back; distinct = (enum shape, naming class/kind/ci, answer)')
    res.samples = [{'enum': c.especs[0].model_lines()}] + [{'op': o.line, 'class': o.cls, 'model': m} for o, m in list(zip(c.ops, out['model']))[:5]]
    return res.finish()
