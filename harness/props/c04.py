"""C04 — EnumIter yields every enabled variant exactly once, in declaration order."""
from ..core import Result, Corpus, proof_stage, correspond, distribution
from .. import itercorpus, runner


def generate(tier, rng):
    c = Corpus()
    k = 0
    maxn = 12
    gens = ['', 'ty', 'const', 'where', 'ty_nd']
    for n in range(0, maxn + 1):
        for pl in itercorpus.PLACEMENTS:
            if n == 0 and pl != 'none':
                continue
            if tier == 'quick' and n > 6 and pl not in ('none', 'alternating', 'adjacent', 'all'):
                continue
            e = itercorpus.make_enum('c04_%d' % k, 'EnC04x%d' % k, n, pl, generics=gens[k % len(gens)] if n > 0 else '',
                                     derives=['EnumIter', 'EnumCount'], feats=['iter', 'count'])
            k += 1
            c.add(e)
            c.op(e.id, 'collect', 'collect/' + pl)
            c.op(e.id, 'rev', 'rev/' + pl)
            c.op(e.id, 'count', 'count/' + pl)
    from .. import strcorpus
    e = strcorpus.clash_enum('C04', ['EnumIter', 'EnumCount'], ['iter', 'count'], kinds=(('unit', []), ('tuple', ['u8']), ('named', ['i32'])))
    c.add(e)
    for op in ('collect', 'rev', 'count'):
        c.op(e.id, op, op + '/clash')
    e = itercorpus.make_enum('c04raw', 'r#type', 4, 'middle', derives=['EnumIter', 'EnumCount'], feats=['iter', 'count'])
    e.extra['no_noise'] = True
    e.extra['shape'] = 'enum named by a raw identifier'
    c.add(e)
    for op in ('collect', 'rev', 'count'):
        c.op(e.id, op, op + '/raw-name')
    # one large enum (more variants than a u8 can count)
    e = itercorpus.make_enum('c04big', 'EnC04big', 300, 'alternating', derives=['EnumIter', 'EnumCount'], feats=['iter', 'count'])
    c.add(e)
    for op in ('collect', 'rev', 'count'):
        c.op(e.id, op, op + '/big')
    # exactly 2^8 enabled variants (and one less / one more): the count itself must fit wherever a cursor is kept
    for n in (255, 256, 257):
        e = itercorpus.make_enum('c04n%d' % n, 'EnC04n%d' % n, n, 'none', unit_only=True, derives=['EnumIter', 'EnumCount'], feats=['iter', 'count'])
        e.extra['no_noise'] = True
        c.add(e)
        for op in ('collect', 'rev', 'count'):
            c.op(e.id, op, op + '/n=%d' % n)
    return c


def run(tier, seed, rng):
    res = Result('C04', tier, seed)
    proof_stage(res, 'C04')
    c = generate(tier, rng)
    out = correspond(res, c, runner.Workspace('c04'), label='modeB')
    # oracle on the implementation: items == enabled variants in order, rev == reverse, COUNT == length
    bad = 0
    imp = out['impl']
    for k in range(0, len(c.ops), 3):
        e = c.by_id[c.ops[k].eid]
        if imp[k] is None:
            continue
        exp = [v for v in e.variants if not v.dis]
        col, rev, cnt = imp[k].split(' '), imp[k + 1].split(' '), imp[k + 2]
        from ..spec import hx
        ok = (col[0] == 'n=%d' % len(exp) and [t.split(':')[0] for t in col[1:]] == [hx(v.ident) for v in exp]
              and all(set(t.split(':')[1:]) <= {'D'} for t in col[1:])
              and rev[1:] == col[1:][::-1] and cnt == 'count=%d' % len(exp))
        if not ok:
            bad += 1
            res.violation({'kind': 'oracle', 'enum': e.to_json(), 'impl': [imp[k], imp[k + 1], imp[k + 2]],
                           'what': 'iteration is not the enabled variants in declaration order with default payloads / rev / COUNT'})
    res.cov['impl_vs_oracle_failures'] = bad
    table, distinct = distribution(c, out['model'])
    res.cov['input_distribution'] = table
    res.cov['distinct_nontrivial'] = len(distinct)
    res.cov['exhaustive'] = False
    res.cov['rule'] = ('enums of 0..12 variants cycling through unit / tuple / named kinds, type / const generics and where clauses, disabled placement in '
                       '{none, first, middle, last, adjacent, alternating, first+last, all}; observables iter().collect(), iter().rev().collect(), COUNT; '
                       'distinct = (n, placement, generics) x observable')
    res.samples = [{'enum': c.especs[9].model_lines()}] + [{'op': o.line, 'class': o.cls, 'model': m} for o, m in list(zip(c.ops, out['model']))[27:30]]
    return res.finish()
