"""C13 — EnumIs predicates partition the variants; EnumTryAs returns payloads unchanged."""
import itertools
from ..core import Result, Corpus, proof_stage, correspond, distribution
from ..spec import ESpec, VSpec, hx, unhx
from .. import runner, leanside, modea
from ..strcorpus import FIELD_NAMES
from .c07 import all_idents, DICT, RUST_KEYWORDS

IDENTS = ['Red', 'HTTPServer', 'Foo2Bar', 'A1', 'Hello2You', 'XMLHttpRequest', 'IOError', 'Utf8', 'B2B', 'Plain', 'Mixed_Case_9', 'V2Beta3', 'Ab_cD', 'Task',
          'Kind9', 'x9', 'Foo_1', 'R2D2', 'Abc123Def', 'NaN', '_2D', '_1', '_3dPoint']
TUPLES = [[], ['u8'], ['u8', 'String'], ['bool', 'i32', 'String'], ['Host', 'u16'], ['String', 'OptU8', 'u32']]
OTHER_KINDS = [('unit', []), ('named', ['i32']), ('named', ['u8', 'String']), ('named', [])]


def generate(tier, rng):
    enums = []
    k = 0
    n_enums = 12 if tier == 'quick' else 60
    for k in range(n_enums):
        gen = ['', 'ty', 'lt', '', 'where'][k % 5]
        e = ESpec(id='c13_%d' % k, name='EnC13x%d' % k, derives=['EnumIs', 'EnumTryAs'], feats=['is', 'tryas', 'absent'], generics=gen)
        nvar = 3 + k % 5
        used = set()
        for i in range(nvar):
            ident = IDENTS[(k * 3 + i * 7) % len(IDENTS)]
            while ident.lower().replace('_', '') in used:
                ident = ident + 'Z'
            used.add(ident.lower().replace('_', ''))
            if (i + k) % 3 == 0:
                kind, ft = OTHER_KINDS[(i + k) % len(OTHER_KINDS)]
                v = VSpec(ident=ident, kind=kind, ftypes=list(ft))
                if kind == 'named':
                    v.fnames, v.fdw = FIELD_NAMES[:len(ft)], [None] * len(ft)
            else:
                v = VSpec(ident=ident, kind='tuple', ftypes=list(TUPLES[(i + k) % len(TUPLES)]))
            v.dis = (i == nvar - 1 and k % 2 == 1)
            e.variants.append(v)
        if gen in ('ty', 'where'):
            tv = [v for v in e.variants if v.kind == 'tuple' and v.ftypes]
            if tv:
                tv[0].ftypes[0] = 'T'
            else:
                e.generics = ''
        elif gen == 'lt':
            e.variants.append(VSpec(ident='Borrowed', kind='tuple', ftypes=['RefStr', 'u8']))
        e.extra['shape'] = 'n=%d gen=%s' % (nvar, e.generics)
        enums.append(e)
    # tiny enums: one enabled variant alone, with one or two disabled ones (before / after), two enabled, zero-field tuple
    for j, shape in enumerate([('E',), ('E', 'D'), ('D', 'E'), ('D', 'E', 'D'), ('E', 'E'), ('D', 'D', 'E'), ('E', 'D', 'D')]):
        for kind in ('unit', 'tuple1', 'tuple0', 'named'):
            e = ESpec(id='c13t%d%s' % (j, kind), name='EnC13t%d%s' % (j, kind), derives=['EnumIs', 'EnumTryAs'], feats=['is', 'tryas', 'absent'])
            for i, s in enumerate(shape):
                if kind == 'unit' or (s == 'D' and i % 2):
                    v = VSpec(ident='Tiny%d' % i)
                elif kind == 'tuple1':
                    v = VSpec(ident='Tiny%d' % i, kind='tuple', ftypes=['u8'])
                elif kind == 'tuple0':
                    v = VSpec(ident='Tiny%d' % i, kind='tuple', ftypes=[])
                else:
                    v = VSpec(ident='Tiny%d' % i, kind='named', ftypes=['u8'], fnames=['alpha'], fdw=[None])
                v.dis = (s == 'D')
                e.variants.append(v)
            e.extra['shape'] = 'tiny %s %s' % (''.join(shape), kind)
            enums.append(e)
    # a DISABLED variant whose snake name equals an enabled variant's: it has no method, and the enabled one's is false for it
    for j, idents in enumerate((['HttpServer', '!HTTPServer', 'Plain'], ['!UnixSocket', 'UNIXSocket', 'Tail'], ['V1', 'Mid', '!V_1'])):
        for kind in ('unit', 'tuple1'):
            e = ESpec(id='c13c%d%s' % (j, kind), name='EnC13c%d%s' % (j, kind), derives=['EnumIs', 'EnumTryAs'], feats=['is', 'tryas', 'absent'])
            for i in idents:
                v = VSpec(ident=i.lstrip('!'), dis=i.startswith('!')) if kind == 'unit' else VSpec(ident=i.lstrip('!'), dis=i.startswith('!'), kind='tuple', ftypes=['u8'])
                e.variants.append(v)
            e.extra['shape'] = 'disabled variant with the snake name of an enabled one (%s)' % kind
            e.extra['no_noise'] = True
            enums.append(e)
    # POPULAR variant names on a Copy, field-less, iterable enum whose module imports the derives BY NAME (as users do: the
    # import brings in anything else the runtime crate exports under those names): the predicates keep meaning "is this variant"
    for j, idents in enumerate((['First', 'Last', 'Empty', 'Nothing'], ['Some', 'None', 'Ok', 'Err'], ['Next', 'Count', 'Len', 'Default', 'Iter'])):
        e = ESpec(id='c13pop%d' % j, name='EnC13pop%d' % j, derives=['EnumIs', 'EnumTryAs', 'EnumIter', 'EnumCount', 'VariantNames', 'VariantArray'],
                  feats=['is', 'tryas', 'absent'])
        e.variants = [VSpec(ident=i) for i in idents]
        e.extra['base_derives'] = ('Debug', 'PartialEq', 'Clone', 'Copy', 'Eq', 'Hash')
        e.extra['import_derives_by_name'] = True
        e.extra['shape'] = 'popular variant names, derives imported by name'
        e.extra['no_noise'] = True
        enums.append(e)
    e = ESpec(id='c13wide', name='EnC13wide', derives=['EnumIs', 'EnumTryAs'], feats=['is', 'tryas', 'absent'])
    e.variants = [VSpec(ident='Wide', kind='tuple', ftypes=['u8'] * 30), VSpec(ident='Narrow', kind='tuple', ftypes=['u8', 'u16']), VSpec(ident='Unit')]
    e.extra['shape'] = 'tuple variant with 30 fields'
    e.extra['no_noise'] = True
    enums.append(e)
    # the model tells the harness which methods exist and what they are called
    lines = []
    for e in enums:
        lines += e.model_lines()
    q = []
    for e in enums:
        for op in ('ismethods', 'tryasmethods', 'absent'):
            lines.append('op %s %s' % (e.id, op))
            q.append((e, op))
    out = leanside.run_driver(lines)
    for (e, op), o in zip(q, out):
        toks = [t for t in o.split(' ') if t]
        if op == 'ismethods':
            e.extra['is_methods'] = [(unhx(t.split(':')[0]).decode(), unhx(t.split(':')[1]).decode()) for t in toks]
        elif op == 'tryasmethods':
            e.extra['tryas_methods'] = [(unhx(t.split(':')[0]).decode(), unhx(t.split(':')[1]).decode(), int(t.split(':')[2])) for t in toks]
        else:
            e.extra['absent_methods'] = [unhx(t.split('=')[0]).decode() for t in toks]
    c = Corpus()
    for e in enums:
        c.add(e)
        for v in e.variants:
            c.op(e.id, 'is %s' % hx(v.ident), 'is/%s/dis=%d' % (v.kind, v.dis))
            for alt in (1, 2, 0):
                c.op(e.id, 'tryas %s %d' % (hx(v.ident), alt), 'tryas/%s/%d-fields' % (v.kind, len(v.ftypes)))
        c.op(e.id, 'absent', 'absent-methods')
    return c


def run(tier, seed, rng):
    res = Result('C13', tier, seed)
    proof_stage(res, 'C13')
    # mode A: snakify on the exhaustive identifier set
    ok, err, wall, binp = modea.build()
    if not ok:
        raise RuntimeError('mode A build failed:\n' + err)
    maxlen = 5 if tier == 'quick' else 7
    idents = list(all_idents(maxlen)) + DICT + IDENTS
    lines = ['snakify %s' % hx(s) for s in idents]
    mout = leanside.run_driver(lines)
    iout = modea.run(binp, lines)
    nbad = 0
    for l, m, i in zip(lines, mout, iout):
        if m != i:
            nbad += 1
            if nbad <= 3:
                res.violation({'kind': 'disagreement', 'label': 'modeA', 'op': l, 'model': m, 'impl': i, 'what': 'snakify differs from the model'})
    # identifiers with non-ASCII letters are outside the Lean model (heck's Unicode tables are not modelled): a TEST, not a
    # proof - the crate's snakify against a char-based reference written here + the external heck crate
    NONASCII = ['Über2', 'Café2', 'naïveBar', 'Straße2Go', 'Ünï9x', 'CaféLatte', 'Ωmega3', 'Жук7', 'x9é', 'É2É', 'aé1b2', '日本2語']
    l2 = ['snakify %s' % hx(s) for s in NONASCII] + ['snakifyref %s' % hx(s) for s in NONASCII]
    o2 = modea.run(binp, l2)
    nb2 = 0
    for s, got, ref in zip(NONASCII, o2[:len(NONASCII)], o2[len(NONASCII):]):
        if got != ref:
            nb2 += 1
            if nb2 <= 2:
                res.violation({'kind': 'disagreement', 'label': 'modeA-nonascii', 'op': 'snakify %s' % hx(s), 'identifier': s, 'model': ref, 'impl': got,
                               'what': 'snakify on a non-ASCII identifier differs from the char-based reference (outside the Lean model: differential test)'})
    res.cov['modeA'] = {'identifiers': len(idents), 'max_len': maxlen, 'disagreements': nbad,
                        'nonascii_identifiers_tested_outside_model': len(NONASCII), 'nonascii_disagreements': nb2}
    c = generate(tier, rng)
    out = correspond(res, c, runner.Workspace('c13'), label='modeB')
    # oracle: exactly one is_* is true for an enabled variant, none for a disabled one
    bad = 0
    for o, got in zip(c.ops, out['impl']):
        if got is None or not o.cls.startswith('is/'):
            continue
        dis = o.cls.endswith('dis=1')
        names = [] if got == 'true=-' else got[5:].split(',')
        if (dis and names) or (not dis and len(names) != 1):
            bad += 1
            res.violation({'kind': 'oracle', 'op': o.line, 'impl': got, 'enum': c.by_id[o.eid].to_json(), 'what': 'is_* predicates do not partition the variants'})
    res.cov['impl_vs_oracle_failures'] = bad
    table, distinct = distribution(c, out['model'])
    res.cov['input_distribution'] = table
    res.cov['distinct_nontrivial'] = len(set((d[0], d[1]) for d in distinct))
    res.cov['evaluations'] = res.cov.get('evaluations', 0) + len(lines)
    res.cov['rule'] = ('mode A: snakify on EVERY valid identifier over {a,b,A,B,0,_} up to the length bound + dictionary; mode B: enums of 3-7 variants, unit / named / tuple with 0..3 fields of pairwise distinct types, '
                       'type / lifetime generics and where clauses, identifiers with digits and acronyms, disabled variants; EVERY variant value against EVERY generated is_* and try_as_* / _ref / _mut '
                       '(write through the mutable references, then re-read); the method names called are the ones the model computes; methods that must not exist (disabled, non-tuple) are probed through a '
                       'fallback trait; distinct = (enum shape, op class)')
    res.samples = [{'enum': c.especs[1].model_lines(), 'is_methods': c.especs[1].extra['is_methods']}] + \
                  [{'op': o.line, 'class': o.cls, 'model': m} for o, m in list(zip(c.ops, out['model']))[20:24]]
    return res.finish()
