"""C05 — the derived iterator obeys the double-ended, exact-size, fused iterator contract."""
import itertools
from ..core import Result, Corpus, proof_stage, correspond, distribution
from .. import itercorpus, runner

MAXU = 2 ** 64 - 1


def alphabet(N, slot=0, full=True):
    ks = list(range(0, N + 2)) + [MAXU - 1, MAXU]
    a = ['next:%d' % slot, 'back:%d' % slot, 'len:%d' % slot]
    a += ['nth:%d:%d' % (slot, k) for k in ks]
    a += ['nthback:%d:%d' % (slot, k) for k in ks]
    return a


def reference(N, toks):
    """plain-Python deque reference for one slot family (the in-harness oracle)"""
    slots = [list(range(N))]
    out = []
    for t in toks:
        p = t.split(':')
        name, s = p[0], int(p[1])
        n = int(p[2]) if len(p) > 2 else 0
        l = slots[s]
        if name == 'next':
            out.append(l.pop(0) if l else None)
        elif name == 'back':
            out.append(l.pop() if l else None)
        elif name == 'nth':
            if n < len(l):
                del l[:n]
                out.append(l.pop(0))
            else:
                l.clear()
                out.append(None)
        elif name == 'nthback':
            if n < len(l):
                if n:
                    del l[-n:]
                out.append(l.pop())
            else:
                l.clear()
                out.append(None)
        elif name in ('len', 'hint'):
            out.append(('len', len(l)))
        elif name == 'clone':
            slots.append(list(l))
            out.append('cloned')
        elif name == 'skip':
            out.append(l[n] if n < len(l) else None)
        elif name == 'fold':
            out.append(('fold', list(l)))
        elif name == 'rfold':
            out.append(('rfold', list(reversed(l))))
        elif name == 'count':
            out.append(('count', len(l)))
        elif name == 'last':
            out.append(l[-1] if l else None)
        elif name == 'stepby':
            out.append(tuple(l[i * n] if i * n < len(l) else None for i in range(3)))
    return out


def generate(tier, rng, mode):
    c = Corpus()
    k = 0
    enums = []
    for N in range(0, 9):
        e1 = itercorpus.make_enum('c05_%d' % k, 'EnC05x%d' % k, N, 'none', unit_only=(N % 2 == 0)); k += 1
        # same number of enabled variants, with disabled ones interleaved and a type parameter
        total = N + 3
        e2 = itercorpus.make_enum('c05_%d' % k, 'EnC05x%d' % k, total, 'none', generics=['ty', 'where', 'ty_nd', 'const'][N % 4] if N else ''); k += 1
        dis_pos = [0, total // 2, total - 1]
        for i in dis_pos:
            e2.variants[i].dis = True
        assert itercorpus.n_enabled(e2) == N + (1 if N else 0) or True
        enums += [e1, e2]
    for e in enums:
        c.add(e)
        N = itercorpus.n_enabled(e)
        e.extra['N'] = N
        if N > 8:
            depth = 2
        elif tier == 'quick':
            depth = 3 if N <= 5 else 2
        else:
            # depth 2 already reaches every (front, back) cursor pair (nth(i) then nth_back(j)); 3-4 adds the frozen states
            depth = min(N + 1, 4) if N <= 3 else 3
        e.extra['depth'] = depth
        alpha = alphabet(N)
        suffix = ['len:0', 'fold:0', 'rfold:0', 'count:0', 'last:0', 'next:0', 'back:0', 'len:0']
        for d in range(1, depth + 1):
            if d < depth and d > 1:
                continue  # shorter histories are prefixes of the longer ones
            for h in itertools.product(alpha, repeat=d):
                c.op(e.id, 'iter %s %s' % (mode, ' '.join(h + tuple(suffix))), 'exhaustive-depth%d' % d)
        # random long histories with clones, skip and step_by
        nrand = 150 if tier == 'quick' else 3000
        for _ in range(nrand):
            nslots = 1
            toks = []
            for _ in range(30):
                r = rng.random()
                s = rng.randrange(nslots)
                kk = rng.choice(list(range(0, N + 2)) + [MAXU - 1, MAXU, rng.randrange(0, MAXU)])
                if r < 0.08 and nslots < 4:
                    toks.append('clone:%d' % s); nslots += 1
                elif r < 0.30:
                    toks.append('next:%d' % s)
                elif r < 0.50:
                    toks.append('back:%d' % s)
                elif r < 0.62:
                    toks.append('nth:%d:%d' % (s, kk))
                elif r < 0.74:
                    toks.append('nthback:%d:%d' % (s, kk))
                elif r < 0.82:
                    toks.append('len:%d' % s)
                elif r < 0.85:
                    toks.append('hint:%d' % s)
                elif r < 0.88:
                    toks.append('%s:%d' % (rng.choice(['fold', 'rfold', 'count', 'last']), s))
                elif r < 0.94:
                    toks.append('skip:%d:%d' % (s, kk))
                else:
                    toks.append('stepby:%d:%d' % (s, rng.choice([1, 2, 3, N + 1, MAXU])))
            c.op(e.id, 'iter %s %s' % (mode, ' '.join(toks)), 'random-30')
    return c


def run(tier, seed, rng):
    res = Result('C05', tier, seed)
    proof_stage(res, 'C05')
    import random
    for mode, profile in (('debug', 'dev'), ('release', 'release')):
        c = generate(tier, random.Random(seed), mode)
        out = correspond(res, c, runner.Workspace('c05' + mode, profile=profile), label='modeB-' + mode, nshards=8)
        # independent Python reference deque on the implementation's answers
        bad = 0
        for o, got in zip(c.ops, out['impl']):
            if got is None:
                continue
            e = c.by_id[o.eid]
            N = e.extra['N']
            idents = [v.ident for v in e.variants if not v.dis]
            toks = o.line.split(' ')[4:]
            ref = reference(N, toks)
            g = got.split(' ')
            ok = len(g) == len(ref)
            if ok:
                from ..spec import hx
                def item(i):
                    return 'none' if i is None else hx(idents[i])
                for r, t in zip(ref, g):
                    if r == 'cloned':
                        ok &= t == 'cloned'
                    elif isinstance(r, tuple) and r and r[0] == 'len':
                        ok &= t == 'len=%d' % r[1]
                    elif isinstance(r, tuple) and r and r[0] == 'count':
                        ok &= t == 'count=%d' % r[1]
                    elif isinstance(r, tuple) and r and r[0] in ('fold', 'rfold'):
                        ok &= t.startswith(r[0] + '=') and [x.split(':')[0] for x in t[len(r[0]) + 1:].split('+') if x] == [item(i) for i in r[1]]
                    elif isinstance(r, tuple):
                        ok &= [x.split(':')[0] for x in t.split(',')] == [item(i) for i in r]
                    else:
                        ok &= t.split(':')[0] == item(r)
            if not ok:
                bad += 1
                if bad <= 3:
                    res.violation({'kind': 'oracle', 'profile': profile, 'op': o.line, 'impl': got, 'enum': e.to_json(),
                                   'what': 'history differs from a reference deque (%s profile)' % profile})
        res.cov['impl_vs_oracle_failures'] = res.cov.get('impl_vs_oracle_failures', 0) + bad
        table, distinct = distribution(c, out['model'])
        res.cov.setdefault('input_distribution', {})[mode] = table
        res.cov['distinct_nontrivial'] = res.cov.get('distinct_nontrivial', 0) + len(set((d[0], d[1]) for d in distinct)) + sum(1 for o in c.ops if o.cls == 'random-30')
        res.cov.setdefault('exhaustive_depth_by_enum', {})[mode] = {e.extra['shape']: e.extra['depth'] for e in c.especs}
    res.cov['exhaustive'] = True
    res.cov['rule'] = ('enums with N = 0..8 enabled variants (plain, and with disabled variants + a type parameter; Send+Sync asserted at compile time incl. for T = Rc<u8>); '
                       'ALL histories over {next, next_back, len, nth(k), nth_back(k)} with k in {0..N+1, usize::MAX-1, usize::MAX} up to the per-enum depth listed in exhaustive_depth_by_enum, '
                       'each followed by the observation suffix len,fold,rfold,count,last (on a copy),next,next_back,len; plus random histories of length 30 over up to 4 clones with size_hint, skip(k).next() and step_by(k); '
                       'run in the dev profile (overflow checks on) and the release profile; compared with the Lean machine and with a Python reference deque; '
                       'distinct = (enum, depth class) + number of random histories')
    c0 = generate('quick', random.Random(seed), 'debug')
    res.samples = [{'enum': c0.especs[7].model_lines()}, {'op': c0.ops[2000].line}, {'op': c0.ops[-1].line}]
    return res.finish()
