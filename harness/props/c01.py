"""C01 — EnumString returns variant V iff the input is one of V's declared spellings."""
from ..core import Result, Corpus, proof_stage, correspond, distribution
from ..spec import hx
from .. import strcorpus, runner


def generate(tier, rng, pid='C01'):
    enums = strcorpus.build_enums(rng, tier, pid, prefix_pool=(None, None, 'pre/', 'é-'))
    enums += strcorpus.build_soup(rng, tier, pid, prefix_pool=(None, None, 'p_'))
    ovs = strcorpus.overlap_enums(pid)
    enums += ovs
    enums += strcorpus.shadowed_by_disabled(pid, ['EnumString'], ['parse'])
    enums.append(strcorpus.clash_enum(pid, ['EnumString'], ['parse'], kinds=(('unit', []), ('tuple', ['u8']))))
    info = strcorpus.query_model(enums)
    c = Corpus()
    for e in enums:
        e.extra['nooverlap'] = info[e.id]['nooverlap']
        c.add(e, in_domain=info[e.id]['nooverlap'])
        for s, cls in strcorpus.parse_inputs(rng, e, info[e.id], tier):
            c.op(e.id, 'parse %s' % hx(s), cls)
    for e in ovs:
        for s in strcorpus.OVERLAP_INPUTS:
            c.op(e.id, 'parse %s' % hx(s), 'shared-spelling')
    c.pointwise_ops = strcorpus.pointwise_domain(c)
    return c


def run(tier, seed, rng):
    res = Result('C01', tier, seed)
    proof_stage(res, 'C01')
    from .. import fixedprog
    fixedprog.run_fixed(res, 'fx_macro_fragments', fixedprog.MACRO_FRAGMENTS, 'enums produced by macro_rules! with literal / ident / ty / expr fragments in attribute values, names, field types and discriminants')
    c = generate(tier, rng)
    ws = runner.Workspace('c01')
    out = correspond(res, c, ws, label='modeB')
    # the property covers enums that ask for the phf-backed matcher as well: FromStr and TryFrom, same answers
    from . import c16
    import copy
    cp = Corpus()
    pen = []
    for e in c16.special_enums():
        t = copy.deepcopy(e)
        t.id, t.name, t.phf = 'c01' + e.id[3:] + 'p', 'EnC01' + e.name[5:] + 'P', True
        pen.append(t)
    pinfo = strcorpus.query_model(pen)
    for t in pen:
        cp.add(t, in_domain=pinfo[t.id]['nooverlap'])
        for s, cls in strcorpus.parse_inputs(rng, t, pinfo[t.id], tier, max_full=4 if tier == 'quick' else 8):
            cp.op(t.id, 'parse %s' % hx(s), 'phf:' + cls)
    correspond(res, cp, runner.Workspace('c01phf', features=('derive', 'phf')), label='modeB-phf')
    table, distinct = distribution(c, out['model'])
    res.cov['input_distribution'] = table
    res.cov['distinct_nontrivial'] = len([d for d in distinct if not (d[1].startswith('random') and d[2].startswith('err'))])
    res.cov['rule'] = ('per-variant exhaustive core (kind x naming x ci x default_with) chunked into enums x rotating enum-level '
                       'dimensions (17 style strings, ci, generics, custom error, default variant); inputs per spelling: itself, '
                       'case flips (all 2^k up to k letters, sampled beyond), one-edit neighbours, look-alikes, whitespace padding, raw identifier, '
                       'empty, random.  distinct = (enum shape, input class, answer kind); non-trivial = not a random string rejected')
    res.cov['in_domain_enums'] = sum(1 for e in c.especs if e.extra['in_domain'])
    res.samples = [{'enum': e.model_lines()} for e in c.especs[:2]] + [{'op': o.line, 'class': o.cls, 'model': m} for o, m in list(zip(c.ops, out['model']))[:6]]
    return res.finish()
