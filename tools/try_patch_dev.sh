#!/bin/bash
# like try_patch.sh but against a clean clone (/tmp/repo_clean) with its own scratch, so /repo is left alone
PATCH="$1"; shift
export VERIF_REPO=/tmp/repo_clean VERIF_SCRATCH=/tmp/scratch_dev
cd /tmp/repo_clean && git checkout -- . && git apply "$PATCH" || { echo "patch does not apply"; exit 2; }
cd /verif
CAUGHT=""
for p in "$@"; do
  out=$(./check $p --tier quick 2>&1 | grep -E "^(VIOLATION|OK|ERROR|KNOWN)" | head -2 | tr '\n' ' ')
  echo "$p: ${out:0:200}"
  echo "$out" | grep -q VIOLATION && CAUGHT="$CAUGHT $p"
done
cd /tmp/repo_clean && git checkout -- .
echo "CAUGHT-BY:$CAUGHT"
