#!/bin/bash
# usage: tools/try_patch.sh <patch.diff> [check ids...]   -- apply a seeded change to /repo, run the quick checks, undo it
set -u
PATCH="$1"; shift
IDS="${@:-C01 C02 C03 C04 C05 C06 C07 C08 C09 C10 C11 C12 C13 C14 C15 C16 C17 C18 C19 C20}"
cd /repo && git status --short | grep -q . && { echo "/repo not clean"; exit 2; }
git -C /repo apply "$PATCH" || { echo "patch does not apply"; exit 2; }
cd /verif
CAUGHT=""
for p in $IDS; do
  out=$(./check $p --tier quick 2>&1 | grep -E "^(VIOLATION|OK|ERROR|KNOWN)" | head -3 | tr '\n' ' ')
  echo "$p: ${out:0:220}"
  echo "$out" | grep -q VIOLATION && CAUGHT="$CAUGHT $p"
done
git -C /repo checkout -- .
echo "CAUGHT-BY:$CAUGHT"
