#!/usr/bin/env python3
"""Regenerates /verif/MANIFEST.json from the table below (kept in one place so it stays consistent)."""
import json, os
VERIF = os.path.dirname(os.path.dirname(os.path.abspath(__file__)))

FIX_COMMITS = ["a719c537bfeba4b5d3bb48b62bd230815cc99987", "9e0461fb5adc42ff352d18ee6e2ea78526e3ca4a",
               "607b6f87a017d916c369756915f8383b1b494629", "3c2488f64c3b351a51808f24f0d7f26842348d3d",
               "b1582fd01a0ebb3376b0e5e2b7457ef7eafe740e", "70477582b6b9817ff203bb83e1b4dca60d8bb604",
               "a3705c316621730aafd980fc7fa4b9bed72bc295", "acb6734a10076efa315e39653a108d7353058c1d"]

NOTE = ("Trusted: Lean 4.33.0 kernel; axioms propext / Classical.choice / Quot.sound only (audited per theorem by #print axioms on every run; "
        "no sorry/admit/native_decide/bv_decide/user axioms). The Lean model of the macro (gen) and of the rustc/core semantics of the emitted "
        "code (eval) is hand-written and tied to /repo's working tree by the correspondence check (mode B: real derives compiled by cargo from "
        "/repo, run on the same definitions and inputs as the compiled Lean driver; mode A where stated: the macro's own helper functions run "
        "in-process from /repo's source files). The model starts from the attribute items as written (which item in which #[strum(..)] list, in order) and collects them itself (StrumModel/Collect.lean; the whole pass enum-as-written -> enum the theorems quantify over is collectAll = RawSource.declared, StrumProofs/Source.lean; the strum_discriminants lists and the generated enum's header: StrumModel/DiscHeader.lean; C20's counting rules = the loops: StrumProofs/Agree.lean). On the implementation side every enum item is compiled inside an inner module with the harness functions in its parent (visibility of everything generated), with rotating lifetime-parameter names and a field type whose inherent functions shadow trait methods. The program quantifier is sampled on the implementation side; syn's parsing of a single attribute item, heck "
        "(modelled), name resolution / type checking and format!'s rendering of non-string payloads are modelled or delegated, not verified. ")

CLAIMED = {
    # id: (technique, level text, design ref, extra note)
}

def entry(pid, technique, text, ref, extra=''):
    return {
        "property_id": pid,
        "quick_cmd": "./check %s --tier quick" % pid,
        "thorough_cmd": "./check %s --tier thorough" % pid,
        "evidence_file": "evidence/%s.json" % pid,
        "replay_cmd_template": "./check replay {path}",
        "engine": "lean4-proof+correspondence",
        "level_claimed": {"category": "proof", "text": text, "design_ref": ref},
        "level_note": NOTE + extra,
        "technique": technique,
    }

def main():
    import importlib.util
    spec = importlib.util.spec_from_file_location('claims', os.path.join(VERIF, 'tools', 'claims.py'))
    claims = importlib.util.module_from_spec(spec); spec.loader.exec_module(claims)
    checks = [entry(pid, *claims.CLAIMS[pid]) for pid in sorted(claims.CLAIMS)]
    allp = ['C%02d' % i for i in range(1, 21)]
    na = [{"property_id": p, "reason": claims.NOT_CLAIMED.get(p, "check not built yet (work in progress; will be claimed once its theorem and correspondence exist)")}
          for p in allp if p not in claims.CLAIMS]
    m = {
        "version": 1,
        "setup_cmd": "./check setup",
        "hooks": {"guard": "none (no instrumentation hooks are needed: mode A includes the macro sources by #[path], mode B uses the public derives)",
                  "enable": "n/a - checks build /repo's working tree as it is",
                  "baseline_off_cmd": "cd /repo && cargo test --workspace --no-fail-fast --offline",
                  "source_commits": FIX_COMMITS, "add_only": True},
        "engines": [{"name": "lean4-proof+correspondence", "path": "lean/ + harness/ + check",
                     "serves_properties": [c["property_id"] for c in checks],
                     "kind_free_text": "Lean 4 model + theorems (lean/StrumModel, lean/StrumProofs), compiled model driver, Python harness that renders one abstract corpus to Rust (real derives from /repo) and to model protocol lines and diffs the outputs"}],
        "checks": checks,
        "not_applicable": na,
        "notes": "source_commits are the eight `fix:` repairs of genuine defects (see known_findings.json and DESIGN.md section 7); there are no hook commits.",
    }
    json.dump(m, open(os.path.join(VERIF, 'MANIFEST.json'), 'w'), indent=1)
    print('MANIFEST.json: %d checks, %d not claimed' % (len(checks), len(na)))

if __name__ == '__main__':
    main()
