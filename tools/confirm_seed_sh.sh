#!/bin/bash
# usage: tools/confirm_seed_sh.sh <ID> <patch.diff> <demo.sh>
# For demonstrations that are cargo packages with path dependencies on the sub-agent's worktree /tmp/mut/<ID>.
set -u
ID="$1"; PATCH="$2"; DEMO="$3"
WT=${SRC_ROOT:-/tmp/mut}/$ID
cd $WT && git checkout -- strum strum_macros && git apply "$PATCH" || { echo "RESULT patch-does-not-apply"; exit 2; }
T=$(cargo test --workspace --no-fail-fast --offline 2>&1)
echo "$T" | grep -E "^test result" | awk '{p+=$4; f+=$6} END {print "suite-with-change: passed=" p " failed=" f}'
SUITE_FAIL=$(echo "$T" | grep -E "^test result" | awk '{f+=$6} END {print f+0}')
bash "$DEMO" >/tmp/$ID.demo1.log 2>&1; R1=$?
git checkout -- strum strum_macros
bash "$DEMO" >/tmp/$ID.demo2.log 2>&1; R2=$?
echo "demo-with-change rc=$R1 ; demo-without-change rc=$R2"
if [ "$SUITE_FAIL" = "0" ] && [ $R1 -ne 0 ] && [ $R2 -eq 0 ]; then echo "RESULT confirmed"; else echo "RESULT NOT-confirmed"; tail -5 /tmp/$ID.demo2.log; fi
