#!/usr/bin/env python3
"""Builds the prompt files and scratch worktrees of one sub-agent round (here: round 14, groups U1..U10 under /tmp/mut18).
The agents see only their prompt file and their own worktree of /repo - nothing from /verif except the one-line summaries of earlier changes."""
import json, subprocess, os, re, glob
props = [json.loads(l) for l in open('/verif/properties.jsonl')]
ptxt = '\n\n'.join('%s — %s\n%s' % (p['id'], p.get('title',''), p.get('statement', p.get('description',''))) for p in props)
groups = {
 'Z1': (['helpers/metadata.rs','helpers/inner_variant_props.rs'], 'strum_macros/src/helpers/metadata.rs and inner_variant_props.rs'),
 'Z2': (['helpers/variant_props.rs','helpers/mod.rs'], 'strum_macros/src/helpers/variant_props.rs and mod.rs'),
 'Z3': (['helpers/type_props.rs'], 'strum_macros/src/helpers/type_props.rs'),
 'Z4': (['helpers/case_style.rs'], 'strum_macros/src/helpers/case_style.rs'),
 'Z5': (['strings/from_string.rs'], 'strum_macros/src/macros/strings/from_string.rs'),
 'Z6': (['strings/display.rs','strings/to_string.rs'], 'strum_macros/src/macros/strings/display.rs and to_string.rs'),
 'Z7': (['strings/as_ref_str.rs','strings/mod.rs','macros/enum_variant_names.rs','macros/enum_variant_array.rs','macros/enum_count.rs'], 'strum_macros/src/macros/strings/as_ref_str.rs, strings/mod.rs, enum_variant_names.rs, enum_variant_array.rs and enum_count.rs'),
 'Z8': (['macros/enum_iter.rs','macros/from_repr.rs'], 'strum_macros/src/macros/enum_iter.rs and from_repr.rs'),
 'Z9': (['macros/enum_discriminants.rs','macros/enum_table.rs'], 'strum_macros/src/macros/enum_discriminants.rs and enum_table.rs'),
 'Z10': (['macros/enum_is.rs','macros/enum_try_as.rs','macros/enum_messages.rs','macros/enum_properties.rs','strum/src/lib.rs'], 'strum_macros/src/macros/enum_is.rs, enum_try_as.rs, enum_messages.rs, enum_properties.rs and the runtime crate strum/src/lib.rs'),
}
earlier = {}
for d in sorted(glob.glob('/verif/seeded/*/')):
    patch = open(d+'patch.diff').read()
    files = set(re.findall(r'^\+\+\+ b/(\S+)', patch, re.M))
    try: m = json.load(open(d+'meta.json'))
    except Exception: continue
    s = re.sub(r'\s+',' ', m.get('summary',''))[:140]
    for g,(pats,_) in groups.items():
        if any(any(f.endswith(p) for p in pats) for f in files):
            earlier.setdefault(g, []).append('- ' + s)
head = subprocess.check_output(['git','-C','/repo','rev-parse','HEAD'],text=True).strip()
for g,(pats,files) in groups.items():
    wt = '/tmp/mut18/%s' % g
    subprocess.run(['git','-C','/repo','worktree','add','-q','--detach',wt,head],check=True)
    subprocess.run(['cp','/repo/Cargo.lock',wt+'/Cargo.lock'])
    os.makedirs('/tmp/mut18/%s.out' % g, exist_ok=True)
    prev = '\n'.join(earlier.get(g, [])) or '(none)'
    prompt = f"""You are helping evaluate a verification effort for the Rust crate `strum` (derive macros for enums; repository checked out for you as a scratch git worktree at {wt}; it builds and tests OFFLINE only: always pass `--offline` to cargo, there is no network). Work ONLY inside {wt} and write your results to {wt}.out/ — do not touch any other checkout of the repository, and do not look for or read anything outside {wt} except the cargo registry. Do not write temporary files anywhere else either. Keep your own messages short (no long quotations of code or logs).

Below are 20 semantic properties users of strum rely on. Your job: produce TWO different, realistic, subtle source changes (the kind of slip or well-meant "refactor"/"simplification"/"optimisation"/"hardening"/"small feature" a maintainer could make and a reviewer could wave through), each of which BREAKS AT LEAST ONE of these properties while (a) the workspace still compiles, and (b) the complete existing test suite still passes: `cargo test --workspace --no-fail-fast --offline` (run it in {wt}; it must report zero failures with your change, doctests included).

THIS ROUND: no special restriction on the kind of change - anything realistic that the 17 earlier rounds (listed below for your files) have not done. The FIRST change must be SILENT (every program that compiled before still compiles, no new panic at macro-expansion time; only what the generated or library code returns or does at run time differs). The SECOND change may instead make some unusual but LEGAL input stop compiling (or make an input that must be rejected compile), but only for a narrow, specific kind of input - a change that breaks every use of a derive is of no interest. Do NOT hand in: a change whose only effect is that generated code now uses a bare prelude name (`Option`, `Some`, `Result`, ...) that a user item could shadow; a change that only matters when the USER has a trait in scope whose methods capture a method call in generated code; anything that relies on non-ASCII IDENTIFIERS or on raw identifiers (`r#type`); anything only observable through pointer formatting (`{{:p}}`).

Focus area for you: make both changes in {files}. Read that code carefully first. About 340 changes were already produced in earlier rounds; the ones touching your files are listed below and yours must be of a DIFFERENT kind — read the list, then look for what it leaves untouched.

Earlier changes in your files:

{prev}

For each change deliver, in {wt}.out/:
 - `patch.diff` (second change: `patch2.diff`): `git diff` of ONLY that change against the pristine worktree (apply them separately, not stacked: produce the first, save it, revert with `git diff > x; git apply -R x` — do NOT use `git stash`, the stash is shared with other worktrees — then produce the second).
 - `demo.rs` (second: `demo2.rs`): a self-contained integration test file that can be dropped into `strum_tests/tests/` and run with `cargo test -p strum_tests --test <name> --offline`; it must FAIL (for the silent change: at run time, compiling in both cases) with the change applied and PASS on the pristine tree. It should state in a comment which property it demonstrates. (If the break only shows under a build configuration that strum_tests cannot express, e.g. no_std, a renamed dependency, the phf feature, or a MISSING compile error, deliver instead a directory `demo/` (second: `demo2/`) holding a tiny cargo package with a path dependency written as an absolute path to {wt}/strum, plus `demo.sh` (second: `demo2.sh`) that builds/runs it offline and exits non-zero exactly when the property is broken; copy {wt}/Cargo.lock into the package. In that case do NOT also deliver a demo.rs wrapper.)
 - `meta.json` (second: `meta2.json`): a JSON object with keys "property" (the ONE property id, e.g. "C07", that the demo shows broken — pick the most directly violated one), "also_breaks" (list of other ids you believe are affected), "summary" (what was changed, where), "needs" (precisely what an input / enum definition / call must have for the break to manifest, and what still works).

Confirm everything yourself before finishing: suite green with the change, demo fails with it, demo passes without it. Leave the worktree pristine; report briefly what you produced.

THE PROPERTIES

{ptxt}
"""
    open('/tmp/mut18/%s.prompt.txt' % g, 'w').write(prompt)
    print(g, len(earlier.get(g, [])), len(prompt))
