#!/usr/bin/env python3
"""Builds the prompt files and scratch worktrees of one sub-agent round (here: round 14, groups U1..U10 under /tmp/mut16).
The agents see only their prompt file and their own worktree of /repo - nothing from /verif except the one-line summaries of earlier changes."""
import json, subprocess, os, re, glob
props = [json.loads(l) for l in open('/verif/properties.jsonl')]
ptxt = '\n\n'.join('%s — %s\n%s' % (p['id'], p.get('title',''), p.get('statement', p.get('description',''))) for p in props)
groups = {
 'X1': (['helpers/metadata.rs','helpers/inner_variant_props.rs'], 'strum_macros/src/helpers/metadata.rs and inner_variant_props.rs'),
 'X2': (['helpers/variant_props.rs','helpers/mod.rs'], 'strum_macros/src/helpers/variant_props.rs and mod.rs'),
 'X3': (['helpers/type_props.rs'], 'strum_macros/src/helpers/type_props.rs'),
 'X4': (['helpers/case_style.rs'], 'strum_macros/src/helpers/case_style.rs'),
 'X5': (['strings/from_string.rs'], 'strum_macros/src/macros/strings/from_string.rs'),
 'X6': (['strings/display.rs','strings/to_string.rs'], 'strum_macros/src/macros/strings/display.rs and to_string.rs'),
 'X7': (['strings/as_ref_str.rs','strings/mod.rs','macros/enum_variant_names.rs','macros/enum_variant_array.rs','macros/enum_count.rs'], 'strum_macros/src/macros/strings/as_ref_str.rs, strings/mod.rs, enum_variant_names.rs, enum_variant_array.rs and enum_count.rs'),
 'X8': (['macros/enum_iter.rs','macros/from_repr.rs'], 'strum_macros/src/macros/enum_iter.rs and from_repr.rs'),
 'X9': (['macros/enum_discriminants.rs','macros/enum_table.rs'], 'strum_macros/src/macros/enum_discriminants.rs and enum_table.rs'),
 'X10': (['macros/enum_is.rs','macros/enum_try_as.rs','macros/enum_messages.rs','macros/enum_properties.rs','strum/src/lib.rs'], 'strum_macros/src/macros/enum_is.rs, enum_try_as.rs, enum_messages.rs, enum_properties.rs and the runtime crate strum/src/lib.rs'),
}
earlier = {}
for d in sorted(glob.glob('/verif/seeded/*/')):
    patch = open(d+'patch.diff').read()
    files = set(re.findall(r'^\+\+\+ b/(\S+)', patch, re.M))
    try: m = json.load(open(d+'meta.json'))
    except Exception: continue
    s = re.sub(r'\s+',' ', m.get('summary',''))[:140]
    for g,(pats,_) in groups.items():
        if any(any(f.endswith(p) for p in pats) for f in files):
            earlier.setdefault(g, []).append('- ' + s)
head = subprocess.check_output(['git','-C','/repo','rev-parse','HEAD'],text=True).strip()
for g,(pats,files) in groups.items():
    wt = '/tmp/mut16/%s' % g
    subprocess.run(['git','-C','/repo','worktree','add','-q','--detach',wt,head],check=True)
    subprocess.run(['cp','/repo/Cargo.lock',wt+'/Cargo.lock'])
    os.makedirs('/tmp/mut16/%s.out' % g, exist_ok=True)
    prev = '\n'.join(earlier.get(g, [])) or '(none)'
    prompt = f"""You are helping evaluate a verification effort for the Rust crate `strum` (derive macros for enums; repository checked out for you as a scratch git worktree at {wt}; it builds and tests OFFLINE only: always pass `--offline` to cargo, there is no network). Work ONLY inside {wt} and write your results to {wt}.out/ — do not touch any other checkout of the repository, and do not look for or read anything outside {wt} except the cargo registry. Do not write temporary files anywhere else either. Keep your own messages short (no long quotations of code or logs).

Below are 20 semantic properties users of strum rely on. Your job: produce TWO different, realistic, subtle source changes (the kind of slip or well-meant "refactor"/"simplification"/"optimisation"/"hardening"/"small feature" a maintainer could make and a reviewer could wave through), each of which BREAKS AT LEAST ONE of these properties while (a) the workspace still compiles, and (b) the complete existing test suite still passes: `cargo test --workspace --no-fail-fast --offline` (run it in {wt}; it must report zero failures with your change, doctests included).

THIS ROUND: both changes must be about the SHAPE of what is generated rather than about which string or number comes out: the impl HEADER (generic parameters, their bounds and defaults, lifetimes, where clauses, const generics - copied, reordered, dropped, or over-constrained), the SIGNATURES (argument and return types, `&self` vs `self`, `'static` vs elided lifetimes, `const fn` or not, `pub` / `pub(crate)` / inherited visibility of generated items and methods), WHICH trait or inherent impl a function lands in, what a generated item is NAMED, which `#[..]` attributes the generated items carry (`#[inline]`, `#[doc(hidden)]`, `#[allow(..)]`, `#[automatically_derived]`, `#[must_use]`), hygiene of generated LOCAL names (a user field, variant, type parameter or const called like a generated local / generic / lifetime), and how PATTERNS are written (`Self::V` vs `Name::V`, `V {{ .. }}` vs `V(..)` vs `V`, `ref` bindings, `&` patterns, match ergonomics) - so that ordinary non-generic enums with ordinary names keep working and the break needs generics, lifetimes, a clashing name, an unusual visibility, a `const` context, a `&&E` receiver, a trait-object-unsafe bound, or the like. The FIRST change must be SILENT if you can manage it (everything that compiled still compiles; what differs is a run-time result or which impl is selected); if the area offers no silent change of this kind, a narrow compile break is acceptable for both. A compile break must hit only a narrow, specific kind of LEGAL input - a change that breaks every use of a derive is of no interest. Do NOT hand in a change whose only effect is that generated code now uses a bare prelude name (`Option`, `Some`, `Result`, ...) that a user item could shadow, and do not rely on non-ASCII IDENTIFIERS (non-ASCII string literals are fine).

Focus area for you: make both changes in {files}. Read that code carefully first. About 307 changes were already produced in earlier rounds; the ones touching your files are listed below and yours must be of a DIFFERENT kind — read the list, then look for what it leaves untouched.

Earlier changes in your files:

{prev}

For each change deliver, in {wt}.out/:
 - `patch.diff` (second change: `patch2.diff`): `git diff` of ONLY that change against the pristine worktree (apply them separately, not stacked: produce the first, save it, revert with `git diff > x; git apply -R x` — do NOT use `git stash`, the stash is shared with other worktrees — then produce the second).
 - `demo.rs` (second: `demo2.rs`): a self-contained integration test file that can be dropped into `strum_tests/tests/` and run with `cargo test -p strum_tests --test <name> --offline`; it must FAIL (for the silent change: at run time, compiling in both cases) with the change applied and PASS on the pristine tree. It should state in a comment which property it demonstrates. (If the break only shows under a build configuration that strum_tests cannot express, e.g. no_std, a renamed dependency, the phf feature, or a MISSING compile error, deliver instead a directory `demo/` (second: `demo2/`) holding a tiny cargo package with a path dependency written as an absolute path to {wt}/strum, plus `demo.sh` (second: `demo2.sh`) that builds/runs it offline and exits non-zero exactly when the property is broken; copy {wt}/Cargo.lock into the package. In that case do NOT also deliver a demo.rs wrapper.)
 - `meta.json` (second: `meta2.json`): a JSON object with keys "property" (the ONE property id, e.g. "C07", that the demo shows broken — pick the most directly violated one), "also_breaks" (list of other ids you believe are affected), "summary" (what was changed, where), "needs" (precisely what an input / enum definition / call must have for the break to manifest, and what still works).

Confirm everything yourself before finishing: suite green with the change, demo fails with it, demo passes without it. Leave the worktree pristine; report briefly what you produced.

THE PROPERTIES

{ptxt}
"""
    open('/tmp/mut16/%s.prompt.txt' % g, 'w').write(prompt)
    print(g, len(earlier.get(g, [])), len(prompt))
