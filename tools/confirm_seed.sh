#!/bin/bash
# usage: tools/confirm_seed.sh <patch.diff> <demo.rs>
# Confirms in a scratch worktree (/tmp/confirm) that the change compiles, keeps the existing suite green,
# and that the demonstration fails with the change and passes without it.
set -u
PATCH="$1"; DEMO="$2"
WT=/tmp/confirm
if [ ! -d $WT ]; then git -C /repo worktree add -q --detach $WT HEAD; fi
cd $WT && git checkout -q --detach $(git -C /repo rev-parse HEAD) 2>/dev/null; git checkout -- . ; rm -f strum_tests/tests/zz_demo.rs
git apply "$PATCH" || { echo "RESULT patch-does-not-apply"; exit 2; }
T=$(cargo test --workspace --no-fail-fast --offline 2>&1)
echo "$T" | grep -E "^test result" | awk '{p+=$4; f+=$6} END {print "suite-with-change: passed=" p " failed=" f}'
SUITE_FAIL=$(echo "$T" | grep -E "^test result" | awk '{f+=$6} END {print f+0}')
echo "$T" | grep -qE "^error" && { echo "RESULT does-not-compile"; echo "$T" | grep -E "^error" -A5 | head -20; }
cp "$DEMO" strum_tests/tests/zz_demo.rs
D1=$(cargo test -p strum_tests ${DEMO_ARGS:-} --test zz_demo --offline 2>&1); R1=$?
git checkout -- strum strum_macros
D2=$(cargo test -p strum_tests ${DEMO_ARGS:-} --test zz_demo --offline 2>&1); R2=$?
rm -f strum_tests/tests/zz_demo.rs
echo "demo-with-change rc=$R1 ; demo-without-change rc=$R2"
if [ "$SUITE_FAIL" = "0" ] && [ $R1 -ne 0 ] && [ $R2 -eq 0 ]; then echo "RESULT confirmed"; else echo "RESULT NOT-confirmed"; echo "$D2" | tail -15; fi
