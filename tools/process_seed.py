#!/usr/bin/env python3
"""tools/process_seed.py <ID> [suffix]: confirm a sub-agent's seeded change, run every quick check against it, store it
under /verif/seeded/<ID><suffix>/ with what caught it."""
import sys, os, json, subprocess, shutil
pid = sys.argv[1]
suf = sys.argv[2] if len(sys.argv) > 2 else ''
src = os.environ.get('SRC_ROOT', '/tmp/mut') + '/%s.out' % pid
patch, demo, meta = [os.path.join(src, n % suf) for n in ('patch%s.diff', 'demo%s.rs', 'meta%s.json')]
demosh = os.path.join(src, 'demo%s.sh' % suf)
use_sh = os.path.exists(demosh) and (pid in ('C19', 'C20') or not os.path.exists(demo) or bool(os.environ.get('USE_SH')))
group = None
if not pid.startswith('C'):
    # cross-cutting round: the agent names the property in its meta file
    group = pid
    pid = json.load(open(meta))['property']
if not os.path.exists(patch) or not (os.path.exists(demo) or use_sh):
    print('missing files for', pid, suf); sys.exit(2)
if use_sh:
    c = subprocess.run(['/verif/tools/confirm_seed_sh.sh', group or pid, patch, demosh], stdout=subprocess.PIPE, stderr=subprocess.STDOUT, text=True).stdout
    demo = demosh
else:
    c = subprocess.run(['/verif/tools/confirm_seed.sh', patch, demo], stdout=subprocess.PIPE, stderr=subprocess.STDOUT, text=True).stdout
confirmed = 'RESULT confirmed' in c
print(c.strip().splitlines()[-3:])
if not confirmed:
    print('NOT CONFIRMED', pid, suf); sys.exit(1)
ids = [pid] if os.environ.get('OWN_ONLY') else []
t = subprocess.run([os.environ.get('TRY_PATCH', '/verif/tools/try_patch.sh'), patch] + ids, stdout=subprocess.PIPE, stderr=subprocess.STDOUT, text=True).stdout
print(t)
caught = [l for l in t.splitlines() if l.startswith('CAUGHT-BY:')]
caught = caught[0][len('CAUGHT-BY:'):].split() if caught else []
base = int(os.environ.get('SEED_BASE', '0'))
name = pid + '-%d' % (base + (2 if suf else 1))
if group:
    k = 1
    while os.path.exists('/verif/seeded/%s-%d' % (pid, k)):
        k += 1
    name = '%s-%d' % (pid, k)
dst = '/verif/seeded/%s' % name
os.makedirs(dst, exist_ok=True)
shutil.copy(patch, os.path.join(dst, 'patch.diff'))
shutil.copy(demo, os.path.join(dst, os.path.basename(demo).replace('2', '')))
if use_sh:
    ddir = os.path.join(src, 'demo%s' % suf)
    if os.path.isdir(ddir):
        shutil.copytree(ddir, os.path.join(dst, 'demo'), dirs_exist_ok=True, ignore=shutil.ignore_patterns('target'))
m = {}
try:
    m = json.load(open(meta))
except Exception as e:
    m = {'note': 'agent meta unreadable: %s' % e}
m['property'] = pid
if group:
    m['round4_group'] = group
m['confirmed_by_us'] = {'script': 'tools/confirm_seed.sh', 'output': c.strip().splitlines()[-3:]}
m['checks_run'] = 'tools/try_patch.sh (all 20 quick checks on /repo with the patch applied, then git checkout -- .)'
m['caught_by'] = caught
m['caught_by_own_property_check'] = pid in caught
json.dump(m, open(os.path.join(dst, 'meta.json'), 'w'), indent=1)
print('STORED %s caught_by=%s own=%s' % (dst, caught, pid in caught))
