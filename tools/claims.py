T = "Lean 4 theorems over a hand-written model, tied to the code by compiled-derive correspondence (mode B)"
CLAIMS = {
 'C01': ("Lean 4 proof: first-match characterisation + iff under non-overlap (from_string.rs model); correspondence with compiled derives",
         "lean/StrumProofs/C01.lean: source_parse / source_candidates / source_spellings (the statement read off the attribute lists as written), parse_accepting_at (pointwise: the only candidate accepting THIS input is returned, no global non-overlap needed), parse_first_match (no overlap hypothesis), parse_iff, parse_err_iff, parse_never_disabled, fall_spec, noOverlapB_iff - for every enum definition and every byte string, "
         "no bound on variants, spellings or input length. Correspondence: the real EnumString derive on the per-variant exhaustive attribute core x enum-level dimensions with "
         "case-flip / one-edit / look-alike / whitespace / raw-identifier inputs; FromStr and TryFrom compared on every input.",
         "DESIGN.md §6 C01", ""),
 'C02': ("Lean 4 proof: printed name is a member of the parse-side spelling list + C01's iff; correspondence with compiled derives",
         "lean/StrumProofs/C02.lean: printed_mem_serializations, roundtrip (every string-producing derive), get_serializations_roundtrip; all definitions, all styles. "
         "Correspondence: Display/to_string/AsRefStr/IntoStaticStr(by value, by ref, into_str)/get_serializations printed by the real derives and parsed back by the real EnumString, 17 style strings.",
         "DESIGN.md §6 C02", ""),
 'C03': ("Lean 4 proof: every string derive's arm is the canonical name (max_by_key characterised); correspondence with compiled derives",
         "lean/StrumProofs/C03.lean: source_canonical (the canonical name read off the header's and the variant's OWN attribute lists as written), canonical spec, longest_spec/longest_unique (max_by_key keeps a longest, last among ties), all_derives_agree for Display, ToString, AsRefStr, AsStaticStr, IntoStaticStr x3, variant_names_at. "
         "Correspondence: all seven outputs + VARIANTS[i] from the real derives (deprecated ones on a twin enum), serialize lists in every order of lengths incl. byte-vs-char length disagreement, 4 prefixes, 17 styles.",
         "DESIGN.md §6 C03", ""),
 'C11': ("Lean 4 proof parametric in the inner field's impl (forwarding) + C01 corollary (capture); correspondence + format!(spec, inner) oracle",
         "lean/StrumProofs/C11.lean: default_captures, display_forwards (every spec, every inner function), str_forwards, default_roundtrip. Correspondence: String / Box<str> / &'static str / u32 / i64 / nested derived enum inners, "
         "tuple and named forms, C01's inputs for capture and round trip, format-spec grid compared with the model and with format!(spec, inner) in Rust.",
         "DESIGN.md §6 C11", "Partial: rendering of non-string inner values is Rust's; compared against format! inside the Rust driver, not against Lean."),
 'C12': ("Lean 4 proof: byte-level characterisation of eq_ignore_ascii_case (equal, or the two cases of one ASCII letter); correspondence with compiled derives",
         "lean/StrumProofs/C12.lean: source_ci (a written variant's own flag, else the header's - no other variant's items enter), ci_flag_spec, eqIgnoreAsciiCase_iff_foldEq, non_ascii_exact, ci_accepts_iff / cs_accepts_iff, lookalikes_rejected (whole table by kernel evaluation), nonascii_vs_ascii_rejected. "
         "Correspondence: enum flag x variant flag x ASCII/non-ASCII spellings, every 2^k case flip (k <= 8 quick / 12 thorough), look-alikes at each letter, Unicode lower/upper/casefold images, against ci and cs variants alike.",
         "DESIGN.md §6 C12", ""),
 'C16': ("Lean 4 proof: phf parser = plain parser for all inputs, key table duplicate-free under non-overlap; correspondence on twin enums with the phf feature",
         "lean/StrumProofs/C16.lean: keys_accept, allKeys_nodup, phf_compiles, parse_first_match_phf, phf_same_result, phf_gen_ok, parse_accepting_any / parse_other_any (C01's two directions for any use_phf value). Correspondence: every field-less enum built twice (with / without use_phf, features=[phf]), "
         "spellings mixed/lower/upper/caseless/non-ASCII/empty/case-variants of each other, ci at both levels, default and disabled variants, C01/C12 input sets; twins compared with each other and with the model.",
         "DESIGN.md §6 C16", "phf::Map::get is modelled as exact lookup in a duplicate-free key list."),
 'C17': ("Lean 4 proof: fixed name => Formatter::pad model for all kinds and specs, argument lists of interpolated arms; correspondence + format! oracle",
         "lean/StrumProofs/C17.lean: fixed_name_padded (unit/tuple/named, every spec), pad_charCount / pad_contains / takeChars_count (what pad does), capture_eq_parse (the macro's placeholder scanner = the format-string token grammar, every well-formed literal; Lemmas/Capture.lean), tuple_interp_of_wf / named_interp_of_wf / fixed_iff_no_placeholder_tokens, named_args_cover, tuple_args_cover, unit_placeholder_rejected, empty_brace_rejected. "
         "Correspondence: fill x align x width x precision x 0-flag grid on ASCII / multi-byte / empty names vs the Lean pad; placeholder literals (subsets, orders, repeats, nested specs, escaped braces, extreme payloads) vs format! with the same literal in Rust; mode A: EVERY to_string literal up to length 5 (quick) / 7 (thorough) over {'{','}','a',':','0',' '} on a unit, tuple and named variant - accept/reject vs the model.",
         "DESIGN.md §6 C17", "Partial: the rendering of placeholders is format_args!'s, compared with format! in the Rust driver. Known finding F4 (tuple placeholders skipping a field) is listed in known_findings.json."),
 'C18': ("Lean 4 proof: error = f(s) with call log [s], no call on success, error type selection; correspondence with a call-counting parse_err_fn",
         "lean/StrumProofs/C18.lean: custom_err, no_call_on_success, std_err, custom_only_if_declared, err_types. Correspondence: C01's corpus without default variants x {custom, standard}; the corpus's parse_err_fn stores its argument and bumps a counter; "
         "Err types asserted at compile time through <E as FromStr>::Err / <E as TryFrom<&str>>::Error.",
         "DESIGN.md §6 C18", ""),
}
CLAIMS.update({
 'C04': ("Lean 4 proof: item table = filtered declaration list, collect = 0..N-1 via the C05 refinement, reverse, COUNT; correspondence with compiled derives",
         "lean/StrumProofs/C04.lean: iter_table (by definition unfolding), source_iter (at source level: exactly the variants written without a `disabled` item, in declaration order), iter_table_no_disabled, iter_collect, iter_rev, iter_count, iter_table_nodup - all definitions, no bound on the number of variants. "
         "Correspondence: iter().collect(), rev().collect(), COUNT for enums of 0..12 variants, unit/tuple/named kinds, type/const generics, eight disabled placements.",
         "DESIGN.md §6 C04", ""),
 'C05': ("Lean 4 proof: refinement of the (idx, back_idx) machine with usize = Nat mod 2^64 (debug: panic, release: wrap) to a list deque, every history by induction; correspondence in dev and release profiles",
         "lean/StrumProofs/C05.lean + Lemmas/Iter.lean: collectFuel_eq / collectBackFuel_eq (what `fold` / `count` / `last` / `rfold` consume from any state satisfying the invariant is exactly the abstract remaining deque, forwards / backwards), nth_refines (all n), nextBack_refines, nthBack_refines (core's default body), sizeHint_refines, step_refines (clones as slots), run_refines / iter_refines (all histories, all depths), "
         "never_panics, debug_eq_release, fused, clones_independent, iter_send_sync; F1 regression witnesses pinned_nth_panics_debug / pinned_nth_rewinds_release. "
         "Correspondence: N = 0..8 (plain and disabled+generic), all histories to depth 2-3 (quick) / up to N+1 (thorough) with k in {0..N+1, MAX-1, MAX}, random 30-op histories with clones, size_hint, skip, step_by, both profiles, plus a Python reference deque.",
         "DESIGN.md §6 C05", "Partial: Send + Sync is rustc's auto-trait inference; a three-line model + a compile-time assertion (incl. T = Rc<u8>). Hypothesis 2N+1 < 2^64 (N = number of enabled variants)."),
 'C08': ("Lean 4 proof: lengths and index alignment of COUNT / VariantNames / VariantArray / EnumIter; correspondence with compiled derives",
         "lean/StrumProofs/C08.lean: count_eq, source_count (COUNT = number of variants written without `disabled`), names_len, array_spec, array_rejects_data, aligned (position i refers to the same variant in all four when nothing is disabled). "
         "Correspondence: field-less enums of 0..12 variants x disabled placement x explicit discriminants with repr x naming attributes x style x prefix; the four observables index by index.",
         "DESIGN.md §6 C08", ""),
})
CLAIMS.update({
 'C06': ("Lean 4 proof: iff between the first-match guard arms over generated constants and the reference's discriminant rule over all variants; correspondence incl. exhaustive 8/16-bit inputs",
         "lean/StrumProofs/C06.lean: reprConsts_eq_zip, rustcDiscr_rule (explicit | previous+1 | 0), from_repr_sound, from_repr_complete (round trip), from_repr_none, from_repr_iff, from_repr_const_iff, repr_type (the parameter type is the integer type named by any hint of any #[repr] attribute: scanIntHint_eq); witnesses pinned_from_repr_wrong (F2), pinned_repr_type_wrong (F8, F9). "
         "Correspondence: 11 repr choices x discriminant layouts (negative, gapped, descending, expression-valued, named const, MIN/MAX) x disabled placement x kinds x type parameter; EVERY value of 8/16-bit reprs, discriminants +-1 / 0 / MIN / MAX / random for wider ones; `v as R` cross-checks the reference rule; a const item checks const-ness; the integer type written next to C / align hints and in separate #[repr] attributes, in every order.",
         "DESIGN.md §6 C06", "from_repr_inner cannot run in-process (uses proc_macro): mode B only. Discriminants are mathematical integers; in-range and Nodup are what rustc enforces (E0370 / E0081)."),
 'C09': ("Lean 4 proof: names/order/explicit values/repr copied => equal rustc discriminants; From maps each variant to its namesake; correspondence with compiled derives",
         "lean/StrumProofs/DiscHeader.lean: collectDisc_ok_iff (the strum_discriminants loop succeeds iff name and vis are each written at most once and then equals the declarative reading: all derive paths / doc lines / pass-through attributes in source order, wherever they stand), header_order (docs, then the derive attribute, then repr, then every pass-through attribute), header_name_vis, variantAttrs_spec / variantAttrs_error_iff (whitelisted attributes verbatim, strum_discriminants(x) as x, the rest dropped, in order); lean/StrumProofs/C09.lean: disc_variants (incl. all repr hints of all attributes), disc_repr_attr, disc_values, disc_from, into_discriminant_iff, disc_name, disc_value_of_variant; F9 witness pinned_disc_repr_wrong. Correspondence: mode A `discheader`: 400 (thorough: 6000) random enums with random strum_discriminants item lists / groupings / repr attributes / variant attributes, the macro's generated enum header parsed back and compared token for token with collectDisc + discHeader + variantAttrsOut; mode B: kinds x generics/lifetimes/where x repr x discriminant layouts x name()/vis()/derive()/doc/variant pass-through, items in four orders; "
         "From<E>, From<&E>, discriminant(), `as R` of both enums, size_of, compile-time uses of each requested derive, Display of a passed-through strum(serialize).",
         "DESIGN.md §6 C09", "Partial: that an arbitrary pass-through attribute takes effect is observed only for the attribute kinds the corpus uses (derive of std traits and of strum derives, doc, strum(serialize) on variants)."),
})
CLAIMS.update({
 'C14': ("Lean 4 proof: four getters = declarative functions, incl. soundness of the macro's arm-counting wildcard rule (exhaustiveness); correspondence with compiled derives",
         "lean/StrumProofs/C14.lean: source_message / source_detailed / source_documentation / source_serializations (each getter read off the variant's OWN attributes and doc lines as written), evalArms_spec (the generated match always compiles and returns the variant's own arm), message_spec, detailed_spec, doc_spec, ser_spec. "
         "Correspondence: five enum modes (mixed, every variant has a message = no wildcard, none, all documented, all detailed) x kinds x generics x 0..4 doc lines with varied leading whitespace and special characters x naming x 17 styles x disabled.",
         "DESIGN.md §6 C14", "EnumMessage on an empty enum does not compile (`match self {}` on a reference) and has no value to call the methods on; excluded."),
 'C15': ("Lean 4 proof: getter = first declared (key, type) entry of the variant, None otherwise; iff under per-variant key uniqueness; correspondence with compiled derives",
         "lean/StrumProofs/C15.lean: source_get (first (key, T) entry among ALL props groups written on that variant); lean/StrumProofs/Collect.lean (attribute collection as written -> abstract variant: collected_spec, props_groups_merge: ALL props(..) groups merge in source order whatever sits between them); lean/StrumProofs/C15.lean: get_spec, get_type, get_iff, int_unchanged. Correspondence: 0..6 properties per variant over 1..3 props(..) groups, keys shared across variants and types, keyword keys, "
         "i64::MIN / MAX / negative integers, disabled variants; every key declared anywhere in the enum plus case / prefix / whitespace / r# variations and random strings through all three getters.",
         "DESIGN.md §6 C15", "The merge of several props(..) groups happens in syn-level attribute collection (variant_props.rs:155-157), exercised by every corpus item with more than one group; the model starts from the merged list."),
})
CLAIMS.update({
 'C07': ("Lean 4 proof: heck's word-splitting state machine = a declarative boundary rule, for every byte string; per-style table; mode-A exhaustive identifier correspondence + mode-B derive correspondence",
         "lean/StrumProofs/Lemmas/Heck.lean + C07.lean: heckWords_eq_specWords (transcribed heck 0.5 `transform` = split at non-alphanumerics + boundary before an upper-case char whose previous letter is lower-case, or upper-case with a lower-case next char), "
         "convert_case_spec (all 11 styles), camel_eq_mixed, lower_upper_only_case, explicit_never_recased, specWords_flatten / pascal_letters_preserved (letters and digits kept in order), snake_separators_clean (no leading / trailing / doubled separator), style_table (all 16 accepted strings, kernel-evaluated). "
         "Correspondence: mode A - EVERY valid identifier over {a,b,A,B,0,_} up to length 5 (quick) / 7 (thorough) + dictionary x 16 style strings + rejected strings through the macro's own CaseStyle::from_str / convert_case run from /repo sources; "
         "mode B - sampled identifiers x 16 styles compiled with six derives (VARIANTS, printed forms, from_str of renamed and original spelling, round trip, explicit names untouched).",
         "DESIGN.md §6 C07", "heck 0.5.0 is a dependency: its `transform` is modelled (transcribed) and validated by the exhaustive mode-A run, not verified from its source. ASCII identifiers only (Unicode case mapping inside heck is not modelled)."),
})
CLAIMS.update({
 'C10': ("Lean 4 proof: get/set laws of a total map (write changes one slot, read returns last write), constructors, all / all_ok, disabled => panic; correspondence over exhaustive write/read histories",
         "lean/StrumProofs/C10.lean: table_refines (every write/read history = a pointwise-updated function), get_set, set_some_iff, new_order, filled_get, from_closure_get, transform_get, all_iff / all_values, all_ok_first_err, disabled_index_panics, table_keys - for tables of any size and values of any type. "
         "Correspondence: 1..8 enabled variants x six disabled placements; constructors with pairwise distinct values + dump; ALL set/get sequences of length 3-4 over all keys (N <= 4 quick / 6 thorough); random 40-op histories; "
         "all() over every subset mask, all_ok() with distinct Err values; disabled variants as Index / IndexMut.",
         "DESIGN.md §6 C10", "Field names `_<snake>` must be pairwise different for the struct to compile (rustc); the model's slots are positional."),
 'C13': ("Lean 4 proof: exactly-one predicate, none for disabled, try_as iff with field order, mutable write-through, snakify digit splitting; mode-A snakify + mode-B every value x every method",
         "lean/StrumProofs/C13.lean: is_exactly_one, is_none_for_disabled, try_as_methods_spec, try_as_iff, try_as_mut_writes, snakify_eq (snake_case of the declarative word split + digit splitting), digits_split_off. "
         "Correspondence: mode A - snakify on every identifier over {a,b,A,B,0,_} up to length 5/7; mode B - every variant value against every generated is_* / try_as_* / _ref / _mut (write through, re-read), "
         "method names as computed by the model (a naming difference is a compile error), should-be-absent methods probed through a fallback trait.",
         "DESIGN.md §6 C13", "ASCII identifiers only. Observed quirk mirrored by the model: `Foo_1` becomes `is_foo__1`."),
})
CLAIMS.update({
 'C20': ("Lean 4 proof: each rejection rule x applicable derive => reject, never panic, domain => accept, over a raw-attribute model of every derive's checks; mode-A class correspondence + mode-B rustc diagnostics",
         "lean/StrumProofs/C20.lean: rejects (one statement: every rule x every derive it applies to => reject, with the applicability matrix `applies`), validate_reject_iff, never_panics, accepts_domain, rejects_non_enum (R1), rejects_data_variant_array/_table (R2), rejects_lifetime (R3), rejects_enum_attr / rejects_variant_attr / rejects_field_default_with (R4, R8), "
         "rejects_defaults (R5, R6), rejects_transparent_shape / rejects_default_shape_display (R6), rejects_unit_placeholder (R7), rejects_half_parse_err (R9), rejects_prop_literal (R10); F6/F7 witnesses on the pinned behaviour; lean/StrumProofs/Collect.lean: collectVariant_error_iff (get_variant_properties fails iff a single-use item is written twice), collectVariant_ok (otherwise = fold of the updates), collect_regroup / collect_swap / collect_perm / collectEnum_perm (splitting into #[strum(..)] lists and the order of independent items are irrelevant); lean/StrumProofs/Source.lean: collectAll_ok_iff (header loop + variant loops with their occurrence state succeed iff the source is collectable and then equal the declarative reading RawSource.declared), collectVariants_error (the first offending variant is reported), readLines_eq (the driver's line-by-line reading is collectAll). "
         "Correspondence: ~1600 items (every rule x every derive x positions x within/across attributes, plus in-domain controls): mode A runs the macro's *_inner functions in-process (ok / err / panic vs validate); "
         "mode B compiles rejected and accepted items in two crates with the real derives (incl. FromRepr) and reads rustc's JSON diagnostics per item file.",
         "DESIGN.md §6 C20", "Partial: 'reported at the offending item' is checked as 'an error whose span lies in the item's file' on the sampled items; the model distinguishes accept / reject / panic only, not message wording. syn's parsing of attribute syntax is exercised, not modelled."),
})
CLAIMS.update({
 'C19': ("Lean 4 proof over the per-derive table of emittable references (no_std-clean, through the crate path, not shadowable), tied to the code by 'references of real expansions are a subset of the table' + three rustc build configurations",
         "lean/StrumProofs/C19.lean: no_std_ok, crate_path_respected, shadow_safe for all 15 non-deprecated derives (finite tables, kernel-evaluated), deprecated_needs_std, F5 witness pinned_display_needs_alloc; the correspondence verdict uses the model's predicates (Ref.noStdOk, cratePathOk, shadowSafe via the driver's `refok`), so a new `::core::..` path in a harmless refactor does not alarm. "
         "Correspondence: (i) mode A - every expansion of the other properties' corpora, references extracted from the real token stream, must be within the model's list for that derive (a new allowed reference => no-failing-input-found; a disallowed one => violation); "
         "(ii) mode B - the corpora compiled as #![no_std] lib without alloc (strum default-features = false), with strum only reachable as renamed dependency / nested re-export + #[strum(crate = ..)], and with mod core/std/alloc shadowing in every module.",
         "DESIGN.md §6 C19", "Partial: the theorem is about which paths are emitted; that they resolve and type-check under the three configurations is rustc's verdict on the sampled corpora. FromRepr's expansion cannot be extracted in-process (proc_macro dependency): covered by (ii) only."),
})
NOT_CLAIMED = {}
