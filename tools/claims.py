CLAIMS = {
 'C01': ("Lean 4 theorem (first-match characterisation + iff under non-overlap) over a model of from_string.rs, tied to the code by compiled-derive correspondence",
         "Theorems in lean/StrumProofs/C01.lean characterise parse for every enum definition and every byte string (no bound on variants, spellings or input length); "
         "the correspondence runs the real EnumString derive on the per-variant exhaustive attribute core x enum-level dimensions with case-flip / one-edit / look-alike inputs.",
         "DESIGN.md §6 C01", ""),
}
NOT_CLAIMED = {}
