#!/usr/bin/env python3
"""Re-run every quick check against every kept seeded change (on /repo, one at a time) and refresh meta.json."""
import os, json, subprocess, sys
root = '/verif/seeded'
names = sorted(os.listdir(root)) if len(sys.argv) < 2 else sys.argv[1:]
for n in names:
    d = os.path.join(root, n)
    patch = os.path.join(d, 'patch.diff')
    if not os.path.exists(patch):
        continue
    m0 = json.load(open(os.path.join(d, 'meta.json')))
    ids = [m0['property']] if os.environ.get('OWN_ONLY') else []
    t = subprocess.run(['/verif/tools/try_patch.sh', patch] + ids, stdout=subprocess.PIPE, stderr=subprocess.STDOUT, text=True).stdout
    caught = [l for l in t.splitlines() if l.startswith('CAUGHT-BY:')]
    caught = caught[0][len('CAUGHT-BY:'):].split() if caught else []
    errs = [l.split(':')[0] for l in t.splitlines() if ' ERROR ' in l or l.strip().endswith('ERROR')]
    m = json.load(open(os.path.join(d, 'meta.json')))
    if os.environ.get('OWN_ONLY'):
        m.setdefault('caught_by_other_checks_earlier_run', [])
        m['caught_by_other_checks_earlier_run'] = sorted(set(m['caught_by_other_checks_earlier_run']) | set(c for c in m.get('caught_by', []) if c != m['property']))
    m['caught_by'] = caught
    m['caught_by_own_property_check'] = m['property'] in caught
    m['check_errors'] = errs
    json.dump(m, open(os.path.join(d, 'meta.json'), 'w'), indent=1)
    print(n, 'caught_by=%s own=%s errors=%s' % (caught, m['property'] in caught, errs), flush=True)
print('RECHECK-DONE')
